/-
The write attempts of the receive path, exactly, under every schedule of completing, failing and
cancelled writes: a summary
judgement `Acts` (which lines a computation attempts, what is left of the schedule, whether a write
did not complete and with which exception, whether it ends in a missing-node/child error, the reported version and the presentation
marker afterwards), one lemma per handler, one per decorator.  `Properties/C06.lean` combines
them over the generated dispatch tables into `writes_eq_expected` / `writes_eq_attempts`.
-/
import AioMySensors.Lemmas.Flushing
import AioMySensors.Model.WriteSpec

namespace AioMySensors
open M WriteSpec

/-- Does the outcome carry an exception the missing-node/child decorator catches? -/
def caughtOut (r : Except Exn Msg) : Bool :=
  match r with
  | .ok _ => false
  | .error e => missingCaught e

/-- **Summary of running `x` at `w`** while the message `m` is handled. -/
structure Acts (m : Msg) (x : M Msg) (w : W) (a : Att) (miss : Bool) (pv' : Option Str) (mk : Bool) : Prop where
  /-- exactly the attempts `a.1` are appended to the write log -/
  writes : (x w).2.writes = w.writes ++ a.1
  faults : (x w).2.faults = a.2.1
  /-- a write that did not complete ends the computation with its exception (the last such one) -/
  failed : ∀ e, a.2.2 = some e → (x w).1 = .error e ∧ missingCaught e = false
  ret : ∀ r, (x w).1 = .ok r → r = m
  /-- otherwise: whether it ends in a missing-node / missing-child error -/
  miss : a.2.2 = none → caughtOut (x w).1 = miss
  pv : (x w).2.st.pv = pv'
  mark : (x w).2.st.ibuf.has (markerKey m.node) = mk

theorem attempt_nil (fs : List Fault) : attempt [] fs = ([], fs, none) := rfl

/-- Without failures every line is written. -/
theorem attempt_nofault (ls : List Str) : attempt ls [] = (ls.map fun l => ⟨l, true⟩, [], none) := by
  induction ls with
  | nil => rfl
  | cons l ls ih => simp [attempt, ih]

/-- The exception of an attempt is the transport error or the cancellation. -/
theorem attempt_exn_cases (ls : List Str) (fs : List Fault) (e : Exn) (h : (attempt ls fs).2.2 = some e) :
    e = .lib .transportFailed ∨ e = .foreign .CancelledError := by
  induction ls generalizing fs with
  | nil => simp [attempt_nil] at h
  | cons l ls ih =>
    rcases fs with _ | ⟨_ | _ | _, fs⟩
    · exact ih [] (by simpa [attempt] using h)
    · exact ih fs (by simpa [attempt, Fault.exn] using h)
    · simp [attempt, Fault.exn] at h; exact Or.inl h.symm
    · simp [attempt, Fault.exn] at h; exact Or.inr h.symm

@[simp] theorem missingCaught_transport : missingCaught (.lib .transportFailed) = false := rfl
@[simp] theorem missingCaught_foreign (c : PyExn) : missingCaught (.foreign c) = false := rfl

/-- … neither of which the missing-node/child decorator catches. -/
theorem attempt_exn_not_missing (ls : List Str) (fs : List Fault) (e : Exn) (h : (attempt ls fs).2.2 = some e) :
    missingCaught e = false := by
  rcases attempt_exn_cases ls fs e h with rfl | rfl <;> rfl

/-- The outcome of a sequence of writes: the exception of the one that did not complete, if any. -/
def exnOut (o : Option Exn) : Except Exn Unit :=
  match o with
  | some e => .error e
  | none => .ok ()

@[simp] theorem exnOut_none : exnOut none = .ok () := rfl
@[simp] theorem exnOut_some (e : Exn) : exnOut (some e) = .error e := rfl

/-- `transport.write` is an attempt of one line. -/
theorem transportWrite_attempt (line : Str) (w : W) :
    transportWrite line w =
      (exnOut (attempt [line] w.faults).2.2,
       { w with faults := (attempt [line] w.faults).2.1, writes := w.writes ++ (attempt [line] w.faults).1 }) := by
  rcases hfs : w.faults with _ | ⟨_ | _ | _, fs⟩ <;> simp [transportWrite, attempt, Fault.exn, hfs]

namespace Acts
variable {m : Msg} {x : M Msg} {w : W}

/-- From the result of the run. -/
theorem of_run {a : Att} {miss : Bool} {pv' : Option Str} {mk : Bool} {p : Except Exn Msg × W} (h : x w = p)
    (h1 : p.2.writes = w.writes ++ a.1) (h2 : p.2.faults = a.2.1)
    (h3 : ∀ e, a.2.2 = some e → p.1 = .error e ∧ missingCaught e = false) (h4 : ∀ r, p.1 = .ok r → r = m)
    (h5 : a.2.2 = none → caughtOut p.1 = miss) (h6 : p.2.st.pv = pv') (h7 : p.2.st.ibuf.has (markerKey m.node) = mk) :
    Acts m x w a miss pv' mk := by
  subst h
  exact ⟨h1, h2, h3, h4, h5, h6, h7⟩

end Acts

/-- The release loop is an attempt of the parked lines in order. -/
theorem flushList_attempt (l : List (Key × Msg)) (w : W) (hcmd : ∀ e ∈ l, e.2.cmd = 1) :
    (flushList l w).1 = exnOut (attempt (l.map fun e => encode e.2) w.faults).2.2 ∧
    (flushList l w).2.writes = w.writes ++ (attempt (l.map fun e => encode e.2) w.faults).1 ∧
    (flushList l w).2.faults = (attempt (l.map fun e => encode e.2) w.faults).2.1 ∧
    (flushList l w).2.st.pv = w.st.pv ∧ (flushList l w).2.st.ibuf = w.st.ibuf := by
  induction l generalizing w with
  | nil => simp [flushList, M.pure, attempt_nil]
  | cons x xs ih =>
    obtain ⟨k, bm⟩ := x
    have hbm : bm.cmd = 1 := hcmd (k, bm) (by simp)
    have hxs : ∀ e ∈ xs, e.2.cmd = 1 := fun e he => hcmd e (by simp [he])
    rcases hfs : w.faults with _ | ⟨_ | _ | _, fs⟩
    · rw [flushList_cons_pass k bm xs w hbm (Or.inl hfs)]
      have := ih ⟨if w.st.sbuf.get? k = some bm then { w.st with sbuf := w.st.sbuf.erase k } else w.st,
        w.faults.tail, w.writes ++ [⟨encode bm, true⟩]⟩ hxs
      simp only [hfs, List.tail_nil] at this
      simp only [hfs, List.tail_nil, List.map_cons, attempt]
      refine ⟨this.1, by simp [this.2.1], this.2.2.1, ?_, ?_⟩
      · rw [this.2.2.2.1]; split <;> rfl
      · rw [this.2.2.2.2]; split <;> rfl
    · rw [flushList_cons_pass k bm xs w hbm (Or.inr ⟨fs, hfs⟩)]
      have := ih ⟨if w.st.sbuf.get? k = some bm then { w.st with sbuf := w.st.sbuf.erase k } else w.st,
        w.faults.tail, w.writes ++ [⟨encode bm, true⟩]⟩ hxs
      simp only [hfs, List.tail_cons] at this
      simp only [hfs, List.tail_cons, List.map_cons, attempt, Fault.exn]
      refine ⟨this.1, by simp [this.2.1], this.2.2.1, ?_, ?_⟩
      · rw [this.2.2.2.1]; split <;> rfl
      · rw [this.2.2.2.2]; split <;> rfl
    · rw [flushList_cons_fail k bm xs w .fail _ fs hbm hfs rfl]
      simp [attempt, Fault.exn]
    · rw [flushList_cons_fail k bm xs w .cancel _ fs hbm hfs rfl]
      simp [attempt, Fault.exn]

/-! ### The decorators -/

theorem markerKey_eq (n : Int) : markerKey n = (presentationRequest n).key := rfl

/-- What `handle_missing_protocol_version` does after a handler that ended with `r` in `w'`. -/
def pvTail (m : Msg) (r : Except Exn Msg) (w' : W) : Except Exn Msg × W :=
  if w'.st.pv.isNone && wantsVersionQuery m then
    match transportWrite (encode versionQuery) w' with
    | (.ok (), w'') => (r, w'')
    | (.error e, w'') => (.error e, w'')
  else (r, w')

theorem wrapMissingPV_tail (inner : Msg → M Msg) (m : Msg) (w : W) (hret : ∀ r', (inner m w).1 = .ok r' → r' = m) :
    wrapMissingPV inner m w = pvTail m (inner m w).1 (inner m w).2 := by
  rw [wrapMissingPV_eq]
  generalize inner m w = p at *
  obtain ⟨r, w'⟩ := p
  cases r with
  | ok r' => have := hret r' rfl; subst this; rfl
  | error e => rfl

/-- The version decorator: after the handler — whatever its outcome, also after a failed or cancelled write —
the query is attempted iff the version is (still) unknown and the message is not exempt. -/
theorem acts_wrapMissingPV {inner : Msg → M Msg} {m : Msg} {w : W} {a : Att} {miss : Bool} {pv' : Option Str} {mk : Bool}
    (hi : Acts m (inner m) w a miss pv' mk) :
    Acts m (wrapMissingPV inner m) w
      (andThen a (attempt (if pv'.isNone && wantsVersionQuery m then [encode versionQuery] else []))) miss pv' mk := by
  obtain ⟨h1, h2, h3, h4, h5, h6, h7⟩ := hi
  have hrun := wrapMissingPV_tail inner m w h4
  unfold pvTail at hrun
  rw [h6] at hrun
  by_cases hc : (pv'.isNone && wantsVersionQuery m) = true
  · simp only [hc, if_true] at hrun ⊢
    rw [transportWrite_attempt, h2] at hrun
    cases hb : (attempt [encode versionQuery] a.2.1).2.2 with
    | some e' =>
      have hnm := attempt_exn_not_missing _ _ _ hb
      simp only [hb, exnOut_some] at hrun
      refine Acts.of_run hrun ?_ ?_ ?_ ?_ ?_ ?_ ?_ <;> simp [andThen, hb, h1, h6, h7, hnm]
    | none =>
      simp only [hb, exnOut_none] at hrun
      refine Acts.of_run hrun ?_ ?_ ?_ ?_ ?_ ?_ ?_ <;> simp [andThen, hb, h1, h6, h7]
      · exact h3
      · exact h4
      · exact h5
  · simp only [hc] at hrun ⊢
    refine Acts.of_run hrun ?_ ?_ ?_ ?_ ?_ ?_ ?_ <;> simp [andThen, attempt_nil, h1, h2, h6, h7]
    · exact h3
    · exact h4
    · exact h5

/-- The missing-node/child decorator: one presentation request iff the handler ended in a missing
error (so nothing failed before) and no request is outstanding. -/
theorem acts_wrapMissingNC {inner : Msg → M Msg} {m : Msg} {w : W} {a : Att} {miss : Bool} {pv' : Option Str} {mk : Bool}
    (hi : Acts m (inner m) w a miss pv' mk) :
    Acts m (wrapMissingNC inner m) w
      (andThen a fun fs => if a.2.2.isSome then ([], fs, none)
        else attempt (if miss && !mk then [encode (presentationRequest m.node)] else []) fs)
      miss pv' ((wrapMissingNC inner m w).2.st.ibuf.has (markerKey m.node)) := by
  obtain ⟨h1, h2, h3, h4, h5, h6, h7⟩ := hi
  cases hiw : inner m w with
  | mk r w' =>
    rw [hiw] at h1 h2 h3 h4 h5 h6 h7
    simp only at h1 h2 h3 h4 h5 h6 h7
    have same : wrapMissingNC inner m w = (r, w') →
        Acts m (wrapMissingNC inner m) w (andThen a fun fs => ([], fs, none)) miss pv'
          ((wrapMissingNC inner m w).2.st.ibuf.has (markerKey m.node)) := by
      intro he
      refine ⟨?_, ?_, ?_, ?_, ?_, ?_, ?_⟩ <;> simp [andThen, he, h1, h2, h6]
      · exact h3
      · exact h4
      · exact h5
    cases hb : a.2.2 with
    | some ex =>
      simp only [Option.isSome_some, if_true]
      obtain ⟨hout, hnm⟩ := h3 ex hb
      rw [hout] at hiw
      exact same (by rw [hout]; exact wrapMissingNC_other inner m _ w w' hiw hnm)
    | none =>
      simp only [Option.isSome_none, Bool.false_eq_true, if_false]
      have hmiss := h5 hb
      cases r with
      | ok r' =>
        simp only [caughtOut] at hmiss
        subst hmiss
        simp only [Bool.false_and, Bool.false_eq_true, if_false, attempt_nil]
        exact same (wrapMissingNC_ok inner m r' w w' hiw)
      | error e =>
        simp only [caughtOut] at hmiss
        cases hmc : missingCaught e with
        | false =>
          rw [hmc] at hmiss; subst hmiss
          simp only [Bool.false_and, Bool.false_eq_true, if_false, attempt_nil]
          exact same (wrapMissingNC_other inner m e w w' hiw hmc)
        | true =>
          rw [hmc] at hmiss; subst hmiss
          cases hmk : mk with
          | true =>
            simp only [Bool.not_true, Bool.and_false, Bool.false_eq_true, if_false, attempt_nil]
            exact same (wrapMissingNC_marked inner m e w w' hiw hmc (by rw [← markerKey_eq, h7, hmk]))
          | false =>
            have hu := wrapMissingNC_unmarked inner m e w w' hiw hmc (by rw [← markerKey_eq, h7, hmk])
            rw [transportWrite_attempt, h2] at hu
            simp only [Bool.not_false, Bool.and_self, if_true]
            cases hf : (attempt [encode (presentationRequest m.node)] a.2.1).2.2 with
            | some e' =>
              have hnm := attempt_exn_not_missing _ _ _ hf
              simp only [hf, exnOut_some] at hu
              refine ⟨?_, ?_, ?_, ?_, ?_, ?_, ?_⟩ <;> simp [andThen, hu, hf, h1, h6, hnm]
            | none =>
              simp only [hf, exnOut_none] at hu
              refine ⟨?_, ?_, ?_, ?_, ?_, ?_, ?_⟩ <;> simp [andThen, hu, hf, h1, h6, hb, caughtOut, hmc]

/-- A state change before the handler (`protocol_20.handle_presentation` dropping the marker). -/
theorem acts_seq_modify {m : Msg} {x : M Msg} {w : W} {a : Att} {miss : Bool} {pv' : Option Str} {mk : Bool} (f : St → St)
    (hx : Acts m x { w with st := f w.st } a miss pv' mk) : Acts m (seq (modifySt f) x) w a miss pv' mk := by
  obtain ⟨h1, h2, h3, h4, h5, h6, h7⟩ := hx
  exact ⟨h1, h2, h3, h4, h5, h6, h7⟩

/-! ### The handlers -/

@[simp] theorem caughtOut_ok (r : Msg) : caughtOut (.ok r) = false := rfl
@[simp] theorem caughtOut_missingNode (n : Int) : caughtOut (.error (.lib (.missingNode n))) = true := by
  simp only [caughtOut, missingCaught]; decide
@[simp] theorem caughtOut_missingChild (n : Int) : caughtOut (.error (.lib (.missingChild n))) = true := by
  simp only [caughtOut, missingCaught]; decide
@[simp] theorem caughtOut_invalid : caughtOut (.error (.lib .invalidMessage)) = false := rfl
@[simp] theorem caughtOut_unsupported : caughtOut (.error (.lib .unsupported)) = false := rfl
@[simp] theorem caughtOut_tooMany : caughtOut (.error (.lib .tooManyNodes)) = false := rfl
@[simp] theorem caughtOut_transport : caughtOut (.error (.lib .transportFailed)) = false := rfl
@[simp] theorem caughtOut_foreign (c : PyExn) : caughtOut (.error (.foreign c)) = false := rfl

/-- Prove a summary from the run itself: every field by `simp` with the given unfoldings. -/
macro "acts_run" "[" ts:Lean.Parser.Tactic.simpLemma,* "]" : tactic =>
  `(tactic| (refine Acts.of_run rfl ?_ ?_ ?_ ?_ ?_ ?_ ?_ <;> simp [$ts,*]))

/-- A set: the reboot command for a flagged node; a missing error for an unknown node / child. -/
theorem acts_hSet (m : Msg) (w : W) :
    Acts m (hSet m) w
      (attempt ((if knownChild w.st m = true ∧ ((w.st.nodes.get? m.node).map (·.reboot)) = some true then
        [(⟨m.node, Gen.systemChildId, Gen.cmdInternal, 0, Gen.iReboot, []⟩ : Msg)] else []).map encode) w.faults)
      (!knownChild w.st m) w.st.pv (w.st.ibuf.has (markerKey m.node)) := by
  cases hn : w.st.nodes.get? m.node with
  | none => acts_run [hSet, requireNode, M.bind, M.getSt, hn, M.raise, knownChild, attempt_nil]
  | some node =>
    cases hc : node.children.get? m.child with
    | none => acts_run [hSet, requireNode, M.bind, M.getSt, hn, M.raise, M.pure, hc, knownChild, attempt_nil, PDict.has]
    | some child =>
      cases hr : node.reboot with
      | false =>
        acts_run [hSet, requireNode, M.bind, M.getSt, hn, M.pure, hc, M.seq, setNode, M.modifySt, hr, knownChild,
          PDict.has, attempt_nil]
      | true =>
        have hs := gwSend_direct ⟨m.node, Gen.systemChildId, Gen.cmdInternal, 0, Gen.iReboot, []⟩ Gen.bufReboot
          (Or.inr (Or.inr (Or.inl rfl)))
        rcases hfs : w.faults with _ | ⟨_ | _ | _, fs⟩ <;>
          acts_run [hSet, requireNode, M.bind, M.getSt, hn, M.pure, hc, M.seq, setNode, M.modifySt, hr, hs,
            transportWrite, hfs, attempt, Fault.exn, knownChild, PDict.has]

/-- A req: the stored value, if any. -/
theorem acts_hReq (m : Msg) (w : W) :
    Acts m (hReq m) w
      (attempt ((match storedValue? w.st m with
        | some value => [(⟨m.node, m.child, Gen.cmdSet, 0, m.type, value⟩ : Msg)]
        | none => []).map encode) w.faults)
      (!knownChild w.st m) w.st.pv (w.st.ibuf.has (markerKey m.node)) := by
  cases hn : w.st.nodes.get? m.node with
  | none => acts_run [hReq, requireNode, M.bind, M.getSt, hn, M.raise, storedValue?, knownChild, attempt_nil]
  | some node =>
    cases hc : node.children.get? m.child with
    | none => acts_run [hReq, requireNode, M.bind, M.getSt, hn, M.raise, M.pure, hc, storedValue?, knownChild, attempt_nil, PDict.has]
    | some child =>
      cases hv : child.values.get? m.type with
      | none => acts_run [hReq, requireNode, M.bind, M.getSt, hn, M.raise, M.pure, hc, hv, storedValue?, knownChild, attempt_nil, PDict.has]
      | some value =>
        have hflag : Gen.bufReqReply = false := by decide
        have hs := gwSend_set ⟨m.node, m.child, Gen.cmdSet, 0, m.type, value⟩ Gen.bufReqReply w rfl
        rw [hflag] at hs
        simp only [Bool.false_eq_true, false_and, if_false] at hs
        rcases hfs : w.faults with _ | ⟨_ | _ | _, fs⟩ <;>
          acts_run [hReq, requireNode, M.bind, M.getSt, hn, M.pure, hc, hv, M.seq, hflag, hs, transportWrite, hfs, attempt, Fault.exn,
            storedValue?, knownChild, PDict.has]


/-- One reaction written at once, then the message is returned (config, time, gateway ready). -/
theorem acts_reply (m : Msg) (w : W) (r : Msg) (b : Bool) (h : r.cmd = 3) :
    Acts m (seq (gwSend r b) (pure m)) w (attempt [encode r] w.faults) false w.st.pv (w.st.ibuf.has (markerKey m.node)) := by
  have hs := gwSend_direct r b (Or.inr (Or.inr (Or.inl h)))
  rcases hfs : w.faults with _ | ⟨_ | _ | _, fs⟩ <;>
    acts_run [M.seq, M.bind, M.pure, hs, transportWrite, hfs, attempt, Fault.exn]

theorem acts_hConfig (env : Env) (m : Msg) (w : W) (hcmd : m.cmd = 3) :
    Acts m (hConfig env m) w
      (attempt [encode ⟨m.node, m.child, m.cmd, 0, m.type, if env.metric then ['M'] else ['I']⟩] w.faults)
      false w.st.pv (w.st.ibuf.has (markerKey m.node)) :=
  acts_reply m w _ _ hcmd

theorem acts_hTime (env : Env) (m : Msg) (w : W) (hcmd : m.cmd = 3) :
    Acts m (hTime env m) w (attempt [encode ⟨m.node, m.child, m.cmd, 0, m.type, dec env.timegm⟩] w.faults)
      false w.st.pv (w.st.ibuf.has (markerKey m.node)) :=
  acts_reply m w _ _ hcmd

theorem acts_hGatewayReady (m : Msg) (w : W) (hcmd : m.cmd = 3) :
    Acts m (hGatewayReady m) w (attempt [encode ⟨Gen.broadcastId, m.child, m.cmd, 0, Gen.iDiscover, []⟩] w.faults)
      false w.st.pv (w.st.ibuf.has (markerKey m.node)) :=
  acts_reply m w _ _ hcmd

/-- An id request: the next free id is registered and handed out; none free: nothing is written. -/
theorem acts_hIdRequest (m : Msg) (w : W) (hcmd : m.cmd = 3) :
    Acts m (hIdRequest m) w
      (attempt ((if nextId w.st.nodes ≤ Gen.maxNodeId then
        [(⟨m.node, m.child, m.cmd, 0, Gen.iIdResponse, dec (nextId w.st.nodes)⟩ : Msg)] else []).map encode) w.faults)
      false w.st.pv (w.st.ibuf.has (markerKey m.node)) := by
  by_cases hfull : nextId w.st.nodes > Gen.maxNodeId
  · have : ¬ nextId w.st.nodes ≤ Gen.maxNodeId := by omega
    acts_run [hIdRequest, M.bind, M.getSt, hfull, this, M.raise, attempt_nil]
  · have : nextId w.st.nodes ≤ Gen.maxNodeId := by omega
    have hs := gwSend_direct ⟨m.node, m.child, m.cmd, 0, Gen.iIdResponse, dec (nextId w.st.nodes)⟩ Gen.bufIdResponse
      (Or.inr (Or.inr (Or.inl hcmd)))
    rcases hfs : w.faults with _ | ⟨_ | _ | _, fs⟩ <;>
      acts_run [hIdRequest, M.bind, M.getSt, hfull, this, M.seq, allocNode, M.modifySt, M.pure, hs, transportWrite, hfs, attempt, Fault.exn]

/-- Reports that need the sender's record: nothing is written; an unknown sender is a missing-node error. -/
theorem acts_hBattery (m : Msg) (w : W) :
    Acts m (hBattery m) w ([], w.faults, none) (!knownNode w.st m) w.st.pv (w.st.ibuf.has (markerKey m.node)) := by
  cases hn : w.st.nodes.get? m.node with
  | none => acts_run [hBattery, requireNode, M.bind, M.getSt, hn, M.raise, knownNode, PDict.has]
  | some node =>
    cases hp : pyRoundFloat m.payload with
    | error c =>
      by_cases hc : pyCaught c (clause Gen.excBattery 0) = true <;>
        acts_run [hBattery, requireNode, M.bind, M.getSt, hn, M.raise, M.pure, convertExn, hp, hc, knownNode, PDict.has]
    | ok level =>
      by_cases hr : Gen.minBattery ≤ level ∧ level ≤ Gen.maxBattery <;>
        acts_run [hBattery, requireNode, M.bind, M.getSt, hn, M.raise, M.pure, convertExn, hp, hr, M.seq, setNode, M.modifySt,
          knownNode, PDict.has]

theorem acts_hSketchName (m : Msg) (w : W) :
    Acts m (hSketchName m) w ([], w.faults, none) (!knownNode w.st m) w.st.pv (w.st.ibuf.has (markerKey m.node)) := by
  cases hn : w.st.nodes.get? m.node <;>
    acts_run [hSketchName, requireNode, M.bind, M.getSt, hn, M.raise, M.pure, M.seq, setNode, M.modifySt, knownNode, PDict.has]

theorem acts_hSketchVersion (m : Msg) (w : W) :
    Acts m (hSketchVersion m) w ([], w.faults, none) (!knownNode w.st m) w.st.pv (w.st.ibuf.has (markerKey m.node)) := by
  cases hn : w.st.nodes.get? m.node <;>
    acts_run [hSketchVersion, requireNode, M.bind, M.getSt, hn, M.raise, M.pure, M.seq, setNode, M.modifySt, knownNode, PDict.has]

theorem acts_hDiscoverResponse (m : Msg) (w : W) :
    Acts m (hDiscoverResponse m) w ([], w.faults, none) (!knownNode w.st m) w.st.pv (w.st.ibuf.has (markerKey m.node)) := by
  cases hn : w.st.nodes.get? m.node <;>
    acts_run [hDiscoverResponse, requireNode, M.bind, M.getSt, hn, M.raise, M.pure, knownNode, PDict.has]

theorem acts_hHeartbeat22 (m : Msg) (w : W) :
    Acts m (hHeartbeat22 m) w ([], w.faults, none) (!knownNode w.st m) w.st.pv (w.st.ibuf.has (markerKey m.node)) := by
  cases hn : w.st.nodes.get? m.node with
  | none => acts_run [hHeartbeat22, requireNode, M.bind, M.getSt, hn, M.raise, knownNode, PDict.has]
  | some node =>
    cases hp : pyInt? m.payload with
    | none =>
      by_cases hc : pyCaught .ValueError (clause Gen.excHeartbeat22 0) = true <;>
        acts_run [hHeartbeat22, requireNode, M.bind, M.getSt, hn, M.raise, M.pure, heartbeatValue, convertExn, hp, hc, knownNode, PDict.has]
    | some hb =>
      acts_run [hHeartbeat22, requireNode, M.bind, M.getSt, hn, M.raise, M.pure, heartbeatValue, convertExn, hp, M.seq, setNode,
        M.modifySt, knownNode, PDict.has]

/-- The version handler: nothing is written; an accepted version string becomes the reported version. -/
theorem acts_hVersion (m : Msg) (w : W) :
    Acts m (hVersion m) w ([], w.faults, none) false
      (if (getProtocol? m.payload).isSome then some m.payload else w.st.pv) (w.st.ibuf.has (markerKey m.node)) := by
  cases hv : getProtocolX m.payload with
  | error e =>
    have hE : getProtocolE m.payload = .error e.toPy := by simp [getProtocolE, hv]
    by_cases hc : pyCaught e.toPy (clause Gen.excVersion 0) = true <;>
      acts_run [hVersion, hE, getProtocol?, hv, M.bind, convertExn, hc, M.raise]
  | ok p => acts_run [hVersion, getProtocolE, getProtocol?, hv, M.bind, convertExn, M.pure, M.seq, M.modifySt]

/-- The hypothesis of the wake clauses: what is parked for the node are set commands (C07's
invariant `SbufSet`, which every reachable state satisfies, implies it). -/
def ParkedSets (st : St) (n : Int) : Prop := ∀ e ∈ snapshotOf st n, e.2.cmd = 1

theorem parkedSets_of_sbufSet {st : St} (h : SbufSet st) (n : Int) : ParkedSets st n := fun e he =>
  (h e (List.mem_filter.mp he).1).1

/-- Running in another world with the same write log and schedule. -/
theorem Acts.of_world {m : Msg} {x y : M Msg} {w w1 : W} {a : Att} {miss : Bool} {pv' : Option Str} {mk : Bool}
    (h : x w = y w1) (hw : w1.writes = w.writes) (hy : Acts m y w1 a miss pv' mk) : Acts m x w a miss pv' mk := by
  obtain ⟨h1, h2, h3, h4, h5, h6, h7⟩ := hy
  exact Acts.of_run h (by rw [h1, hw]) h2 h3 h4 h5 h6 h7

/-- The release of the woken node's parked commands. -/
theorem acts_flush (m : Msg) (w : W) (hs : ParkedSets w.st m.node) :
    Acts m (flush m) w (attempt ((parkedFor w.st m.node).map encode) w.faults) false w.st.pv
      (w.st.ibuf.has (markerKey m.node)) := by
  obtain ⟨f1, f2, f3, f4, f5⟩ := flushList_attempt (snapshotOf w.st m.node) w hs
  have hl : (parkedFor w.st m.node).map encode = (snapshotOf w.st m.node).map fun e => encode e.2 := by
    simp [parkedFor, snapshotOf]
  rw [hl]
  have hrun := flush_eq m w
  cases hfl : flushList (snapshotOf w.st m.node) w with
  | mk r w' =>
    rw [hfl] at hrun f1 f2 f3 f4 f5
    simp only at f1 f2 f3 f4 f5
    cases r with
    | ok u =>
      simp only at hrun
      have hb : (attempt (List.map (fun e => encode e.snd) (snapshotOf w.st m.node)) w.faults).2.2 = none := by
        cases hb : (attempt (List.map (fun e => encode e.snd) (snapshotOf w.st m.node)) w.faults).2.2 with
        | none => rfl
        | some e' => rw [hb] at f1; simp at f1
      refine Acts.of_run hrun ?_ ?_ ?_ ?_ ?_ ?_ ?_ <;> simp [f2, f3, f4, f5, hb]
    | error e =>
      simp only at hrun
      cases hb : (attempt (List.map (fun e => encode e.snd) (snapshotOf w.st m.node)) w.faults).2.2 with
      | none => rw [hb] at f1; simp at f1
      | some e' =>
        rw [hb] at f1
        simp only [exnOut_some, Except.error.injEq] at f1
        subst f1
        have hnm := attempt_exn_not_missing _ _ _ hb
        refine Acts.of_run hrun ?_ ?_ ?_ ?_ ?_ ?_ ?_ <;> simp [f2, f3, f4, f5, hb, hnm]

theorem Acts.cast {m : Msg} {x : M Msg} {w : W} {a a' : Att} {miss miss' : Bool} {pv' pv'' : Option Str} {mk mk' : Bool}
    (h : Acts m x w a miss pv' mk) (ha : a = a') (hm : miss = miss') (hp : pv' = pv'') (hk : mk = mk') :
    Acts m x w a' miss' pv'' mk' := by
  subst ha hm hp hk; exact h

/-- Heartbeat response in 2.0 / 2.1: the wake signal of a known node when it carries an integer. -/
theorem acts_hHeartbeat20 (m : Msg) (w : W) (hs : ParkedSets w.st m.node) :
    Acts m (hHeartbeat20 m) w
      (attempt ((if knownNode w.st m = true ∧ (pyInt? m.payload).isSome = true then parkedFor w.st m.node else []).map encode)
        w.faults)
      (!knownNode w.st m) w.st.pv (w.st.ibuf.has (markerKey m.node)) := by
  cases hn : w.st.nodes.get? m.node with
  | none => acts_run [hHeartbeat20, requireNode, M.bind, M.getSt, hn, M.raise, knownNode, PDict.has, attempt_nil]
  | some node =>
    cases hp : pyInt? m.payload with
    | none =>
      by_cases hc : pyCaught .ValueError (clause Gen.excHeartbeat20 0) = true <;>
        acts_run [hHeartbeat20, requireNode, M.bind, M.getSt, hn, M.raise, M.pure, heartbeatValue, convertExn, hp, hc,
          knownNode, PDict.has, attempt_nil]
    | some hb =>
      have hrun : hHeartbeat20 m w =
          flush m { w with st := { w.st with nodes := w.st.nodes.set m.node { node with sleeping := true, heartbeat := hb } } } := by
        simp [hHeartbeat20, requireNode, M.bind, M.getSt, hn, M.pure, heartbeatValue, convertExn, hp, M.seq, setNode, M.modifySt]
      exact (Acts.of_world hrun rfl (acts_flush m _ hs)).cast (by simp [knownNode, PDict.has, hn, parkedFor])
        (by simp [knownNode, PDict.has, hn]) rfl rfl

/-- The pre-sleep notification (2.2): the wake signal of a known node. -/
theorem acts_hPreSleep22 (m : Msg) (w : W) (hs : ParkedSets w.st m.node) :
    Acts m (hPreSleep22 m) w
      (attempt ((if knownNode w.st m = true then parkedFor w.st m.node else []).map encode) w.faults)
      (!knownNode w.st m) w.st.pv (w.st.ibuf.has (markerKey m.node)) := by
  cases hn : w.st.nodes.get? m.node with
  | none => acts_run [hPreSleep22, requireNode, M.bind, M.getSt, hn, M.raise, knownNode, PDict.has, attempt_nil]
  | some node =>
    have hrun : hPreSleep22 m w =
        flush m { w with st := { w.st with nodes := w.st.nodes.set m.node { node with sleeping := true } } } := by
      simp [hPreSleep22, requireNode, M.bind, M.getSt, hn, M.pure, M.seq, setNode, M.modifySt]
    exact (Acts.of_world hrun rfl (acts_flush m _ hs)).cast (by simp [knownNode, PDict.has, hn, parkedFor])
      (by simp [knownNode, PDict.has, hn]) rfl rfl

/-- `protocol_14.handle_presentation`: nothing is written; a child presentation from an unknown node
is a missing-node error; the gateway's own presentation reports its version. -/
theorem acts_hPresentation (env : Env) (v : Ver) (m : Msg) (w : W) :
    Acts m (hPresentation env v m) w ([], w.faults, none) (m.child != Gen.systemChildId && !knownNode w.st m)
      (if m.child = Gen.systemChildId ∧ m.node = 0 ∧ (getProtocol? m.payload).isSome = true then some m.payload else w.st.pv)
      (w.st.ibuf.has (markerKey m.node)) := by
  have hvc : runTyped env (Gen.versionHandlerChain v) = hVersion := by cases v <;> rfl
  by_cases hc : m.child = Gen.systemChildId
  · by_cases h0 : m.node = 0
    · have hrun : hPresentation env v m w =
          hVersion m { w with st := { w.st with nodes := w.st.nodes.set m.node { ntype := m.type, pv := m.payload } } } := by
        simp [hPresentation, hc, h0, hvc, M.seq, M.bind, setNode, M.modifySt]
      exact (Acts.of_world hrun rfl (acts_hVersion m _)).cast rfl (by simp [hc]) (by simp [hc, h0]) rfl
    · acts_run [hPresentation, hc, h0, M.seq, M.bind, setNode, M.modifySt, M.pure]
  · cases hn : w.st.nodes.get? m.node <;>
      acts_run [hPresentation, hc, requireNode, M.bind, M.getSt, hn, M.raise, M.pure, M.seq, setNode, M.modifySt, knownNode, PDict.has]

/-- Writing two lists one after the other = writing the first, and the second if nothing failed. -/
theorem attempt_append (l x : List Str) (fs : List Fault) :
    attempt (l ++ x) fs =
      andThen (attempt l fs) fun fs' => if (attempt l fs).2.2.isSome then ([], fs', none) else attempt x fs' := by
  induction l generalizing fs with
  | nil => simp [attempt_nil, andThen]
  | cons a l ih =>
    rcases fs with _ | ⟨_ | _ | _, fs⟩
    · simp only [List.cons_append, attempt, ih, andThen]
      rfl
    · simp only [List.cons_append, attempt, Fault.exn, ih, andThen]
      rfl
    · simp [attempt, Fault.exn, andThen]
    · simp [attempt, Fault.exn, andThen]

/-- The missing-node/child decorator around a handler whose attempts are a list of lines: the
request comes after them. -/
theorem acts_wrapNC {inner : Msg → M Msg} {m : Msg} {w : W} {l : List Str} {miss : Bool} {pv' : Option Str} {mk : Bool}
    (v : Ver) (hi : Acts m (inner m) w (attempt l w.faults) miss pv' mk) :
    ∃ mk', Acts m (wrapNC v inner m) w
      (attempt (l ++ if Ver.v20 ≤ v ∧ miss = true ∧ mk = false then [encode (presentationRequest m.node)] else []) w.faults)
      miss pv' mk' := by
  by_cases hv : Ver.v20 ≤ v
  · rw [wrapNC_new v inner hv]
    refine ⟨_, (acts_wrapMissingNC hi).cast ?_ rfl rfl rfl⟩
    rw [attempt_append]
    cases miss <;> cases mk <;> simp [hv]
  · rw [wrapNC_old v inner hv]
    exact ⟨_, hi.cast (by simp [hv]) rfl rfl rfl⟩


/-! ### The internal and stream commands -/

/-- The missing-node/child decorator as a layer: present from 2.0 on. -/
def ncLayer (v : Ver) : List Layer := if Ver.v20 ≤ v then [.wrap .missingNC] else []

/-- The handler of an internal type by its name in the version's enum — what the generated
`internalChains` resolve to (`internal_chain_of_name`). -/
def chainOfName (v : Ver) (name : String) : Option Chain :=
  if name = "i_battery_level" then some ⟨ncLayer v, .iBatteryLevel14⟩
  else if name = "i_time" then some ⟨[], .iTime14⟩
  else if name = "i_version" then some ⟨[], .iVersion14⟩
  else if name = "i_id_request" then some ⟨[], .iIdRequest14⟩
  else if name = "i_config" then some ⟨[], .iConfig14⟩
  else if name = "i_sketch_name" then some ⟨ncLayer v, .iSketchName14⟩
  else if name = "i_sketch_version" then some ⟨ncLayer v, .iSketchVersion14⟩
  else if name = "i_gateway_ready" then (if Ver.v20 ≤ v then some ⟨[], .iGatewayReady20⟩ else none)
  else if name = "i_discover_response" then some ⟨[.wrap .missingNC], .iDiscoverResponse20⟩
  else if name = "i_heartbeat_response" then
    some ⟨[.wrap .missingNC], if v < Ver.v22 then .iHeartbeatResponse20 else .iHeartbeatResponse22⟩
  else if name = "i_pre_sleep_notification" then some ⟨[.wrap .missingNC], .iPreSleepNotification22⟩
  else none

theorem internal_chain_of_name :
    ∀ v : Ver, ∀ e ∈ Gen.internalTypes v, (Gen.internalChains v).lookup e.1 = some (chainOfName v e.2) := by
  decide

theorem lookup_some_mem {α β : Type} [BEq α] [LawfulBEq α] {l : List (α × β)} {a : α} {b : β} (h : l.lookup a = some b) :
    (a, b) ∈ l := by
  induction l with
  | nil => simp at h
  | cons x xs ih =>
    obtain ⟨a', b'⟩ := x
    simp only [List.lookup] at h
    split at h
    · next heq =>
      simp only [Option.some.injEq] at h
      have := eq_of_beq heq
      subst this; subst h; simp
    · exact List.mem_cons_of_mem _ (ih h)

/-- The handler of a named internal type. -/
theorem hInternal_named (env : Env) (v : Ver) (m : Msg) (name : String)
    (h : (Gen.internalTypes v).lookup m.type = some name) :
    hInternal env v m = runTyped env (chainOfName v name) m := by
  have := internal_chain_of_name v (m.type, name) (lookup_some_mem h)
  simp only at this
  simp [hInternal, h, this]

theorem lookup_join_none {l : List (Int × Option Chain)} (h : l.all (fun e => e.2.isNone) = true) (t : Int) :
    (l.lookup t).join = none := by
  induction l with
  | nil => rfl
  | cons x xs ih =>
    obtain ⟨a, b⟩ := x
    simp only [List.all_cons, Bool.and_eq_true] at h
    simp only [List.lookup]
    split
    · cases b <;> simp_all
    · exact ih h.2

theorem stream_chain_none (v : Ver) (t : Int) : ((Gen.streamChains v).lookup t).join = none :=
  lookup_join_none (by revert v; decide) t

/-- A stream message: nothing is written; an unknown sender is a missing-node error. -/
theorem acts_hStream (env : Env) (v : Ver) (m : Msg) (w : W) :
    Acts m (hStream env v m) w ([], w.faults, none) (!knownNode w.st m) w.st.pv (w.st.ibuf.has (markerKey m.node)) := by
  cases hn : w.st.nodes.get? m.node with
  | none => acts_run [hStream, requireNode, M.bind, M.getSt, hn, M.raise, knownNode, PDict.has]
  | some node =>
    cases hl : (Gen.streamTypes v).lookup m.type <;>
      acts_run [hStream, requireNode, M.bind, M.getSt, hn, M.raise, M.pure, hl, stream_chain_none, runTyped, knownNode, PDict.has]

/-- The reported version after the message: the message's own report if it makes one. -/
def pvAfter (st : St) (m : Msg) : Option Str := if reportsVersion st m then some m.payload else st.pv

/-- Unfold the specification (for a message whose command / type name is known). -/
macro "spec_simp" "[" ts:Lean.Parser.Tactic.simpLemma,* "]" : tactic =>
  `(tactic| simp [first, reactions, idReply, configReply, timeReply, valueReply, discover, rebootCmd, released, isWake,
      request, refersToUnknown, nodeReports, isInternal, pvAfter, reportsVersion, Gen.cmdReq, Gen.cmdSet, Gen.cmdInternal,
      Gen.cmdPresentation, Gen.cmdStream, attempt_nil, presentationRequest, $ts,*])

/-- In which versions the 2.x type names exist (generated tables). -/
theorem internal_name_versions : ∀ v : Ver, ∀ e ∈ Gen.internalTypes v,
    ((e.2 = "i_discover_response" ∨ e.2 = "i_heartbeat_response") → Ver.v20 ≤ v) ∧
    (e.2 = "i_pre_sleep_notification" → v = .v22) := by decide

/-- An internal type whose handler sits inside the missing-node/child decorator. -/
theorem acts_internal_nc {env : Env} {m : Msg} {w : W} {h : Msg → M Msg} {l : List Msg}
    (hi : Acts m (h m) w (attempt (l.map encode) w.faults) (!knownNode w.st m) w.st.pv (w.st.ibuf.has (markerKey m.node)))
    (hfirst : first env w.st m = l ++ if Ver.v20 ≤ w.st.proto ∧ knownNode w.st m = false ∧
      w.st.ibuf.has (markerKey m.node) = false then [presentationRequest m.node] else [])
    (hpv : pvAfter w.st m = w.st.pv) :
    ∃ miss mk, Acts m (wrapNC w.st.proto h m) w (attempt ((first env w.st m).map encode) w.faults) miss (pvAfter w.st m) mk := by
  obtain ⟨mk', h'⟩ := acts_wrapNC w.st.proto hi
  refine ⟨_, mk', h'.cast ?_ rfl hpv.symm rfl⟩
  rw [hfirst]; congr 1
  by_cases hv : Ver.v20 ≤ w.st.proto <;> cases hk : knownNode w.st m <;> cases hmk : w.st.ibuf.has (markerKey m.node) <;>
    simp [hv]

/-- An internal type whose handler is not decorated. -/
theorem acts_internal_plain {env : Env} {m : Msg} {w : W} {x : M Msg} {l : List Msg} {miss : Bool} {pv' : Option Str}
    (hi : Acts m x w (attempt (l.map encode) w.faults) miss pv' (w.st.ibuf.has (markerKey m.node)))
    (hfirst : first env w.st m = l) (hpv : pvAfter w.st m = pv') :
    ∃ miss mk, Acts m x w (attempt ((first env w.st m).map encode) w.faults) miss (pvAfter w.st m) mk :=
  ⟨_, _, hi.cast (by rw [hfirst]) rfl hpv.symm rfl⟩

theorem acts_hInternal (env : Env) (m : Msg) (w : W) (hcmd : m.cmd = 3) (hs : ParkedSets w.st m.node) :
    ∃ miss mk, Acts m (hInternal env w.st.proto m) w (attempt ((first env w.st m).map encode) w.faults) miss
      (pvAfter w.st m) mk := by
  cases hl : (Gen.internalTypes w.st.proto).lookup m.type with
  | none =>
    have hname : internalName w.st.proto m = none := by simp [internalName, hl, hcmd, Gen.cmdInternal]
    refine ⟨false, w.st.ibuf.has (markerKey m.node), ?_⟩
    refine Acts.of_run rfl ?_ ?_ ?_ ?_ ?_ ?_ ?_ <;> spec_simp [hInternal, hl, M.raise, hname, hcmd]
  | some name =>
    have hname : internalName w.st.proto m = some name := by simp [internalName, hl, hcmd, Gen.cmdInternal]
    have hvers := internal_name_versions w.st.proto (m.type, name) (lookup_some_mem hl)
    simp only at hvers
    rw [hInternal_named env w.st.proto m name hl]
    by_cases h1 : name = "i_battery_level"
    · subst h1
      rw [show runTyped env (chainOfName w.st.proto "i_battery_level") = wrapNC w.st.proto hBattery by
        rw [show chainOfName w.st.proto "i_battery_level" = some ⟨ncLayer _, .iBatteryLevel14⟩ from rfl]
        simp only [runTyped, runInner, runLeaf, ncLayer, wrapNC]; split <;> rfl]
      exact acts_internal_nc (l := []) ((acts_hBattery m w).cast (by simp [attempt_nil]) rfl rfl rfl)
        (by spec_simp [hname, hcmd]) (by spec_simp [hname, hcmd])
    by_cases h2 : name = "i_time"
    · subst h2
      rw [show runTyped env (chainOfName w.st.proto "i_time") = hTime env from rfl]
      exact acts_internal_plain (l := [_]) (acts_hTime env m w hcmd) (by spec_simp [hname, hcmd]) (by spec_simp [hname, hcmd])
    by_cases h3 : name = "i_version"
    · subst h3
      rw [show runTyped env (chainOfName w.st.proto "i_version") = hVersion from rfl]
      exact acts_internal_plain (l := []) ((acts_hVersion m w).cast (by simp [attempt_nil]) rfl rfl rfl)
        (by spec_simp [hname, hcmd]) (by spec_simp [hname, hcmd])
    by_cases h4 : name = "i_id_request"
    · subst h4
      rw [show runTyped env (chainOfName w.st.proto "i_id_request") = hIdRequest from rfl]
      exact acts_internal_plain (acts_hIdRequest m w hcmd) (by spec_simp [hname, hcmd]) (by spec_simp [hname, hcmd])
    by_cases h5 : name = "i_config"
    · subst h5
      rw [show runTyped env (chainOfName w.st.proto "i_config") = hConfig env from rfl]
      exact acts_internal_plain (l := [_]) (acts_hConfig env m w hcmd) (by spec_simp [hname, hcmd]) (by spec_simp [hname, hcmd])
    by_cases h6 : name = "i_sketch_name"
    · subst h6
      rw [show runTyped env (chainOfName w.st.proto "i_sketch_name") = wrapNC w.st.proto hSketchName by
        rw [show chainOfName w.st.proto "i_sketch_name" = some ⟨ncLayer _, .iSketchName14⟩ from rfl]
        simp only [runTyped, runInner, runLeaf, ncLayer, wrapNC]; split <;> rfl]
      exact acts_internal_nc (l := []) ((acts_hSketchName m w).cast (by simp [attempt_nil]) rfl rfl rfl)
        (by spec_simp [hname, hcmd]) (by spec_simp [hname, hcmd])
    by_cases h7 : name = "i_sketch_version"
    · subst h7
      rw [show runTyped env (chainOfName w.st.proto "i_sketch_version") = wrapNC w.st.proto hSketchVersion by
        rw [show chainOfName w.st.proto "i_sketch_version" = some ⟨ncLayer _, .iSketchVersion14⟩ from rfl]
        simp only [runTyped, runInner, runLeaf, ncLayer, wrapNC]; split <;> rfl]
      exact acts_internal_nc (l := []) ((acts_hSketchVersion m w).cast (by simp [attempt_nil]) rfl rfl rfl)
        (by spec_simp [hname, hcmd]) (by spec_simp [hname, hcmd])
    by_cases h8 : name = "i_gateway_ready"
    · subst h8
      by_cases hv : Ver.v20 ≤ w.st.proto
      · rw [show runTyped env (chainOfName w.st.proto "i_gateway_ready") = hGatewayReady by
          rw [show chainOfName w.st.proto "i_gateway_ready" = (if Ver.v20 ≤ w.st.proto then some ⟨[], .iGatewayReady20⟩ else none) from rfl]
          simp only [hv, if_true]; rfl]
        exact acts_internal_plain (l := [_]) (acts_hGatewayReady m w hcmd) (by spec_simp [hname, hcmd, hv])
          (by spec_simp [hname, hcmd])
      · rw [show runTyped env (chainOfName w.st.proto "i_gateway_ready") = pure by
          rw [show chainOfName w.st.proto "i_gateway_ready" = (if Ver.v20 ≤ w.st.proto then some ⟨[], .iGatewayReady20⟩ else none) from rfl]
          simp only [hv, if_false]; rfl]
        refine ⟨false, w.st.ibuf.has (markerKey m.node), ?_⟩
        refine Acts.of_run rfl ?_ ?_ ?_ ?_ ?_ ?_ ?_ <;> spec_simp [M.pure, hname, hcmd, hv]
    by_cases h9 : name = "i_discover_response"
    · subst h9
      have hv : Ver.v20 ≤ w.st.proto := hvers.1 (Or.inl rfl)
      rw [show runTyped env (chainOfName w.st.proto "i_discover_response") = wrapNC w.st.proto hDiscoverResponse by
        rw [wrapNC_new _ _ hv]; rfl]
      exact acts_internal_nc (l := []) ((acts_hDiscoverResponse m w).cast (by simp [attempt_nil]) rfl rfl rfl)
        (by spec_simp [hname, hcmd]) (by spec_simp [hname, hcmd])
    by_cases h10 : name = "i_heartbeat_response"
    · subst h10
      have hv : Ver.v20 ≤ w.st.proto := hvers.1 (Or.inr rfl)
      have hch : chainOfName w.st.proto "i_heartbeat_response" =
        some ⟨[.wrap .missingNC], if w.st.proto < Ver.v22 then .iHeartbeatResponse20 else .iHeartbeatResponse22⟩ := rfl
      by_cases h22 : w.st.proto < Ver.v22
      · rw [show runTyped env (chainOfName w.st.proto "i_heartbeat_response") = wrapNC w.st.proto hHeartbeat20 by
          rw [wrapNC_new _ _ hv, hch]; simp only [h22, if_true]; rfl]
        exact acts_internal_nc (acts_hHeartbeat20 m w hs) (by spec_simp [hname, hcmd, h22]) (by spec_simp [hname, hcmd])
      · rw [show runTyped env (chainOfName w.st.proto "i_heartbeat_response") = wrapNC w.st.proto hHeartbeat22 by
          rw [wrapNC_new _ _ hv, hch]; simp only [h22, if_false]; rfl]
        exact acts_internal_nc (l := []) ((acts_hHeartbeat22 m w).cast (by simp [attempt_nil]) rfl rfl rfl)
          (by spec_simp [hname, hcmd, h22]) (by spec_simp [hname, hcmd])
    by_cases h11 : name = "i_pre_sleep_notification"
    · subst h11
      have hv : Ver.v20 ≤ w.st.proto := by rw [hvers.2 rfl]; decide
      rw [show runTyped env (chainOfName w.st.proto "i_pre_sleep_notification") = wrapNC w.st.proto hPreSleep22 by
        rw [wrapNC_new _ _ hv]; rfl]
      exact acts_internal_nc (acts_hPreSleep22 m w hs) (by spec_simp [hname, hcmd]) (by spec_simp [hname, hcmd])
    · rw [show chainOfName w.st.proto name = none by simp [chainOfName, h1, h2, h3, h4, h5, h6, h7, h8, h9, h10, h11]]
      refine ⟨false, w.st.ibuf.has (markerKey m.node), ?_⟩
      refine Acts.of_run rfl ?_ ?_ ?_ ?_ ?_ ?_ ?_ <;>
        spec_simp [runTyped, M.pure, hname, hcmd, h1, h2, h3, h4, h5, h6, h7, h8, h9, h10, h11]

/-! ### The command level -/

/-- The query clause of the specification is the decorator's condition. -/
theorem query_eq (st : St) (m : Msg) :
    (query st m).map encode = if (pvAfter st m).isNone && wantsVersionQuery m then [encode versionQuery] else [] := by
  have hw : wantsVersionQuery m = true ↔ ¬ exemptFromQuery m := by
    simp only [wantsVersionQuery, exemptFromQuery, Gen.cmdInternal, Gen.iLogMessage, Gen.iGatewayReady]
    by_cases h1 : m.cmd = 3 <;> by_cases h2 : m.type = 9 <;> by_cases h3 : m.type = 14 <;> simp [h1, h2, h3]
  by_cases hr : reportsVersion st m <;> cases hp : st.pv <;> by_cases he : exemptFromQuery m <;>
    simp [query, pvAfter, hr, hp, he, hw, versionQuery, Gen.systemChildId]

theorem andThen_last_nil (a : Att) :
    (andThen a fun fs => if a.2.2.isSome then ([], fs, none) else attempt [] fs) = a := by
  simp [andThen, attempt_nil]

/-- The missing-node/child decorator at the command level (around the version decorator). -/
theorem acts_wrapNC_outer {inner : Msg → M Msg} {m : Msg} {w : W} {a : Att} {miss : Bool} {pv' : Option Str} {mk : Bool}
    (v : Ver) (hi : Acts m (inner m) w a miss pv' mk) :
    ∃ mk', Acts m (wrapNC v inner m) w
      (andThen a fun fs => if a.2.2.isSome then ([], fs, none) else
        attempt (if Ver.v20 ≤ v ∧ miss = true ∧ mk = false then [encode (presentationRequest m.node)] else []) fs)
      miss pv' mk' := by
  by_cases hv : Ver.v20 ≤ v
  · rw [wrapNC_new v inner hv]
    refine ⟨_, (acts_wrapMissingNC hi).cast ?_ rfl rfl rfl⟩
    cases miss <;> cases mk <;> simp [hv]
  · rw [wrapNC_old v inner hv]
    exact ⟨_, hi.cast (by simp [hv, andThen_last_nil]) rfl rfl rfl⟩

/-- Presentation / set / req / stream: handler, then the version decorator, then (2.x) the
missing-node/child decorator. -/
theorem acts_command {env : Env} {m : Msg} {w : W} {inner : Msg → M Msg} {miss : Bool} {pv' : Option Str} {mk : Bool}
    (hi : Acts m (inner m) w
      (andThen (attempt ((first env w.st m).map encode) w.faults) (attempt ((query w.st m).map encode))) miss pv' mk)
    (hlast : last w.st m = if Ver.v20 ≤ w.st.proto ∧ miss = true ∧ mk = false then [presentationRequest m.node] else []) :
    ∃ miss pv' mk, Acts m (wrapNC w.st.proto inner m) w (attempts env w.st m w.faults) miss pv' mk := by
  obtain ⟨mk', h⟩ := acts_wrapNC_outer w.st.proto hi
  refine ⟨_, _, mk', h.cast ?_ rfl rfl rfl⟩
  simp only [attempts, hlast]
  congr 1
  funext fs
  split
  · rfl
  · congr 1; split <;> rfl

/-! ### How the attempts consume the schedule, and which exception the step ends in -/

theorem lastExn_append (l1 l2 : List Fault) : lastExn (l1 ++ l2) = (lastExn l2).or (lastExn l1) := by
  induction l1 with
  | nil => simp [lastExn]
  | cons f l1 ih => simp [lastExn, ih, Option.or_assoc]

/-- No write of the prefix fails to complete iff all its entries are `pass`. -/
theorem lastExn_none_iff (fs : List Fault) : lastExn fs = none ↔ ∀ f ∈ fs, f = .pass := by
  induction fs with
  | nil => simp [lastExn]
  | cons f fs ih =>
    simp only [lastExn, Option.or_eq_none_iff, ih, List.mem_cons, forall_eq_or_imp]
    constructor
    · rintro ⟨h1, h2⟩; exact ⟨by cases f <;> simp [Fault.exn] at h2 ⊢, h1⟩
    · rintro ⟨h1, h2⟩; exact ⟨h2, by subst h1; rfl⟩

/-- **The exception of a schedule prefix is that of its last entry that is not `pass`.** -/
theorem lastExn_eq_some_iff (fs : List Fault) (e : Exn) :
    lastExn fs = some e ↔ ∃ pre f post, fs = pre ++ f :: post ∧ f.exn = some e ∧ ∀ g ∈ post, g = .pass := by
  induction fs with
  | nil => simp [lastExn]
  | cons f fs ih =>
    simp only [lastExn]
    constructor
    · intro h
      cases hl : lastExn fs with
      | some e' =>
        rw [hl] at h; simp at h; subst h
        obtain ⟨pre, g, post, h1, h2, h3⟩ := ih.mp hl
        exact ⟨f :: pre, g, post, by simp [h1], h2, h3⟩
      | none =>
        rw [hl] at h
        exact ⟨[], f, fs, rfl, by simpa using h, (lastExn_none_iff fs).mp hl⟩
    · rintro ⟨pre, g, post, h1, h2, h3⟩
      cases pre with
      | nil =>
        simp only [List.nil_append, List.cons.injEq] at h1
        obtain ⟨rfl, rfl⟩ := h1
        simp [(lastExn_none_iff _).mpr h3, h2]
      | cons p pre =>
        simp only [List.cons_append, List.cons.injEq] at h1
        obtain ⟨rfl, rfl⟩ := h1
        simp [ih.mpr ⟨pre, g, post, rfl, h2, h3⟩]

theorem lastExn_cases (fs : List Fault) (e : Exn) (h : lastExn fs = some e) :
    e = .lib .transportFailed ∨ e = .foreign .CancelledError := by
  obtain ⟨_, f, _, _, hf, _⟩ := (lastExn_eq_some_iff fs e).mp h
  cases f <;> simp [Fault.exn] at hf
  · exact Or.inl hf.symm
  · exact Or.inr hf.symm

/-- **How an attempt consumes the schedule**: one entry per attempted line (a schedule that ran
out counts as `pass`), the attempt completes iff its entry is `pass`, and the exception is that
of the last consumed entry that is not `pass`. -/
structure Consumes (fs : List Fault) (a : Att) : Prop where
  left : a.2.1 = fs.drop a.1.length
  ok : ∀ k (h : k < a.1.length), a.1[k].ok = ((fs[k]?).getD .pass).ok
  exn : a.2.2 = lastExn (fs.take a.1.length)

theorem consumes_stop (fs : List Fault) : Consumes fs ([], fs, none) :=
  ⟨by simp, by simp, by simp [lastExn]⟩

theorem consumes_attempt (ls : List Str) (fs : List Fault) : Consumes fs (attempt ls fs) := by
  induction ls generalizing fs with
  | nil => exact consumes_stop fs
  | cons l ls ih =>
    rcases fs with _ | ⟨_ | _ | _, fs⟩
    · obtain ⟨h1, h2, h3⟩ := ih []
      refine ⟨by simpa [attempt] using h1, ?_, by simpa [attempt, lastExn] using h3⟩
      intro k hk
      cases k with
      | zero => simp [attempt, Fault.ok, Fault.exn]
      | succ k => simpa [attempt] using h2 k (by simpa [attempt] using hk)
    · obtain ⟨h1, h2, h3⟩ := ih fs
      refine ⟨by simpa [attempt, Fault.exn] using h1, ?_, by simpa [attempt, Fault.exn, lastExn] using h3⟩
      intro k hk
      cases k with
      | zero => simp [attempt, Fault.ok, Fault.exn]
      | succ k => simpa [attempt, Fault.exn] using h2 k (by simpa [attempt, Fault.exn] using hk)
    · refine ⟨by simp [attempt, Fault.exn], ?_, by simp [attempt, Fault.exn, lastExn]⟩
      intro k hk
      have : k = 0 := by simpa [attempt, Fault.exn] using hk
      subst this; simp [attempt, Fault.ok, Fault.exn]
    · refine ⟨by simp [attempt, Fault.exn], ?_, by simp [attempt, Fault.exn, lastExn]⟩
      intro k hk
      have : k = 0 := by simpa [attempt, Fault.exn] using hk
      subst this; simp [attempt, Fault.ok, Fault.exn]

theorem consumes_andThen {fs : List Fault} {a : Att} {next : List Fault → Att} (ha : Consumes fs a)
    (hn : ∀ fs', Consumes fs' (next fs')) : Consumes fs (andThen a next) := by
  obtain ⟨a1, a2, a3⟩ := ha
  obtain ⟨b1, b2, b3⟩ := hn a.2.1
  refine ⟨?_, ?_, ?_⟩
  · simp only [andThen, List.length_append]
    rw [b1, a1, List.drop_drop]
  · intro k hk
    simp only [andThen, List.length_append] at hk
    simp only [andThen]
    by_cases hka : k < a.1.length
    · rw [List.getElem_append_left hka]; exact a2 k hka
    · have hka' : a.1.length ≤ k := by omega
      rw [List.getElem_append_right hka', b2 _ (by omega), a1, List.getElem?_drop]
      congr 3; omega
  · simp only [andThen, List.length_append]
    rw [b3, a3, a1, List.take_add, lastExn_append]

theorem consumes_attempts (env : Env) (st : St) (m : Msg) (fs : List Fault) : Consumes fs (attempts env st m fs) := by
  unfold attempts
  refine consumes_andThen (consumes_andThen (consumes_attempt _ _) fun _ => consumes_attempt _ _) fun fs' => ?_
  split
  · exact consumes_stop _
  · exact consumes_attempt _ _

end AioMySensors
