/- Lemmas for the MQTT client object (`Model/MqttObject.lean`): the reachable-state invariant, the queue
invariant along any history of the object, and histories made of whole connections. -/
import AioMySensors.Lemmas.Mqtt
import AioMySensors.Model.MqttObject

namespace AioMySensors.Mqtt
open AioMySensors

/-- What the object-level theorems need from the two `suppress` clauses of `_disconnect` (established
from the generated table in `Properties/C18.lean`). -/
structure DiscClauses : Prop where
  /-- the first `suppress` absorbs the cancellation of the awaited receive task -/
  cancel_suppressed : pyCaught .CancelledError (clause Gen.excMqttDisconnect 0) = true
  /-- the second absorbs `MqttError` from `client.__aexit__` -/
  mqtt_suppressed : pyCaught .MqttError (clause Gen.excMqttDisconnect 1) = true

/-! ### the queue under `enqueue` -/

theorem enqueue_nil (q : QState) : enqueue q [] = q := rfl

theorem enqueue_inv {q : QState} {a : List Item} {r : Nat} (h : QInv q a r) (l : List Item) :
    QInv (enqueue q l) (a ++ l) r := by
  have := qRun_inv h (l.map .arrive)
  rwa [arrivalsOf_map_arrive, readsOf_map_arrive] at this

/-- `k` reads in a row hand out the first `k` queued items, in order. -/
theorem qRun_reads (s : QState) (k : Nat) :
    (qRun s (List.replicate k .read)).delivered = s.delivered ++ s.queue.take k ∧
    (qRun s (List.replicate k .read)).queue = s.queue.drop k := by
  induction k generalizing s with
  | zero => simp [qRun]
  | succ k ih =>
    have hstep : qRun s (List.replicate (k + 1) .read) = qRun (qStep s .read) (List.replicate k .read) := by
      simp [qRun, List.replicate_succ]
    rw [hstep]
    obtain ⟨h1, h2⟩ := ih (qStep s .read)
    rw [h1, h2]
    cases hq : s.queue with
    | nil => simp [qStep, hq]
    | cons x xs => simp [qStep, hq]

/-! ### cancelling a reachable receive task -/

/-- Cancelling the receive task in any state it can be in queues nothing, and awaiting it afterwards
raises nothing that the first `suppress` of `_disconnect` lets through. -/
theorem cancelTask_reach (cl : Clauses) (dc : DiscClauses) {t : TaskState} (h : Reach t) :
    (cancelTask t).2 = [] ∧ suppress (clause Gen.excMqttDisconnect 0) (cancelAndAwait t) = .ok := by
  rcases h with rfl | rfl | rfl | rfl <;>
    simp [cancelAndAwait, cancelTask, raiseInLoop, cl.outer_cancel, suppress, dc.cancel_suppressed]

/-- `__aexit__` returns or raises `MqttError`: the second `suppress` lets nothing through. -/
theorem suppress_aexit (dc : DiscClauses) {aexit : Outcome} (h : aexit = .ok ∨ aexit = .raised .MqttError) :
    suppress (clause Gen.excMqttDisconnect 1) aexit = .ok := by
  rcases h with rfl | rfl <;> simp [suppress, dc.mqtt_suppressed]

/-! ### the reachable-state invariant -/

/-- Whenever the object holds a task it also holds a client, and the task is in one of the states the
receive task can reach. -/
def OInv (s : OState) : Prop := ∀ t, s.task = some t → Reach t ∧ s.client = true

theorem OInv.init : OInv {} := by intro t h; simp at h

/-- `_disconnect` on a connected object in a reachable state: the task is gone, the queue is what it
was, the outcome is what the second `suppress` leaves of `__aexit__`'s, and the client is gone iff
that is nothing. -/
theorem oDisconnect_connected (cl : Clauses) (dc : DiscClauses) {s : OState} {t : TaskState}
    (hc : s.client = true) (ht : s.task = some t) (hr : Reach t) (aexit : Outcome) :
    oDisconnect s aexit =
      ({ client := suppress (clause Gen.excMqttDisconnect 1) aexit != .ok, task := none, q := s.q },
        suppress (clause Gen.excMqttDisconnect 1) aexit) := by
  obtain ⟨h1, h2⟩ := cancelTask_reach cl dc hr
  simp only [oDisconnect, hc, ht, h1, h2, enqueue_nil, disconnect]

/-- The guard of `_disconnect`. -/
theorem oDisconnect_guard {s : OState} (h : s.client = false ∨ s.task = none) (aexit : Outcome) :
    oDisconnect s aexit = (s, .raised .RuntimeError) := by
  rcases h with h | h
  · simp only [oDisconnect, h]
  · simp only [oDisconnect, h]
    cases s.client <;> rfl

/-- The guard of `_connect`. -/
theorem oConnect_guard {s : OState} (h : s.client = true ∨ s.task.isSome = true) (aenter : Outcome)
    (subs : List Outcome) (aexit : Outcome) :
    oConnect s aenter subs aexit = (s, .error misuse) := by
  have : (s.client || s.task.isSome) = true := by rcases h with h | h <;> simp [h]
  simp only [oConnect, this, if_true]

/-- `connect` past the guard: the three ways it can go. -/
theorem oConnect_clean (cl : Clauses) (dc : DiscClauses) {s : OState} (hc : s.client = false)
    (ht : s.task = none) (aenter : Outcome) (subs : List Outcome) (aexit : Outcome) :
    (∃ t, connect aenter subs = .ok t ∧
        oConnect s aenter subs aexit = ({ client := true, task := some t, q := s.q }, .ok ())) ∨
    (∃ e e', connect aenter subs = .error e ∧
        convert (clause Gen.excMqttConnect 0) MqttExn.transportError aenter = .error e' ∧
        oConnect s aenter subs aexit = ({ client := true, task := none, q := s.q }, .error e)) ∨
    (∃ e, connect aenter subs = .error e ∧
        convert (clause Gen.excMqttConnect 0) MqttExn.transportError aenter = .ok () ∧
        oConnect s aenter subs aexit =
          ({ client := suppress (clause Gen.excMqttDisconnect 1) aexit != .ok, task := none, q := s.q },
            match suppress (clause Gen.excMqttDisconnect 1) aexit with
            | .ok => .error e
            | .raised c => .error (.foreign c))) := by
  have hg : (s.client || s.task.isSome) = false := by simp [hc, ht]
  cases hcon : connect aenter subs with
  | ok t =>
    left
    refine ⟨t, rfl, ?_⟩
    simp only [oConnect, hg, hcon]
    cases s; simp_all
  | error e =>
    right
    cases hcv : convert (clause Gen.excMqttConnect 0) MqttExn.transportError aenter with
    | error e' =>
      left
      refine ⟨e, e', rfl, rfl, ?_⟩
      simp only [oConnect, hg, hcon, hcv]
      cases s; simp_all
    | ok u =>
      right
      refine ⟨e, rfl, rfl, ?_⟩
      have hd := oDisconnect_connected cl dc (s := { s with client := true, task := some .waiting })
        (t := .waiting) rfl rfl (by simp [Reach]) aexit
      simp only [oConnect, hg, hcon, hcv, hd]
      cases suppress (clause Gen.excMqttDisconnect 1) aexit <;> simp

/-- The task `connect` hands over is the waiting one. -/
theorem connect_ok_waiting {aenter : Outcome} {subs : List Outcome} {t : TaskState}
    (h : connect aenter subs = .ok t) : t = .waiting := by
  simp only [connect] at h
  split at h
  · cases h
  · split at h
    · cases h
    · cases h; rfl

theorem oStep_inv (cl : Clauses) (dc : DiscClauses) {s : OState} (h : OInv s) (op : OOp) :
    OInv (oStep s op).1 := by
  cases op with
  | connect aenter subs aexit =>
    simp only [oStep]
    cases hc : s.client with
    | true => rw [oConnect_guard (Or.inl hc)]; exact h
    | false =>
      cases ht : s.task with
      | some t => rw [oConnect_guard (Or.inr (by simp [ht]))]; exact h
      | none =>
        rcases oConnect_clean cl dc hc ht aenter subs aexit with ⟨t, hcon, e⟩ | ⟨_, _, _, _, e⟩ | ⟨_, _, _, e⟩
        · rw [e]
          intro t' ht'
          simp only [Option.some.injEq] at ht'
          subst ht'
          rw [connect_ok_waiting hcon]
          exact ⟨by simp [Reach], rfl⟩
        · rw [e]; intro t' ht'; simp at ht'
        · rw [e]; intro t' ht'; simp at ht'
  | disconnect aexit =>
    simp only [oStep]
    cases hc : s.client with
    | false => rw [oDisconnect_guard (Or.inl hc)]; exact h
    | true =>
      cases ht : s.task with
      | none => rw [oDisconnect_guard (Or.inr ht)]; exact h
      | some t =>
        rw [oDisconnect_connected cl dc hc ht (h t ht).1]
        intro t' ht'; simp at ht'
  | broker e =>
    simp only [oStep]
    cases ht : s.task with
    | none => exact h
    | some t =>
      intro t' ht'
      simp only [Option.some.injEq] at ht'
      subst ht'
      exact ⟨taskStep_reach cl (h t ht).1 e, (h t ht).2⟩
  | read => exact h
  | write p l pub => exact h
  | subscribe sub => exact h

theorem oRun_cons (s : OState) (op : OOp) (ops : List OOp) :
    oRun s (op :: ops) = oRun (oStep s op).1 ops := rfl

theorem oRun_append (s : OState) (a b : List OOp) : oRun s (a ++ b) = oRun (oRun s a) b := by
  simp [oRun, List.foldl_append]

theorem oRun_inv (cl : Clauses) (dc : DiscClauses) {s : OState} (h : OInv s) (ops : List OOp) :
    OInv (oRun s ops) := by
  induction ops generalizing s with
  | nil => exact h
  | cons op ops ih => exact ih (oStep_inv cl dc h op)

/-! ### the queue along a history of the object -/

/-- The queue after one operation: a `read` is the queue's `read`; anything else enqueues what the
operation makes arrive (`oArrive`; nothing for most operations). -/
theorem oStep_q (s : OState) (op : OOp) :
    (oStep s op).1.q = if op = .read then qStep s.q .read else enqueue s.q (oArrive s op) := by
  cases op with
  | connect aenter subs aexit =>
    simp only [oStep, oArrive, oConnect, reduceCtorEq, if_false]
    cases hg : (s.client || s.task.isSome) with
    | true => simp [enqueue_nil]
    | false =>
      cases hcon : connect aenter subs with
      | ok t => simp [enqueue_nil]
      | error e =>
        cases hcv : convert (clause Gen.excMqttConnect 0) MqttExn.transportError aenter with
        | error e' => simp [enqueue_nil]
        | ok u =>
          simp only [oDisconnect]
          cases disconnect TaskState.waiting aexit <;> rfl
  | disconnect aexit =>
    simp only [oStep, oArrive, oDisconnect, reduceCtorEq, if_false]
    split <;> rfl
  | broker e =>
    simp only [oStep, oArrive, reduceCtorEq, if_false]
    split <;> rfl
  | read => simp [oStep]
  | write p l pub => simp [oStep, oArrive, enqueue_nil]
  | subscribe sub => simp [oStep, oArrive, enqueue_nil]

theorem oReads_single (op : OOp) : oReads [op] = if op = .read then 1 else 0 := by
  cases op <;> simp [oReads]

theorem oReads_cons (op : OOp) (ops : List OOp) : oReads (op :: ops) = oReads [op] + oReads ops := by
  cases op <;> simp [oReads]; omega

theorem oReads_append (a b : List OOp) : oReads (a ++ b) = oReads a + oReads b := by
  induction a with
  | nil => simp [oReads]
  | cons op ops ih => rw [List.cons_append, oReads_cons, ih, oReads_cons op ops]; omega

theorem oArrive_read (s : OState) : oArrive s .read = [] := rfl

theorem oStep_qinv {s : OState} {a : List Item} {r : Nat} (h : QInv s.q a r) (op : OOp) :
    QInv (oStep s op).1.q (a ++ oArrive s op) (r + oReads [op]) := by
  rw [oStep_q, oReads_single]
  by_cases hop : op = .read
  · subst hop
    simpa [oArrive_read, arrivalsOf, readsOf] using qStep_inv h .read
  · simpa [hop] using enqueue_inv h (oArrive s op)

theorem oArrivals_append (s : OState) (a b : List OOp) :
    oArrivals s (a ++ b) = oArrivals s a ++ oArrivals (oRun s a) b := by
  induction a generalizing s with
  | nil => simp [oArrivals, oRun]
  | cons op ops ih => simp [oArrivals, oRun_cons, ih, List.append_assoc]

/-- **The queue invariant along any history of the object.** -/
theorem oRun_qinv {s : OState} {a : List Item} {r : Nat} (h : QInv s.q a r) (ops : List OOp) :
    QInv (oRun s ops).q (a ++ oArrivals s ops) (r + oReads ops) := by
  induction ops generalizing s a r with
  | nil => simpa [oRun, oArrivals, oReads] using h
  | cons op ops ih =>
    have := ih (oStep_qinv h op)
    rw [oReads_cons, oRun_cons]
    simpa [oArrivals, List.append_assoc, Nat.add_assoc] using this

/-- Results already handed out never change. -/
theorem oStep_delivered_prefix (s : OState) (op : OOp) : s.q.delivered <+: (oStep s op).1.q.delivered := by
  rw [oStep_q]
  split
  · exact qStep_delivered_prefix _ _
  · exact qRun_delivered_prefix _ _

theorem oRun_delivered_prefix (s : OState) (ops : List OOp) : s.q.delivered <+: (oRun s ops).q.delivered := by
  induction ops generalizing s with
  | nil => exact List.prefix_refl _
  | cons op ops ih => exact List.IsPrefix.trans (oStep_delivered_prefix s op) (ih _)

/-- In a reachable state neither `disconnect` nor `connect` (whatever their outcome, the clean-up of a
failed subscription included) puts anything on the queue. -/
theorem oArrive_lifecycle (cl : Clauses) (dc : DiscClauses) {s : OState} (h : OInv s) :
    (∀ aexit, oArrive s (.disconnect aexit) = []) ∧
    (∀ aenter subs aexit, oArrive s (.connect aenter subs aexit) = []) := by
  constructor
  · intro aexit
    simp only [oArrive]
    split
    · next t hc ht => exact (cancelTask_reach cl dc (h t ht).1).1
    · rfl
  · intro aenter subs aexit
    have hw := (cancelTask_reach cl dc (t := .waiting) (by simp [Reach])).1
    simp only [oArrive, hw]
    split
    · rfl
    · split <;> rfl

/-- …hence both leave the queue, the blocked reads and the results handed out exactly as they were. -/
theorem oStep_q_lifecycle (cl : Clauses) (dc : DiscClauses) {s : OState} (h : OInv s) :
    (∀ aexit, (oStep s (.disconnect aexit)).1.q = s.q) ∧
    (∀ aenter subs aexit, (oStep s (.connect aenter subs aexit)).1.q = s.q) := by
  obtain ⟨h1, h2⟩ := oArrive_lifecycle cl dc h
  constructor
  · intro aexit; rw [oStep_q, h1]; simp [enqueue_nil]
  · intro aenter subs aexit; rw [oStep_q, h2]; simp [enqueue_nil]

/-- Reads only touch the queue. -/
theorem oRun_reads (s : OState) (k : Nat) :
    oRun s (List.replicate k .read) = { s with q := qRun s.q (List.replicate k .read) } := by
  induction k generalizing s with
  | zero => rfl
  | succ k ih =>
    rw [List.replicate_succ, oRun_cons, ih]
    simp [oStep, qRun, List.replicate_succ]

/-- A successful `disconnect` leaves neither a client nor a task — from ANY state. -/
theorem oDisconnect_ok {s : OState} {aexit : Outcome} (h : (oDisconnect s aexit).2 = .ok) :
    (oDisconnect s aexit).1.client = false ∧ (oDisconnect s aexit).1.task = none := by
  simp only [oDisconnect] at h ⊢
  split at h
  · next t hc ht =>
    have h' : disconnect t aexit = .ok := h
    refine ⟨by simp [h'], ?_⟩
    simp only [disconnect] at h'
    split at h'
    · cases h'
    · next heq => simp only [heq]
  · cases h

/-- From a state without client and task `connect` does what it does on a new object; only the queue
is the object's own. -/
theorem oConnect_of_clean {s : OState} (hc : s.client = false) (ht : s.task = none) (aenter : Outcome)
    (subs : List Outcome) (aexit : Outcome) :
    (oConnect s aenter subs aexit).2 = (oConnect {} aenter subs aexit).2 ∧
    (oConnect s aenter subs aexit).1.client = (oConnect {} aenter subs aexit).1.client ∧
    (oConnect s aenter subs aexit).1.task = (oConnect {} aenter subs aexit).1.task := by
  obtain ⟨c, t, q⟩ := s
  simp only at hc ht
  subst hc ht
  simp only [oConnect, Bool.false_or, Option.isSome_none, Bool.false_eq_true, if_false]
  cases connect aenter subs with
  | ok t => exact ⟨rfl, rfl, rfl⟩
  | error e =>
    cases convert (clause Gen.excMqttConnect 0) MqttExn.transportError aenter with
    | error e' => exact ⟨rfl, rfl, rfl⟩
    | ok u =>
      simp only [oDisconnect]
      cases disconnect TaskState.waiting aexit <;> exact ⟨rfl, rfl, rfl⟩

theorem connect_oks (n : Nat) : connect .ok (List.replicate n .ok) = .ok .waiting := by
  have : ∀ n, (List.replicate n Outcome.ok).mapM (convert (clause Gen.excMqttSubscribe 0) MqttExn.transportError)
      = .ok (List.replicate n ()) := by
    intro n
    induction n with
    | zero => rfl
    | succ n ih => simp [List.replicate_succ, List.mapM_cons, convert, ih, bind, Except.bind, pure, Except.pure]
  simp [connect, convert, this]

/-- `disconnect` of a connected object in a reachable state, `__aexit__` returning or raising
`MqttError`. -/
theorem oStep_disconnect_connected (cl : Clauses) (dc : DiscClauses) {s : OState} (hinv : OInv s)
    (hconn : s.task.isSome = true) {aexit : Outcome} (ha : aexit = .ok ∨ aexit = .raised .MqttError) :
    oStep s (.disconnect aexit) = ({ client := false, task := none, q := s.q }, .done) := by
  cases ht : s.task with
  | none => simp [ht] at hconn
  | some t =>
    obtain ⟨hr, hc⟩ := hinv t ht
    simp only [oStep, oDisconnect_connected cl dc hc ht hr, suppress_aexit dc ha]
    rfl

/-- `connect` with a healthy broker on an object without client and task. -/
theorem oStep_connect_oks {s : OState} (hc : s.client = false) (ht : s.task = none) (n : Nat) (ax : Outcome) :
    oStep s (.connect .ok (List.replicate n .ok) ax) =
      ({ client := true, task := some .waiting, q := s.q }, .done) := by
  obtain ⟨c, t, q⟩ := s
  simp only at hc ht
  subst hc ht
  simp [oStep, oConnect, connect_oks, ORes.ofUnit]

/-- disconnect, connect, one message, with `n + 1` reads blocked. -/
theorem served_on_next_connection (cl : Clauses) (dc : DiscClauses) {s : OState} (hinv : OInv s)
    (hconn : s.task.isSome = true) {aexit : Outcome} (ha : aexit = .ok ∨ aexit = .raised .MqttError)
    {n : Nat} (hw : s.q.waiting = n + 1) (hempty : s.q.queue = []) (nsubs : Nat) (ax : Outcome)
    (topic : Str) (payload : List Nat) :
    oRun s [.disconnect aexit, .connect .ok (List.replicate nsubs .ok) ax, .broker (.message topic payload)] =
      { client := true, task := some .waiting,
        q := { s.q with waiting := n, delivered := s.q.delivered ++ [itemOf (topic, payload)] } } := by
  have hmsg : taskStep .waiting (.message topic payload) = (.waiting, [itemOf (topic, payload)]) :=
    taskStep_message cl (t := .waiting) (Or.inl rfl) (topic, payload)
  have henq : enqueue s.q [itemOf (topic, payload)] =
      { s.q with waiting := n, delivered := s.q.delivered ++ [itemOf (topic, payload)] } := by
    simp only [enqueue, List.map_cons, List.map_nil, qRun, List.foldl_cons, List.foldl_nil, qStep]
    rw [hw, hempty]
  rw [oRun_cons, oStep_disconnect_connected cl dc hinv hconn ha, oRun_cons,
    oStep_connect_oks (s := { client := false, task := none, q := s.q }) rfl rfl, oRun_cons]
  simp only [oStep, hmsg, henq]
  rfl

/-- The task of the transport of `Model/Mqtt.lean` depends on the events alone. -/
theorem tRun_task (s : TState) (ops : List TOp) : (tRun s ops).task = (taskRun s.task (eventsOf ops)).1 := by
  induction ops generalizing s with
  | nil => rfl
  | cons op ops ih =>
    have hc : tRun s (op :: ops) = tRun (tStep s op) ops := rfl
    rw [hc, ih]
    cases op <;> simp [tStep, eventsOf, taskRun]

/-! ### one connection of the object is the transport of `Model/Mqtt.lean` -/

/-- While connected, broker events and reads act on the object's task and queue exactly as `tStep`
acts on the transport state of `Model/Mqtt.lean`; the client field is not touched. -/
theorem oRun_body (s : OState) (t : TaskState) (ht : s.task = some t) (body : List TOp) :
    oRun s (body.map liftTOp) =
      { client := s.client, task := some (tRun { task := t, q := s.q } body).task,
        q := (tRun { task := t, q := s.q } body).q } := by
  induction body generalizing s t with
  | nil => cases s; simp_all [oRun, tRun]
  | cons op body ih =>
    cases op with
    | broker e =>
      have hs : (oStep s (.broker e)).1 =
          { client := s.client, task := some (taskStep t e).1, q := enqueue s.q (taskStep t e).2 } := by
        simp only [oStep, ht]
      rw [List.map_cons, liftTOp, oRun_cons, hs, ih _ (taskStep t e).1 rfl]
      simp [tRun, tStep, enqueue]
    | read =>
      have hs : (oStep s .read).1 = { client := s.client, task := some t, q := qStep s.q .read } := by
        simp only [oStep]; cases s; simp_all
      rw [List.map_cons, liftTOp, oRun_cons, hs, ih _ t rfl]
      simp [tRun, tStep]

theorem oArrivals_body (s : OState) (t : TaskState) (ht : s.task = some t) (body : List TOp) :
    oArrivals s (body.map liftTOp) = (taskRun t (eventsOf body)).2 := by
  induction body generalizing s t with
  | nil => simp [oArrivals, eventsOf, taskRun]
  | cons op body ih =>
    cases op with
    | broker e =>
      have hs : (oStep s (.broker e)).1.task = some (taskStep t e).1 := by simp only [oStep, ht]
      simp only [List.map_cons, liftTOp, oArrivals, oArrive, ht, eventsOf, taskRun]
      rw [ih _ _ hs]
    | read =>
      have hs : (oStep s .read).1.task = some t := by simp only [oStep, ht]
      simp only [List.map_cons, liftTOp, oArrivals, oArrive, eventsOf, List.nil_append]
      rw [ih _ _ hs]

theorem oReads_body (body : List TOp) : oReads (body.map liftTOp) = treadsOf body := by
  induction body with
  | nil => rfl
  | cons op body ih => cases op <;> simp [liftTOp, oReads, treadsOf, ih]

/-! ### histories made of whole connections -/

/-- Neither a client nor a task: the state of a new object, and of one that was disconnected. -/
def Clean (s : OState) : Prop := s.client = false ∧ s.task = none

/-- `__aexit__` of this connection returns or raises `MqttError`. -/
def Seg.AexitOK : Seg → Prop
  | .session _ _ aexit => aexit = .ok ∨ aexit = .raised .MqttError
  | .idleRead => True

/-- One segment from a clean state: clean again, the queue moved as the transport of
`Model/Mqtt.lean` moves it, the arrivals are those of the segment. -/
theorem seg_run (cl : Clauses) (dc : DiscClauses) {s : OState} (hs : Clean s) (seg : Seg) (hok : seg.AexitOK) :
    Clean (oRun s seg.ops) ∧ oArrivals s seg.ops = seg.arrivals ∧ oReads seg.ops = seg.reads := by
  obtain ⟨hc, ht⟩ := hs
  cases seg with
  | idleRead =>
    refine ⟨?_, ?_, rfl⟩
    · simp only [Seg.ops, oStep, oRun]; exact ⟨hc, ht⟩
    · simp [Seg.ops, oArrivals, oArrive, Seg.arrivals]
  | session n body aexit =>
    have hg : (s.client || s.task.isSome) = false := by simp [hc, ht]
    have hconn : (oStep s (.connect .ok (List.replicate n .ok) .ok)).1 =
        { client := true, task := some .waiting, q := s.q } := by
      simp only [oStep, oConnect, hg, connect_oks]
      cases s; simp_all
    have harr0 : oArrive s (.connect .ok (List.replicate n .ok) .ok) = [] := by
      simp only [oArrive, hg, connect_oks]; rfl
    let s1 : OState := { client := true, task := some .waiting, q := s.q }
    have hbody := oRun_body s1 .waiting rfl body
    have hreach : Reach (tRun { task := .waiting, q := s.q } body).task := by
      rw [tRun_task]; exact taskRun_reach cl (by simp [Reach]) _
    obtain ⟨hcq, _⟩ := cancelTask_reach cl dc hreach
    have hdisc := oDisconnect_connected cl dc (s := oRun s1 (body.map liftTOp)) (by rw [hbody])
      (by rw [hbody]) hreach aexit
    have hrun : oRun s (Seg.session n body aexit).ops =
        (oStep (oRun s1 (body.map liftTOp)) (.disconnect aexit)).1 := by
      simp only [Seg.ops, oRun_cons, hconn, oRun_append]
      rfl
    refine ⟨?_, ?_, ?_⟩
    · rw [hrun]
      simp only [oStep, hdisc, suppress_aexit dc hok]
      exact ⟨rfl, rfl⟩
    · have hr1 : oRun s (.connect .ok (List.replicate n .ok) .ok :: body.map liftTOp) =
          oRun s1 (body.map liftTOp) := by rw [oRun_cons, hconn]
      have ha1 : oArrivals s (.connect .ok (List.replicate n .ok) .ok :: body.map liftTOp) =
          (taskRun .waiting (eventsOf body)).2 := by
        simp only [oArrivals, harr0, hconn, List.nil_append]
        exact oArrivals_body s1 .waiting rfl body
      simp only [Seg.ops, Seg.arrivals]
      rw [oArrivals_append, ha1, hr1]
      simp only [oArrivals, oArrive, hbody, List.append_nil]
      show _ ++ (cancelTask (tRun { task := .waiting, q := s.q } body).task).2 = _
      rw [hcq, List.append_nil]
    · simp only [Seg.ops, Seg.reads]
      rw [oReads_append, oReads_cons, oReads_body]
      simp [oReads]

def segOps (segs : List Seg) : List OOp := segs.flatMap Seg.ops
def segArrivals (segs : List Seg) : List Item := segs.flatMap Seg.arrivals
def segReads (segs : List Seg) : Nat := (segs.map Seg.reads).sum

/-- Any number of whole connections, with reads anywhere (inside a connection, between connections,
pending from one connection into the next): the object ends clean, and what arrived over the whole
history is what arrived in the first connection, then in the second, … -/
theorem segs_run (cl : Clauses) (dc : DiscClauses) {s : OState} (hs : Clean s) (segs : List Seg)
    (hok : ∀ seg ∈ segs, seg.AexitOK) :
    Clean (oRun s (segOps segs)) ∧ oArrivals s (segOps segs) = segArrivals segs ∧
    oReads (segOps segs) = segReads segs := by
  induction segs generalizing s with
  | nil => exact ⟨hs, rfl, rfl⟩
  | cons seg segs ih =>
    obtain ⟨h1, h2, h3⟩ := seg_run cl dc hs seg (hok seg (by simp))
    obtain ⟨i1, i2, i3⟩ := ih h1 (fun x hx => hok x (by simp [hx]))
    simp only [segOps, List.flatMap_cons] at i1 i2 i3 ⊢
    refine ⟨?_, ?_, ?_⟩
    · rw [oRun_append]; exact i1
    · rw [oArrivals_append, h2, i2]; simp [segArrivals]
    · rw [oReads_append, h3, i3]; simp [segReads]

end AioMySensors.Mqtt
