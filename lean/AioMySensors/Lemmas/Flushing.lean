/-
The sleep buffer: parking (`handle_set` of the outgoing handler) and the release loop
(`_handle_sleep_buffer`), exactly, with and without write faults.
-/
import AioMySensors.Lemmas.Exact

namespace AioMySensors
open M

/-- Remove several keys. -/
def eraseAll (d : PDict Key Msg) (ks : List Key) : PDict Key Msg := ks.foldl PDict.erase d

namespace PDict
variable {κ α : Type} [DecidableEq κ]

theorem get?_of_mem_wf {d : PDict κ α} (h : WF d) {k : κ} {v : α} (hm : (k, v) ∈ d) : get? d k = some v := by
  unfold WF at h
  induction d with
  | nil => simp at hm
  | cons x xs ih =>
    obtain ⟨k', v'⟩ := x
    simp only [keys, List.map_cons, List.nodup_cons] at h
    simp only [List.mem_cons, Prod.mk.injEq] at hm
    simp only [get?]
    rcases hm with ⟨rfl, rfl⟩ | hm
    · simp
    · split
      · next hk =>
        subst hk
        exact absurd (List.mem_map.mpr ⟨(k', v), hm, rfl⟩) h.1
      · exact ih h.2 hm

theorem mem_erase_of_ne {d : PDict κ α} {k : κ} {e : κ × α} (h : e ∈ d) (hne : e.1 ≠ k) : e ∈ erase d k := by
  induction d with
  | nil => simp at h
  | cons x xs ih =>
    obtain ⟨k', v'⟩ := x
    simp only [erase]
    simp only [List.mem_cons] at h
    split
    · next hk =>
      rcases h with rfl | h
      · exact absurd hk hne
      · exact h
    · rcases h with rfl | h
      · simp
      · simp [ih h]

theorem not_mem_erase_self {d : PDict κ α} (h : WF d) (k : κ) (v : α) : (k, v) ∉ erase d k := by
  intro hm
  have h1 := has_erase_self h k
  have h2 : k ∈ keys (erase d k) := List.mem_map.mpr ⟨(k, v), hm, rfl⟩
  rw [← has_iff_mem_keys] at h2
  rw [h1] at h2
  exact absurd h2 (by simp)

end PDict

theorem wf_eraseAll {d : PDict Key Msg} (h : PDict.WF d) (ks : List Key) : PDict.WF (eraseAll d ks) := by
  induction ks generalizing d with
  | nil => exact h
  | cons k ks ih => exact ih (PDict.wf_erase h k)

/-- What is left after removing keys from a duplicate-free dictionary. -/
theorem mem_eraseAll {d : PDict Key Msg} (h : PDict.WF d) (ks : List Key) (e : Key × Msg) :
    e ∈ eraseAll d ks ↔ e ∈ d ∧ e.1 ∉ ks := by
  induction ks generalizing d with
  | nil => simp [eraseAll]
  | cons k ks ih =>
    have := ih (PDict.wf_erase h k)
    simp only [eraseAll, List.foldl_cons] at this ⊢
    rw [this]
    constructor
    · rintro ⟨h1, h2⟩
      refine ⟨PDict.mem_erase h1, ?_⟩
      simp only [List.mem_cons, not_or]
      refine ⟨?_, h2⟩
      intro e1
      obtain ⟨ek, ev⟩ := e
      simp only at e1; subst e1
      exact PDict.not_mem_erase_self h _ _ h1
    · rintro ⟨h1, h2⟩
      simp only [List.mem_cons, not_or] at h2
      exact ⟨PDict.mem_erase_of_ne h1 h2.1, h2.2⟩

/-- Parked entries are set commands stored under their own key. -/
def SbufSet (st : St) : Prop := ∀ e ∈ st.sbuf, e.2.cmd = 1 ∧ e.1 = e.2.key

theorem flush_flag : Gen.bufFlush = false := by decide

/-- A buffered set command is written, not parked again, when the flush sends it (flag off). -/
theorem gwSend_flush (bm : Msg) (w : W) (h : bm.cmd = 1) : gwSend bm Gen.bufFlush w = transportWrite (encode bm) w := by
  rw [gwSend_set bm _ w h, flush_flag]; simp

/-- One iteration of the release loop whose write succeeds. -/
theorem flushList_cons_pass (k : Key) (bm : Msg) (rest : List (Key × Msg)) (w : W) (h : bm.cmd = 1)
    (hf : w.faults = [] ∨ ∃ fs, w.faults = .pass :: fs) :
    flushList ((k, bm) :: rest) w =
      flushList rest { w with
        faults := w.faults.tail,
        writes := w.writes ++ [⟨encode bm, true⟩],
        st := if w.st.sbuf.get? k = some bm then { w.st with sbuf := w.st.sbuf.erase k } else w.st } := by
  simp only [flushList, M.seq, M.bind, gwSend_flush bm w h]
  rcases hf with hf | ⟨fs, hf⟩
  · rw [transportWrite_ok _ _ hf]; simp [M.modifySt, hf]
  · rw [transportWrite_pass _ _ fs hf]; simp [M.modifySt, hf]

/-- One iteration whose write does not complete (transport failure, or the task cancelled while it
waits there): the exception propagates, the entry and everything after it stay. -/
theorem flushList_cons_fail (k : Key) (bm : Msg) (rest : List (Key × Msg)) (w : W) (f : Fault) (x : Exn) (fs : List Fault)
    (h : bm.cmd = 1) (hf : w.faults = f :: fs) (hx : f.exn = some x) :
    flushList ((k, bm) :: rest) w =
      (.error x, { w with faults := fs, writes := w.writes ++ [⟨encode bm, false⟩] }) := by
  simp only [flushList, M.seq, M.bind, gwSend_flush bm w h]
  rw [transportWrite_abort _ _ f x fs hf hx]

/-- **The release loop under any fault schedule.** For entries that are in the (duplicate-free)
buffer, some prefix of them is written successfully and removed; then either the list is exhausted
(success) or the next write did not complete — the transport failed, or the task was cancelled while
it waited in that write — and the corresponding exception is reported, that entry and all later
ones are still buffered, nothing is written twice. -/
theorem flushList_spec (l : List (Key × Msg)) (w : W) (hwf : PDict.WF w.st.sbuf)
    (hcmd : ∀ e ∈ l, e.2.cmd = 1) (hmem : ∀ e ∈ l, e ∈ w.st.sbuf) (hnd : (l.map (·.1)).Nodup) :
    ∃ i, i ≤ l.length ∧
      (flushList l w).2.st.sbuf = eraseAll w.st.sbuf ((l.take i).map (·.1)) ∧
      (flushList l w).2.st.nodes = w.st.nodes ∧ (flushList l w).2.st.ibuf = w.st.ibuf ∧
      (flushList l w).2.st.pv = w.st.pv ∧ (flushList l w).2.st.proto = w.st.proto ∧
      ((i = l.length ∧ (flushList l w).1 = .ok () ∧
          (flushList l w).2.writes = w.writes ++ l.map (fun e => ⟨encode e.2, true⟩)) ∨
       (∃ e x, l[i]? = some e ∧ (flushList l w).1 = .error x ∧
          (x = .lib .transportFailed ∧ w.faults[i]? = some .fail ∨ x = .foreign .CancelledError ∧ w.faults[i]? = some .cancel) ∧
          (flushList l w).2.writes = w.writes ++ (l.take i).map (fun e => ⟨encode e.2, true⟩) ++ [⟨encode e.2, false⟩])) := by
  induction l generalizing w with
  | nil => exact ⟨0, by simp [flushList, M.pure, eraseAll]⟩
  | cons x xs ih =>
    obtain ⟨k, bm⟩ := x
    have hbm : bm.cmd = 1 := hcmd (k, bm) (by simp)
    have hget : w.st.sbuf.get? k = some bm := PDict.get?_of_mem_wf hwf (hmem (k, bm) (by simp))
    simp only [List.map_cons, List.nodup_cons] at hnd
    cases hfl : w.faults with
    | cons f fs =>
      cases f with
      | fail =>
        refine ⟨0, by simp, ?_⟩
        rw [flushList_cons_fail k bm xs w .fail _ fs hbm hfl rfl]
        simp [eraseAll]
      | cancel =>
        refine ⟨0, by simp, ?_⟩
        rw [flushList_cons_fail k bm xs w .cancel _ fs hbm hfl rfl]
        simp [eraseAll]
      | pass =>
        rw [flushList_cons_pass k bm xs w hbm (Or.inr ⟨fs, hfl⟩)]
        simp only [hget, if_true]
        obtain ⟨i, hi, hs, hn, hib, hpv, hpr, hres⟩ := ih
          { w with faults := w.faults.tail, writes := w.writes ++ [⟨encode bm, true⟩], st := { w.st with sbuf := w.st.sbuf.erase k } }
          (PDict.wf_erase hwf k) (fun e he => hcmd e (by simp [he]))
          (fun e he => PDict.mem_erase_of_ne (hmem e (by simp [he])) (by
            intro e1; exact hnd.1 (List.mem_map.mpr ⟨e, he, e1⟩)))
          hnd.2
        refine ⟨i + 1, by simp; omega, ?_⟩
        simp only [List.take_succ_cons, List.map_cons, eraseAll, List.foldl_cons, List.length_cons] at hs ⊢
        refine ⟨hs, hn, hib, hpv, hpr, ?_⟩
        rcases hres with ⟨h1, h2, h3⟩ | ⟨e, x, h1, h2, hx, h3⟩
        · left; exact ⟨by omega, h2, by simp [h3]⟩
        · right; exact ⟨e, x, by simpa using h1, h2, by simpa [hfl] using hx, by simp [h3]⟩
    | nil =>
      rw [flushList_cons_pass k bm xs w hbm (Or.inl hfl)]
      simp only [hget, if_true]
      obtain ⟨i, hi, hs, hn, hib, hpv, hpr, hres⟩ := ih
        { w with faults := w.faults.tail, writes := w.writes ++ [⟨encode bm, true⟩], st := { w.st with sbuf := w.st.sbuf.erase k } }
        (PDict.wf_erase hwf k) (fun e he => hcmd e (by simp [he]))
        (fun e he => PDict.mem_erase_of_ne (hmem e (by simp [he])) (by
          intro e1; exact hnd.1 (List.mem_map.mpr ⟨e, he, e1⟩)))
        hnd.2
      refine ⟨i + 1, by simp; omega, ?_⟩
      simp only [List.take_succ_cons, List.map_cons, eraseAll, List.foldl_cons, List.length_cons] at hs ⊢
      refine ⟨hs, hn, hib, hpv, hpr, ?_⟩
      rcases hres with ⟨h1, h2, h3⟩ | ⟨e, x, h1, h2, hx, h3⟩
      · left; exact ⟨by omega, h2, by simp [h3]⟩
      · right; exact ⟨e, x, by simpa using h1, h2, by simpa [hfl] using hx, by simp [h3]⟩

end AioMySensors

namespace AioMySensors
open M

theorem PDict.wf_mem_unique {κ α : Type} [DecidableEq κ] {d : PDict κ α} (h : PDict.WF d) {k : κ} {v v' : α}
    (h1 : (k, v) ∈ d) (h2 : (k, v') ∈ d) : v = v' := by
  have a := PDict.get?_of_mem_wf h h1
  have b := PDict.get?_of_mem_wf h h2
  rw [a] at b; exact Option.some.inj b

theorem PDict.mem_erase_of_ne_entry {κ α : Type} [DecidableEq κ] {d : PDict κ α} {k : κ} {v : α} {e : κ × α}
    (hg : PDict.get? d k = some v) (he : e ∈ d) (hne : e ≠ (k, v)) : e ∈ PDict.erase d k := by
  induction d with
  | nil => simp at he
  | cons x xs ih =>
    obtain ⟨k', v'⟩ := x
    simp only [PDict.get?] at hg
    simp only [PDict.erase]
    simp only [List.mem_cons] at he
    split
    · next hk =>
      simp only [hk, if_true, Option.some.injEq] at hg
      subst hk; subst hg
      rcases he with rfl | he
      · exact absurd rfl hne
      · exact he
    · next hk =>
      simp only [hk, if_false] at hg
      rcases he with rfl | he
      · simp
      · simp [ih hg he]

/-- The snapshot the flush takes: the woken node's entries, in dictionary order. -/
def snapshotOf (st : St) (n : Int) : List (Key × Msg) := st.sbuf.filter fun e => e.2.node == n

theorem snapshot_keys_nodup (st : St) (n : Int) (h : PDict.WF st.sbuf) : ((snapshotOf st n).map (·.1)).Nodup := by
  unfold snapshotOf PDict.WF PDict.keys at *
  exact (List.Nodup.sublist (List.Sublist.map _ List.filter_sublist) h)

/-- `flush` in terms of the loop. -/
theorem flush_eq (m : Msg) (w : W) :
    flush m w = match flushList (snapshotOf w.st m.node) w with
      | (.ok (), w') => (.ok m, w')
      | (.error e, w') => (.error e, w') := by
  simp only [flush, M.bind, M.getSt, M.seq, snapshotOf]
  cases flushList _ w with
  | mk r w' => cases r <;> simp [M.pure]

/-- Without write faults the loop writes every entry and removes it. -/
theorem flushList_nofault (l : List (Key × Msg)) (w : W) (hwf : PDict.WF w.st.sbuf)
    (hcmd : ∀ e ∈ l, e.2.cmd = 1) (hmem : ∀ e ∈ l, e ∈ w.st.sbuf) (hnd : (l.map (·.1)).Nodup) (hf : w.faults = []) :
    flushList l w = (.ok (), { w with
      writes := w.writes ++ l.map (fun e => ⟨encode e.2, true⟩),
      st := { w.st with sbuf := eraseAll w.st.sbuf (l.map (·.1)) } }) := by
  induction l generalizing w with
  | nil => simp [flushList, M.pure, eraseAll]
  | cons x xs ih =>
    obtain ⟨k, bm⟩ := x
    have hbm : bm.cmd = 1 := hcmd (k, bm) (by simp)
    have hget : w.st.sbuf.get? k = some bm := PDict.get?_of_mem_wf hwf (hmem (k, bm) (by simp))
    simp only [List.map_cons, List.nodup_cons] at hnd
    rw [flushList_cons_pass k bm xs w hbm (Or.inl hf)]
    simp only [hget, if_true]
    rw [ih _ (PDict.wf_erase hwf k) (fun e he => hcmd e (by simp [he]))
      (fun e he => PDict.mem_erase_of_ne (hmem e (by simp [he])) (by
        intro e1; exact hnd.1 (List.mem_map.mpr ⟨e, he, e1⟩))) hnd.2 (by simp [hf])]
    simp [eraseAll, hf]

end AioMySensors
