/-
Lemmas about the JSON text layer (`Model/JsonText.lean`): the rendered text is ASCII, the parser
reads back what the renderer writes, and no proper prefix of a rendered container is JSON.
-/
import AioMySensors.Model.JsonText
import AioMySensors.Lemmas.Persist

namespace AioMySensors.JsonText
open AioMySensors

/-! ## The rendered text is ASCII -/

/-- Every character is below U+0080 (one byte in UTF-8 and in every ASCII-compatible encoding). -/
def Ascii (s : Str) : Prop := ∀ c ∈ s, c.toNat < 128

instance (s : Str) : Decidable (Ascii s) := by unfold Ascii; infer_instance

theorem ascii_append {a b : Str} (ha : Ascii a) (hb : Ascii b) : Ascii (a ++ b) := by
  intro c hc; rcases List.mem_append.mp hc with h | h
  · exact ha c h
  · exact hb c h

theorem ascii_cons {c : Char} {s : Str} (hc : c.toNat < 128) (hs : Ascii s) : Ascii (c :: s) := by
  intro d hd; rcases List.mem_cons.mp hd with rfl | h
  · exact hc
  · exact hs d h

theorem ascii_nil : Ascii [] := by intro c hc; cases hc

theorem ascii_nl (l : Nat) : Ascii (nl l) := by
  apply ascii_cons (by decide)
  intro c hc
  rw [List.eq_of_mem_replicate hc]; decide

theorem hexDigit_ascii (n : Nat) (h : n < 16) : (hexDigit n).toNat < 128 := by
  revert n; decide

theorem ascii_hex4 (n : Nat) : Ascii (hex4 n) := by
  intro c hc
  simp only [hex4, List.mem_cons, List.not_mem_nil, or_false] at hc
  rcases hc with rfl | rfl | rfl | rfl <;> exact hexDigit_ascii _ (Nat.mod_lt _ (by decide))

theorem ascii_uEsc (n : Nat) : Ascii (uEsc n) :=
  ascii_cons (by decide) (ascii_cons (by decide) (ascii_hex4 n))

theorem ascii_escChar (c : Char) : Ascii (escChar c) := by
  unfold escChar
  repeat' split
  all_goals first
    | exact ascii_cons (by decide) (ascii_cons (by decide) ascii_nil)
    | exact ascii_append (ascii_uEsc _) (ascii_uEsc _)
    | exact ascii_uEsc _
    | (rename_i h; exact ascii_cons (by omega) ascii_nil)

theorem ascii_escStr (s : Str) : Ascii (escStr s) := by
  induction s with
  | nil => exact ascii_nil
  | cons c cs ih => exact ascii_append (ascii_escChar c) ih

theorem ascii_renderStr (s : Str) : Ascii (renderStr s) :=
  ascii_cons (by decide) (ascii_append (ascii_escStr s) (ascii_cons (by decide) ascii_nil))

theorem ascii_dec (n : Int) : Ascii (dec n) := by
  intro c hc
  rcases mem_dec hc with h | rfl
  · have := isDigit_toNat h; omega
  · decide

mutual
theorem ascii_render (lvl : Nat) : (v : Json) → Ascii (render lvl v)
  | .null => by simp only [render]; decide
  | .bool true => by simp only [render]; decide
  | .bool false => by simp only [render]; decide
  | .int n => by simp only [render]; exact ascii_dec n
  | .real _ => by simp only [render]; decide
  | .str s => by simp only [render]; exact ascii_renderStr s
  | .arr [] => by simp only [render]; decide
  | .arr (x :: xs) => by
    simp only [render]
    exact ascii_cons (by decide) (ascii_append (ascii_nl _) (ascii_append (ascii_render _ x)
      (ascii_append (ascii_renderRest _ xs) (ascii_append (ascii_nl _) (ascii_cons (by decide) ascii_nil)))))
  | .obj [] => by simp only [render]; decide
  | .obj ((k, x) :: kvs) => by
    simp only [render]
    exact ascii_cons (by decide) (ascii_append (ascii_nl _) (ascii_append (ascii_renderStr k)
      (ascii_cons (by decide) (ascii_cons (by decide) (ascii_append (ascii_render _ x)
      (ascii_append (ascii_renderMore _ kvs) (ascii_append (ascii_nl _) (ascii_cons (by decide) ascii_nil))))))))
theorem ascii_renderRest (lvl : Nat) : (xs : List Json) → Ascii (renderRest lvl xs)
  | [] => by simp only [renderRest]; exact ascii_nil
  | x :: xs => by
    simp only [renderRest]
    exact ascii_cons (by decide) (ascii_append (ascii_nl _) (ascii_append (ascii_render _ x) (ascii_renderRest _ xs)))
theorem ascii_renderMore (lvl : Nat) : (kvs : List (Str × Json)) → Ascii (renderMore lvl kvs)
  | [] => by simp only [renderMore]; exact ascii_nil
  | (k, x) :: kvs => by
    simp only [renderMore]
    exact ascii_cons (by decide) (ascii_append (ascii_nl _) (ascii_append (ascii_renderStr k)
      (ascii_cons (by decide) (ascii_cons (by decide) (ascii_append (ascii_render _ x) (ascii_renderMore _ kvs))))))
end

/-- **The rendered text is ASCII**, whatever the value (non-ASCII and control characters are
escaped). -/
theorem render_ascii (lvl : Nat) (v : Json) : Ascii (render lvl v) := ascii_render lvl v

/-! ## Bytes of an ASCII text -/

theorem encodeUtf8_ascii (s : Str) (h : Ascii s) : encodeUtf8 s = s.map fun c => c.val.toUInt8 := by
  induction s with
  | nil => rfl
  | cons c cs ih =>
    have hc : c.toNat < 128 := h c (by simp)
    have hcs : Ascii cs := fun d hd => h d (by simp [hd])
    have h1 : c.val ≤ 127 := by
      rw [UInt32.le_iff_toNat_le]; simp only [Char.toNat] at hc; exact Nat.le_of_lt_succ hc
    simp only [encodeUtf8, List.map_cons, ih hcs,
      String.utf8EncodeChar_eq_singleton (Char.utf8Size_eq_one_iff.2 h1)]
    rfl

/-- For an ASCII text the byte length is the character length. -/
theorem encodeUtf8_length_ascii (s : Str) (h : Ascii s) : (encodeUtf8 s).length = s.length := by
  rw [encodeUtf8_ascii s h]; simp

theorem decodeUtf8_cons_ascii (b : UInt8) (rest : FileOps.Bytes) (h : b.toNat < 128) :
    decodeUtf8 (b :: rest) = (decodeUtf8 rest).map (Char.ofNat b.toNat :: ·) := by
  conv => lhs; unfold decodeUtf8
  simp only [h, if_true]

theorem decodeUtf8_encode_ascii (s : Str) (h : Ascii s) : decodeUtf8 (encodeUtf8 s) = some s := by
  rw [encodeUtf8_ascii s h]
  induction s with
  | nil => rfl
  | cons c cs ih =>
    have hc : c.toNat < 128 := h c (by simp)
    have hcs : Ascii cs := fun d hd => h d (by simp [hd])
    have h1 : (c.val.toUInt8).toNat = c.toNat := by
      simp only [UInt32.toNat_toUInt8, Char.toNat] at hc ⊢; omega
    rw [List.map_cons, decodeUtf8_cons_ascii _ _ (by omega), h1, ih hcs]
    simp only [Option.map_some, Char.ofNat_toNat]

/-! ## The machine: composition, whitespace -/

@[simp] theorem bind_ok {ε α β : Type} (a : α) (f : α → Except ε β) : (Except.ok a).bind f = f a := rfl
@[simp] theorem bind_error {ε α β : Type} (e : ε) (f : α → Except ε β) : (Except.error e : Except ε α).bind f = .error e := rfl

theorem bind_assoc {ε α β γ : Type} (x : Except ε α) (f : α → Except ε β) (g : β → Except ε γ) :
    (x.bind f).bind g = x.bind fun a => (f a).bind g := by
  cases x <;> rfl

@[simp] theorem run_nil (st : St) : run st [] = .ok st := rfl
theorem run_cons (st : St) (c : Char) (cs : Str) : run st (c :: cs) = (step st c).bind fun s => run s cs := rfl

theorem run_append (st : St) (a b : Str) : run st (a ++ b) = (run st a).bind fun s => run s b := by
  induction a generalizing st with
  | nil => rfl
  | cons c cs ih =>
    simp only [List.cons_append, run_cons, bind_assoc]
    cases step st c with
    | error e => rfl
    | ok s => simp only [bind_ok, ih]

/-- Whitespace leaves the state as it is. -/
def WsStable (st : St) : Prop := ∀ c, isWs c = true → step st c = .ok st

theorem run_ws (st : St) (h : WsStable st) (t : Str) (ht : ∀ c ∈ t, isWs c = true) : run st t = .ok st := by
  induction t with
  | nil => rfl
  | cons c cs ih =>
    rw [run_cons, h c (ht c (by simp)), bind_ok, ih (fun d hd => ht d (by simp [hd]))]

theorem nl_ws (l : Nat) : ∀ c ∈ nl l, isWs c = true := by
  intro c hc
  simp only [nl, List.mem_cons] at hc
  rcases hc with rfl | hc
  · decide
  · rw [List.eq_of_mem_replicate hc]; decide

theorem wsStable_value (s : List Frame) : WsStable ⟨s, .value⟩ := fun c h => by simp [step, h]
theorem wsStable_arrFirst (s : List Frame) : WsStable ⟨s, .arrFirst⟩ := fun c h => by simp [step, h]
theorem wsStable_objFirst (s : List Frame) : WsStable ⟨s, .objFirst⟩ := fun c h => by simp [step, h]
theorem wsStable_objKey (s : List Frame) : WsStable ⟨s, .objKey⟩ := fun c h => by simp [step, h]
theorem wsStable_colon (s : List Frame) : WsStable ⟨s, .colon⟩ := fun c h => by simp [step, h]
theorem wsStable_after (s : List Frame) : WsStable ⟨s, .after⟩ := fun c h => by simp [step, afterStep, h]

/-- Run over a newline-and-indentation in a whitespace-stable state, then go on. -/
theorem run_nl_append (st : St) (h : WsStable st) (l : Nat) (t : Str) : run st (nl l ++ t) = run st t := by
  rw [run_append, run_ws st h _ (nl_ws l), bind_ok]

/-! ## Strings -/

theorem hexVal?_hexDigit : ∀ (n : Nat), n < 16 → hexVal? (hexDigit n) = some n
  | 0, _ => by decide
  | 1, _ => by decide
  | 2, _ => by decide
  | 3, _ => by decide
  | 4, _ => by decide
  | 5, _ => by decide
  | 6, _ => by decide
  | 7, _ => by decide
  | 8, _ => by decide
  | 9, _ => by decide
  | 10, _ => by decide
  | 11, _ => by decide
  | 12, _ => by decide
  | 13, _ => by decide
  | 14, _ => by decide
  | 15, _ => by decide
  | n + 16, h => absurd h (by omega)

theorem run_hex4 (s : List Frame) (key : Bool) (acc : Str) (hi : Option Nat) (n : Nat) (h : n < 65536) :
    run ⟨s, .hex key acc hi 0 0⟩ (hex4 n) = hexDone s key acc hi n := by
  have e : ((((0 * 16 + n / 4096 % 16) * 16 + n / 256 % 16) * 16 + n / 16 % 16) * 16 + n % 16) = n := by omega
  simp only [hex4, run_cons, run_nil, step, hexVal?_hexDigit _ (Nat.mod_lt _ (by decide : 0 < 16)), bind_ok,
    Nat.reduceEqDiff, if_false, Nat.zero_add, Nat.reduceAdd, if_true, e]
  cases hexDone s key acc hi n <;> rfl

theorem run_uEsc (s : List Frame) (key : Bool) (acc : Str) (n : Nat) (h : n < 65536) :
    run ⟨s, .str key acc⟩ (uEsc n) = hexDone s key acc none n := by
  have hs : simpleEsc? 'u' = none := by decide
  have h0 : ('\\' : Char) ≠ '"' := by decide
  simp only [uEsc, run_cons, step, hs, if_true, h0, if_false, bind_ok, run_hex4 s key acc none n h]

theorem run_uEsc_low (s : List Frame) (key : Bool) (acc : Str) (hi n : Nat) (h : n < 65536) :
    run ⟨s, .hi1 key acc hi⟩ (uEsc n) = hexDone s key acc (some hi) n := by
  simp only [uEsc, run_cons, step, if_true, bind_ok, run_hex4 s key acc (some hi) n h]

theorem char_valid (c : Char) : c.toNat < 55296 ∨ (57343 < c.toNat ∧ c.toNat < 1114112) := c.valid

/-- The escaped form of one character is read back as that character. -/
theorem run_escChar (s : List Frame) (key : Bool) (acc : Str) (c : Char) :
    run ⟨s, .str key acc⟩ (escChar c) = .ok ⟨s, .str key (acc ++ [c])⟩ := by
  unfold escChar
  split
  · next h => subst h; simp [run_cons, step, simpleEsc?]
  split
  · next h => subst h; simp [run_cons, step, simpleEsc?]
  split
  · next h => subst h; simp [run_cons, step, simpleEsc?]
  split
  · next h => subst h; simp [run_cons, step, simpleEsc?]
  split
  · next h => subst h; simp [run_cons, step, simpleEsc?]
  split
  · next h => subst h; simp [run_cons, step, simpleEsc?]
  split
  · next h => subst h; simp [run_cons, step, simpleEsc?]
  rename_i h1 h2 h3 h4 h5 h6 h7
  split
  · next h =>
    have : ¬ c.toNat < 32 := by omega
    simp [run_cons, step, h1, h2, this]
  split
  · next hp h =>
    have hv := char_valid c
    have e1 : ¬ (55296 ≤ c.toNat ∧ c.toNat < 56320) := by omega
    have e2 : ¬ (56320 ≤ c.toNat ∧ c.toNat < 57344) := by omega
    rw [run_uEsc s key acc c.toNat h]
    simp only [hexDone, e1, e2, if_false, Char.ofNat_toNat]
  · next hp h =>
    have hv := char_valid c
    have hge : 65536 ≤ c.toNat := by omega
    have hhi : 55296 + (c.toNat - 65536) / 1024 < 65536 := by omega
    have hlo : 56320 + (c.toNat - 65536) % 1024 < 65536 := by omega
    have e1 : 55296 ≤ 55296 + (c.toNat - 65536) / 1024 ∧ 55296 + (c.toNat - 65536) / 1024 < 56320 := by omega
    have e2 : 56320 ≤ 56320 + (c.toNat - 65536) % 1024 ∧ 56320 + (c.toNat - 65536) % 1024 < 57344 := by omega
    have e3 : 65536 + (55296 + (c.toNat - 65536) / 1024 - 55296) * 1024 + (56320 + (c.toNat - 65536) % 1024 - 56320) = c.toNat := by
      omega
    rw [run_append, run_uEsc s key acc _ hhi]
    have d1 : hexDone s key acc none (55296 + (c.toNat - 65536) / 1024) = .ok ⟨s, .hi1 key acc (55296 + (c.toNat - 65536) / 1024)⟩ := by
      simp only [hexDone, e1, and_self, if_true]
    rw [d1, bind_ok, run_uEsc_low s key acc _ _ hlo]
    simp only [hexDone, e2, and_self, if_true]
    rw [e3, Char.ofNat_toNat]

theorem run_escStr (s : List Frame) (key : Bool) (acc t : Str) :
    run ⟨s, .str key acc⟩ (escStr t) = .ok ⟨s, .str key (acc ++ t)⟩ := by
  induction t generalizing acc with
  | nil => simp [escStr]
  | cons c cs ih => simp only [escStr, run_append, run_escChar, bind_ok, ih, List.append_assoc, List.singleton_append]

/-- From just inside the opening quote to the closing quote. -/
theorem run_strBody (s : List Frame) (key : Bool) (t : Str) :
    run ⟨s, .str key []⟩ (escStr t ++ ['"']) = endStr s key t := by
  rw [run_append, run_escStr, bind_ok, run_cons, List.nil_append]
  simp only [step, if_true]
  cases endStr s key t <;> rfl

/-! ## Integers -/

theorem digit_ne {c d : Char} (h : c.isDigit = true) (hd : d.isDigit = false) : c ≠ d := by
  intro e; subst e; rw [h] at hd; cases hd

theorem isWs_digit {c : Char} (h : c.isDigit = true) : isWs c = false := by
  simp [isWs, digit_ne h (d := ' ') (by decide), digit_ne h (d := '\t') (by decide),
    digit_ne h (d := '\n') (by decide), digit_ne h (d := '\r') (by decide)]

theorem run_digits (s : List Frame) (neg : Bool) (ds : Str) (hd : ∀ c ∈ ds, c.isDigit = true) (n k : Nat)
    (hk : k + ds.length ≤ Gen.pyMaxStrDigits) :
    run ⟨s, .int neg n k⟩ ds = .ok ⟨s, .int neg (Nat.ofDigitChars 10 ds n) (k + ds.length)⟩ := by
  induction ds generalizing n k with
  | nil => simp
  | cons c cs ih =>
    have hc := hd c (by simp)
    have hk1 : k + 1 ≤ Gen.pyMaxStrDigits := by simp only [List.length_cons] at hk; omega
    rw [run_cons]
    simp only [step, hc, if_true, hk1, bind_ok]
    rw [ih (fun d h => hd d (by simp [h])) _ _ (by simp only [List.length_cons] at hk; omega)]
    simp only [Nat.ofDigitChars_cons, List.length_cons, Char.reduceToNat]
    congr 3; omega

theorem toDigits_head (k : Nat) (hk : 0 < k) : ∃ c t, Nat.toDigits 10 k = c :: t ∧ c ≠ '0' := by
  induction k using Nat.strongRecOn with
  | _ k ih =>
    rw [Nat.toDigits_eq_if (by decide)]
    split
    · refine ⟨_, [], rfl, ?_⟩
      simp only [ne_eq, Nat.digitChar_eq_zero]; omega
    · obtain ⟨c, t, e, hc⟩ := ih (k / 10) (by omega) (by omega)
      rw [e]; exact ⟨c, t ++ _, rfl, hc⟩

/-- The digits of a positive number, read from a state in which a non-zero digit starts an integer. -/
theorem run_toDigits (st0 : St) (s : List Frame) (neg : Bool)
    (hstart : ∀ c : Char, c.isDigit = true → c ≠ '0' → step st0 c = .ok ⟨s, .int neg (c.toNat - 48) 1⟩)
    (k : Nat) (hk : 0 < k) (hlen : (Nat.toDigits 10 k).length ≤ Gen.pyMaxStrDigits) :
    run st0 (Nat.toDigits 10 k) = .ok ⟨s, .int neg k (Nat.toDigits 10 k).length⟩ := by
  obtain ⟨c, t, e, hc0⟩ := toDigits_head k hk
  have hd := toDigits_isDigit k
  have hv : Nat.ofDigitChars 10 (Nat.toDigits 10 k) 0 = k := Nat.ofDigitChars_ten_toDigits
  rw [e] at hd hlen hv ⊢
  have hc := hd c (by simp)
  rw [run_cons, hstart c hc hc0, bind_ok, run_digits s neg t (fun d h => hd d (by simp [h])) _ _ (by
    simp only [List.length_cons] at hlen; omega)]
  simp only [Nat.ofDigitChars_cons, Char.reduceToNat, Nat.mul_zero, Nat.zero_add] at hv
  simp only [hv, List.length_cons]
  congr 3; omega

theorem step_value_digit (s : List Frame) (c : Char) (hc : c.isDigit = true) (h0 : c ≠ '0') :
    step ⟨s, .value⟩ c = .ok ⟨s, .int false (c.toNat - 48) 1⟩ := by
  simp [step, isWs_digit hc, startValue, hc, h0, digit_ne hc (d := '"') (by decide), digit_ne hc (d := '{') (by decide),
    digit_ne hc (d := '[') (by decide), digit_ne hc (d := 'n') (by decide), digit_ne hc (d := 't') (by decide),
    digit_ne hc (d := 'f') (by decide), digit_ne hc (d := 'N') (by decide), digit_ne hc (d := 'I') (by decide),
    digit_ne hc (d := '-') (by decide)]

theorem step_minus_digit (s : List Frame) (c : Char) (hc : c.isDigit = true) (h0 : c ≠ '0') :
    step ⟨s, .minus⟩ c = .ok ⟨s, .int true (c.toNat - 48) 1⟩ := by
  simp [step, hc, h0]

/-- The state in which the machine waits after the last digit of `str(n)`. -/
def pending : Int → Mode
  | .ofNat 0 => .zero false
  | .ofNat (k + 1) => .int false (k + 1) (Nat.toDigits 10 (k + 1)).length
  | .negSucc k => .int true (k + 1) (Nat.toDigits 10 (k + 1)).length

theorem run_dec (s : List Frame) (n : Int) (h : (Nat.toDigits 10 n.natAbs).length ≤ Gen.pyMaxStrDigits) :
    run ⟨s, .value⟩ (dec n) = .ok ⟨s, pending n⟩ := by
  match n with
  | .ofNat 0 => simp [dec, Nat.toDigits_zero, run_cons, step, isWs, startValue, pending]
  | .ofNat (k + 1) =>
    simp only [dec, pending]
    exact run_toDigits _ s false (step_value_digit s) (k + 1) (by omega) h
  | .negSucc k =>
    simp only [dec, pending, run_cons]
    have : step ⟨s, .value⟩ '-' = .ok ⟨s, .minus⟩ := by simp [step, isWs, startValue]
    rw [this, bind_ok]
    exact run_toDigits _ s true (step_minus_digit s) (k + 1) (by omega) h

/-- What follows a value in a rendered text: `,` or a newline. -/
def Delim (c : Char) : Prop := c = ',' ∨ c = '\n'

theorem step_pending (s : List Frame) (n : Int) (c : Char) (hc : Delim c) :
    step ⟨s, pending n⟩ c = settle s (.int n) c := by
  rcases hc with rfl | rfl <;>
  · match n with
    | .ofNat 0 => simp [pending, step, intVal]
    | .ofNat (k + 1) => simp [pending, step, intVal, Char.isDigit]
    | .negSucc k => simp [pending, step, intVal, Char.isDigit, Int.negSucc_eq]

theorem finish_pending (n : Int) : finish ⟨[], pending n⟩ = .ok (.int n) := by
  match n with
  | .ofNat 0 => simp [pending, finish, intVal]
  | .ofNat (k + 1) => simp [pending, finish, intVal]
  | .negSucc k => simp [pending, finish, intVal, Int.negSucc_eq]

/-! ## Values -/

@[simp] theorem bind_ok_id {ε α : Type} (x : Except ε α) : (x.bind fun a => Except.ok a) = x := by
  cases x <;> rfl

theorem deliver_arr (acc : List Json) (s : List Frame) (v : Json) :
    deliver (.arr acc :: s) v = .ok ⟨.arr (acc ++ [v]) :: s, .after⟩ := rfl
theorem deliver_objv (acc : List (Str × Json)) (k : Str) (s : List Frame) (v : Json) :
    deliver (.objv acc k :: s) v = .ok ⟨.obj (PDict.set acc k v) :: s, .after⟩ := rfl

@[simp] theorem bind_run_nil (x : Except PErr St) : (x.bind fun st => run st []) = x := by
  cases x <;> rfl

/-- The state after the text of a value: delivered, except that an integer is still waiting for
the character that ends it. -/
def post (s : List Frame) : Json → Except PErr St
  | .int n => .ok ⟨s, pending n⟩
  | v => deliver s v

/-- Inside a container, the delimiter after a value settles it. -/
theorem post_delim (f : Frame) (s : List Frame) (v : Json) (c : Char) (hc : Delim c) (t : Str) :
    ((post (f :: s) v).bind fun st => run st (c :: t)) =
      (deliver (f :: s) v).bind fun st => (afterStep st.stack c).bind fun st' => run st' t := by
  have hgen : ∀ w, ((deliver (f :: s) w).bind fun st => run st (c :: t)) =
      (deliver (f :: s) w).bind fun st => (afterStep st.stack c).bind fun st' => run st' t := by
    intro w; cases f <;> rfl
  cases v with
  | int n =>
    simp only [post, bind_ok, run_cons, step_pending _ _ _ hc, settle, bind_assoc]
  | null => exact hgen _
  | bool b => exact hgen _
  | real r => exact hgen _
  | str x => exact hgen _
  | arr xs => exact hgen _
  | obj kvs => exact hgen _

theorem post_top (v : Json) : (post [] v).bind finish = .ok v := by
  cases v <;> first | rfl | exact finish_pending _

theorem render_head (lvl : Nat) (v : Json) : ∃ c t, render lvl v = c :: t ∧ isWs c = false ∧ c ≠ ']' := by
  match v with
  | .null => exact ⟨_, _, rfl, by decide, by decide⟩
  | .bool true => exact ⟨_, _, rfl, by decide, by decide⟩
  | .bool false => exact ⟨_, _, rfl, by decide, by decide⟩
  | .real _ => exact ⟨_, _, rfl, by decide, by decide⟩
  | .str x => exact ⟨_, _, rfl, by decide, by decide⟩
  | .arr [] => exact ⟨_, _, rfl, by decide, by decide⟩
  | .arr (_ :: _) => exact ⟨_, _, rfl, by decide, by decide⟩
  | .obj [] => exact ⟨_, _, rfl, by decide, by decide⟩
  | .obj ((_, _) :: _) => exact ⟨_, _, rfl, by decide, by decide⟩
  | .int (.negSucc k) => exact ⟨_, _, rfl, by decide, by decide⟩
  | .int (.ofNat k) =>
    have hd := toDigits_isDigit k
    simp only [render, dec]
    cases e : Nat.toDigits 10 k with
    | nil => exact absurd e Nat.toDigits_ne_nil
    | cons c t =>
      have hc : c.isDigit = true := hd c (by simp [e])
      exact ⟨c, t, rfl, isWs_digit hc, digit_ne hc (by decide)⟩

theorem run_arrFirst_render (s : List Frame) (lvl : Nat) (v : Json) (t : Str) :
    run ⟨s, .arrFirst⟩ (render lvl v ++ t) = run ⟨s, .value⟩ (render lvl v ++ t) := by
  obtain ⟨c, r, e, hws, hne⟩ := render_head lvl v
  rw [e]
  simp [run_cons, step, hws, hne]

theorem step_open_brace (s : List Frame) : step ⟨s, .value⟩ '{' = .ok ⟨.obj [] :: s, .objFirst⟩ := by
  simp [step, isWs, startValue]
theorem step_open_bracket (s : List Frame) : step ⟨s, .value⟩ '[' = .ok ⟨.arr [] :: s, .arrFirst⟩ := by
  simp [step, isWs, startValue]
theorem step_quote_value (s : List Frame) : step ⟨s, .value⟩ '"' = .ok ⟨s, .str false []⟩ := by
  simp [step, isWs, startValue]
theorem step_quote_objFirst (s : List Frame) : step ⟨s, .objFirst⟩ '"' = .ok ⟨s, .str true []⟩ := by
  simp [step, isWs]
theorem step_quote_objKey (s : List Frame) : step ⟨s, .objKey⟩ '"' = .ok ⟨s, .str true []⟩ := by
  simp [step, isWs]

/-- `"key": ` read in an object frame that waits for a key (the opening quote already consumed). -/
theorem run_keyBody (acc : List (Str × Json)) (s : List Frame) (k : Str) (t : Str) :
    run ⟨.obj acc :: s, .str true []⟩ ((escStr k ++ ['"']) ++ (':' :: ' ' :: t)) = run ⟨.objv acc k :: s, .value⟩ t := by
  rw [run_append, run_strBody]
  simp [endStr, run_cons, step, isWs]

theorem run_keyBody' (acc : List (Str × Json)) (s : List Frame) (k : Str) (t : Str) :
    run ⟨.obj acc :: s, .str true []⟩ (escStr k ++ '"' :: ':' :: ' ' :: t) = run ⟨.objv acc k :: s, .value⟩ t := by
  rw [← run_keyBody]; simp

theorem afterStep_nl (s : List Frame) : afterStep s '\n' = .ok ⟨s, .after⟩ := by simp [afterStep, isWs]

theorem run_after_close_arr (acc : List Json) (s : List Frame) (l : Nat) :
    run ⟨.arr acc :: s, .after⟩ (List.replicate (2 * l) ' ' ++ [']']) = deliver s (.arr acc) := by
  rw [run_append, run_ws _ (wsStable_after _) _ (fun c hc => by rw [List.eq_of_mem_replicate hc]; decide), bind_ok, run_cons]
  simp [step, afterStep, isWs]

theorem run_after_close_obj (acc : List (Str × Json)) (s : List Frame) (l : Nat) :
    run ⟨.obj acc :: s, .after⟩ (List.replicate (2 * l) ' ' ++ ['}']) = deliver s (.obj acc) := by
  rw [run_append, run_ws _ (wsStable_after _) _ (fun c hc => by rw [List.eq_of_mem_replicate hc]; decide), bind_ok, run_cons]
  simp [step, afterStep, isWs]

mutual
/-- **The machine reads a rendered value back** (inside any stack of open containers). -/
theorem run_render (lvl : Nat) (s : List Frame) : (v : Json) → renderable v = true → distinctKeys v = true →
    run ⟨s, .value⟩ (render lvl v) = post s v
  | .null, _, _ => by simp [render, run_cons, step, isWs, startValue, post]
  | .bool true, _, _ => by simp [render, run_cons, step, isWs, startValue, post]
  | .bool false, _, _ => by simp [render, run_cons, step, isWs, startValue, post]
  | .real _, h, _ => by simp [renderable] at h
  | .int n, h, _ => by
    simp only [renderable, decide_eq_true_eq] at h
    simp only [render, post, run_dec s n h]
  | .str t, _, _ => by
    simp only [render, renderStr, run_cons, step_quote_value, bind_ok, run_strBody, endStr, post]
    rfl
  | .arr [], _, _ => by simp [render, run_cons, step, isWs, startValue, post]
  | .arr (x :: xs), h, hd => by
    simp only [renderable, renderableList, Bool.and_eq_true] at h
    simp only [distinctKeys, distinctKeysList, Bool.and_eq_true] at hd
    simp only [render, run_cons, step_open_bracket, bind_ok, post]
    rw [run_nl_append _ (wsStable_arrFirst _), run_arrFirst_render, run_append, run_render (lvl + 1) _ x h.1 hd.1]
    exact run_restArr (lvl + 1) lvl s xs h.2 hd.2 [] x
  | .obj [], _, _ => by simp [render, run_cons, step, isWs, startValue, post]
  | .obj ((k, x) :: kvs), h, hd => by
    simp only [renderable, renderableKvs, Bool.and_eq_true] at h
    simp only [distinctKeys, distinctKeysKvs, Bool.and_eq_true, decide_eq_true_eq, List.map_cons] at hd
    simp only [render, run_cons, step_open_brace, bind_ok, post]
    rw [run_nl_append _ (wsStable_objFirst _)]
    simp only [renderStr, List.cons_append, run_cons, step_quote_objFirst, bind_ok]
    rw [run_keyBody, run_append, run_render (lvl + 1) _ x h.1 hd.2.1]
    exact run_restObj (lvl + 1) lvl s kvs h.2 hd.2.2 [] k x (by simpa using hd.1)
/-- The remaining elements of an array and its closing bracket, after the element `x`. -/
theorem run_restArr (lvl lvl0 : Nat) (s : List Frame) : (xs : List Json) → renderableList xs = true →
    distinctKeysList xs = true → ∀ (acc : List Json) (x : Json),
    ((post (.arr acc :: s) x).bind fun st => run st (renderRest lvl xs ++ (nl lvl0 ++ [']']))) =
      deliver s (.arr (acc ++ x :: xs))
  | [], _, _, acc, x => by
    simp only [renderRest, List.nil_append, nl, List.cons_append]
    rw [post_delim _ _ _ _ (Or.inr rfl)]
    simp only [deliver_arr, bind_ok, afterStep_nl, run_after_close_arr]
  | y :: ys, h, hd, acc, x => by
    simp only [renderableList, Bool.and_eq_true] at h
    simp only [distinctKeysList, Bool.and_eq_true] at hd
    simp only [renderRest, List.cons_append, List.append_assoc]
    rw [post_delim _ _ _ _ (Or.inl rfl)]
    have e : afterStep (.arr (acc ++ [x]) :: s) ',' = .ok ⟨.arr (acc ++ [x]) :: s, .value⟩ := by
      simp [afterStep, isWs]
    simp only [deliver_arr, bind_ok, e]
    rw [run_nl_append _ (wsStable_value _), run_append, run_render lvl _ y h.1 hd.1]
    have := run_restArr lvl lvl0 s ys h.2 hd.2 (acc ++ [x]) y
    simpa using this
/-- The remaining members of an object and its closing brace, after the member `k: x`. -/
theorem run_restObj (lvl lvl0 : Nat) (s : List Frame) : (kvs : List (Str × Json)) → renderableKvs kvs = true →
    distinctKeysKvs kvs = true → ∀ (acc : List (Str × Json)) (k : Str) (x : Json),
    (acc.map (·.1) ++ k :: kvs.map (·.1)).Nodup →
    ((post (.objv acc k :: s) x).bind fun st => run st (renderMore lvl kvs ++ (nl lvl0 ++ ['}']))) =
      deliver s (.obj (acc ++ (k, x) :: kvs))
  | [], _, _, acc, k, x, hn => by
    have hk : k ∉ PDict.keys acc := by
      simp only [List.map_nil, List.nodup_append, List.nodup_cons] at hn
      intro hm; exact hn.2.2 k hm k (by simp) rfl
    simp only [renderMore, List.nil_append, nl, List.cons_append]
    rw [post_delim _ _ _ _ (Or.inr rfl)]
    simp only [deliver_objv, bind_ok, afterStep_nl, run_after_close_obj, PDict.set_fresh _ _ _ hk]
  | (k', y) :: kvs, h, hd, acc, k, x, hn => by
    simp only [renderableKvs, Bool.and_eq_true] at h
    simp only [distinctKeysKvs, Bool.and_eq_true] at hd
    have hk : k ∉ PDict.keys acc := by
      simp only [List.nodup_append, List.nodup_cons] at hn
      intro hm; exact hn.2.2 k hm k (by simp) rfl
    simp only [renderMore, renderStr, List.cons_append, List.append_assoc]
    rw [post_delim _ _ _ _ (Or.inl rfl)]
    have e : afterStep (.obj (acc ++ [(k, x)]) :: s) ',' = .ok ⟨.obj (acc ++ [(k, x)]) :: s, .objKey⟩ := by
      simp [afterStep, isWs]
    simp only [deliver_objv, bind_ok, PDict.set_fresh _ _ _ hk, e]
    rw [run_nl_append _ (wsStable_objKey _)]
    simp only [run_cons, step_quote_objKey, bind_ok, List.nil_append]
    rw [run_keyBody', run_append, run_render lvl _ y h.1 hd.1]
    have := run_restObj lvl lvl0 s kvs h.2 hd.2 (acc ++ [(k, x)]) k' y (by simpa using hn)
    simpa using this
end

/-- **`json.loads(json.dumps(v, indent=2)) == v`** for every value without reals, with printable
integers and without duplicate keys, at any indentation level. -/
theorem parse_render_lvl (lvl : Nat) (v : Json) (h : Renderable v) : parse (render lvl v) = .ok v := by
  simp only [parse, init, run_render lvl [] v h.1 h.2, post_top]

/-! ## No proper prefix of a container's text is JSON -/

/-- With nothing open, the machine has finished the top-level value. -/
def Closed (st : St) : Prop := st.stack = [] → ∃ v, st.mode = .done v

theorem closed_deliver {s : List Frame} {v : Json} {st : St} (h : deliver s v = .ok st) : Closed st := by
  intro hs
  cases s with
  | nil => simp only [deliver, Except.ok.injEq] at h; subst h; exact ⟨v, rfl⟩
  | cons f r =>
    cases f <;> simp only [deliver, Except.ok.injEq, reduceCtorEq] at h <;> subst h <;> cases hs

theorem closed_of_stack {st : St} (h : st.stack ≠ []) : Closed st := fun e => absurd e h

theorem closed_afterStep {f : Frame} {s : List Frame} {c : Char} {st : St} (h : afterStep (f :: s) c = .ok st) :
    Closed st := by
  unfold afterStep at h
  split at h
  · simp only [Except.ok.injEq] at h; subst h; exact closed_of_stack (by simp)
  · split at h
    · split at h
      · simp only [Except.ok.injEq] at h; subst h; exact closed_of_stack (by simp)
      · split at h
        · exact closed_deliver h
        · cases h
    · split at h
      · simp only [Except.ok.injEq] at h; subst h; exact closed_of_stack (by simp)
      · split at h
        · exact closed_deliver h
        · cases h
    · cases h

theorem closed_endStr {f : Frame} {s : List Frame} {key : Bool} {t : Str} {st : St}
    (h : endStr (f :: s) key t = .ok st) : Closed st := by
  unfold endStr at h
  split at h
  · split at h
    · simp only [Except.ok.injEq] at h; subst h; exact closed_of_stack (by simp)
    · cases h
  · exact closed_deliver h

theorem closed_settle {f : Frame} {s : List Frame} {v : Json} {c : Char} {st : St}
    (h : settle (f :: s) v c = .ok st) : Closed st := by
  simp only [settle] at h
  cases f with
  | arr acc => exact closed_afterStep h
  | obj acc => cases h
  | objv acc k => exact closed_afterStep h

/-- Close a goal `Closed st` from `h : <result> = .ok st` where the result is an explicit state with a
non-empty stack, or an error. -/
local macro "closed_ok" h:ident hs:term : tactic =>
  `(tactic| first
    | (simp only [Except.ok.injEq] at $h:ident; subst $h:ident
       first | exact closed_of_stack $hs | exact closed_of_stack (by simp))
    | cases $h:ident)

theorem closed_startValue {s : List Frame} {c : Char} {st : St} (hs : s ≠ []) (h : startValue s c = .ok st) :
    Closed st := by
  unfold startValue at h
  repeat' split at h
  all_goals closed_ok h hs

theorem closed_hexDone {s : List Frame} {key : Bool} {acc : Str} {hi : Option Nat} {m : Nat} {st : St}
    (hs : s ≠ []) (h : hexDone s key acc hi m = .ok st) : Closed st := by
  unfold hexDone at h
  repeat' split at h
  all_goals closed_ok h hs

/-- One step keeps `Closed`. -/
theorem closed_step {st st' : St} {c : Char} (hc : Closed st) (h : step st c = .ok st') : Closed st' := by
  obtain ⟨stack, mode⟩ := st
  cases stack with
  | nil =>
    obtain ⟨v, hv⟩ := hc rfl
    simp only at hv; subst hv
    simp only [step, doneStep] at h
    split at h
    · simp only [Except.ok.injEq] at h; subst h; exact fun _ => ⟨v, rfl⟩
    · cases h
  | cons f s =>
    have hne : f :: s ≠ [] := by simp
    cases mode with
    | after => exact closed_afterStep h
    | done v =>
      simp only [step, doneStep] at h
      split at h
      · simp only [Except.ok.injEq] at h; subst h; exact fun _ => ⟨v, rfl⟩
      · cases h
    | value =>
      simp only [step] at h
      split at h
      · simp only [Except.ok.injEq] at h; subst h; exact closed_of_stack hne
      · exact closed_startValue hne h
    | arrFirst =>
      simp only [step] at h
      split at h
      · simp only [Except.ok.injEq] at h; subst h; exact closed_of_stack hne
      · split at h
        · split at h
          · exact closed_deliver h
          · cases h
        · exact closed_startValue hne h
    | objFirst =>
      simp only [step] at h
      split at h
      · simp only [Except.ok.injEq] at h; subst h; exact closed_of_stack hne
      · split at h
        · split at h
          · exact closed_deliver h
          · cases h
        · split at h
          · simp only [Except.ok.injEq] at h; subst h; exact closed_of_stack hne
          · cases h
    | str key acc =>
      simp only [step] at h
      split at h
      · exact closed_endStr h
      · repeat' split at h
        all_goals closed_ok h hne
    | hex key acc hi n k =>
      simp only [step] at h
      split at h
      · split at h
        · exact closed_hexDone hne h
        · simp only [Except.ok.injEq] at h; subst h; exact closed_of_stack hne
      · split at h <;> cases h
    | zero neg =>
      simp only [step] at h
      repeat' split at h
      all_goals first
        | exact closed_settle h
        | closed_ok h hne
    | int neg n k =>
      simp only [step] at h
      repeat' split at h
      all_goals first
        | exact closed_settle h
        | closed_ok h hne
    | lit rest v =>
      simp only [step] at h
      repeat' split at h
      all_goals first
        | exact closed_deliver h
        | closed_ok h hne
    | _ =>
      simp only [step] at h
      repeat' split at h
      all_goals closed_ok h hne

theorem closed_run {st st' : St} (hc : Closed st) (t : Str) (h : run st t = .ok st') : Closed st' := by
  induction t generalizing st with
  | nil => simp only [run_nil, Except.ok.injEq] at h; subst h; exact hc
  | cons c cs ih =>
    rw [run_cons] at h
    cases e : step st c with
    | error x => rw [e] at h; cases h
    | ok s1 => rw [e, bind_ok] at h; exact ih (closed_step hc e) h

/-- Once the top-level value is complete only whitespace may follow. -/
theorem run_done_ws (v : Json) (t : Str) (st : St) (h : run ⟨[], .done v⟩ t = .ok st) : ∀ c ∈ t, isWs c = true := by
  induction t with
  | nil => intro c hc; cases hc
  | cons d ds ih =>
    rw [run_cons] at h
    simp only [step, doneStep] at h
    by_cases hd : isWs d = true
    · simp only [hd, if_true, bind_ok] at h
      intro c hc
      rcases List.mem_cons.mp hc with rfl | hc
      · exact hd
      · exact ih h c hc
    · simp only [hd, if_false, bind_error, reduceCtorEq] at h

/-- In these modes the text can no longer become valid JSON. -/
def Dead (m : Mode) : Prop := m = .big ∨ m = .frac ∨ m = .exp ∨ m = .expSign

theorem dead_never_ok (t : Str) (st : St) (hd : Dead st.mode) (v : Json) : (run st t).bind finish ≠ .ok v := by
  induction t generalizing st with
  | nil =>
    obtain ⟨stack, mode⟩ := st
    simp only [Dead] at hd
    rcases hd with rfl | rfl | rfl | rfl <;> cases stack <;> simp [finish]
  | cons c cs ih =>
    obtain ⟨stack, mode⟩ := st
    simp only [Dead] at hd
    rw [run_cons, bind_assoc]
    rcases hd with rfl | rfl | rfl | rfl
    · simp only [step]
      repeat' split
      all_goals first
        | (simp only [bind_ok]; exact ih _ (by simp [Dead]))
        | simp
    · simp only [step]; split <;> simp
    · simp only [step]
      repeat' split
      all_goals first
        | (simp only [bind_ok]; exact ih _ (by simp [Dead]))
        | simp
    · simp only [step]; split <;> simp

theorem finish_open (st : St) (hs : st.stack ≠ []) (hd : ¬ Dead st.mode) : finish st = .error .invalid := by
  obtain ⟨stack, mode⟩ := st
  cases stack with
  | nil => exact absurd rfl hs
  | cons f s =>
    cases mode <;> first | rfl | exact absurd (by simp [Dead]) hd

/-- **A text that parses, starts with `{` or `[` and does not end in whitespace has no proper
non-empty prefix that parses**: every such prefix is a `JSONDecodeError`. -/
theorem prefix_invalid_of_parse (c0 : Char) (p' q : Str) (v : Json) (hc0 : c0 = '{' ∨ c0 = '[')
    (hq : q ≠ []) (hlast : ∀ c, q.getLast? = some c → isWs c = false)
    (hparse : parse (c0 :: p' ++ q) = .ok v) : parse (c0 :: p') = .error .invalid := by
  simp only [parse] at hparse ⊢
  rw [run_append] at hparse
  have h0 : ∃ f m, step init c0 = .ok ⟨[f], m⟩ := by
    rcases hc0 with rfl | rfl
    · exact ⟨_, _, step_open_brace []⟩
    · exact ⟨_, _, step_open_bracket []⟩
  obtain ⟨f, m, h0⟩ := h0
  cases e : run init (c0 :: p') with
  | error x => rw [e] at hparse; cases hparse
  | ok st1 =>
    rw [e, bind_ok] at hparse
    have hcl : Closed st1 := by
      rw [run_cons, h0, bind_ok] at e
      exact closed_run (closed_of_stack (by simp)) p' e
    simp only [bind_ok]
    by_cases hs : st1.stack = []
    · obtain ⟨w, hw⟩ := hcl hs
      have hst : st1 = ⟨[], .done w⟩ := by cases st1; simp_all
      subst hst
      cases e2 : run ⟨[], .done w⟩ q with
      | error x => rw [e2] at hparse; cases hparse
      | ok st2 =>
        have hws := run_done_ws w q st2 e2
        cases hl : q.getLast? with
        | none => exact absurd (List.getLast?_eq_none_iff.mp hl) hq
        | some c =>
          have := hws c (List.mem_of_getLast? hl)
          rw [hlast c hl] at this; cases this
    · by_cases hd : Dead st1.mode
      · exact absurd hparse (dead_never_ok q st1 hd v)
      · exact finish_open st1 hs hd

/-! ## The two theorems about the file's text -/

/-- **`json.loads(json.dumps(v, indent=2)) == v`**: the parser reads back every rendered value
(no reals, integers within the digit limit, no duplicate keys — `Renderable`). -/
theorem parse_render (v : Json) (h : Renderable v) : parse (render 0 v) = .ok v := parse_render_lvl 0 v h

theorem render_obj_shape (lvl : Nat) (kvs : List (Str × Json)) :
    ∃ body, render lvl (.obj kvs) = '{' :: (body ++ ['}']) := by
  match kvs with
  | [] => exact ⟨[], rfl⟩
  | (k, x) :: kvs =>
    exact ⟨nl (lvl + 1) ++ (renderStr k ++ (':' :: ' ' :: (render (lvl + 1) x ++ (renderMore (lvl + 1) kvs ++ nl lvl)))),
      by simp [render]⟩

theorem render_arr_shape (lvl : Nat) (xs : List Json) :
    ∃ body, render lvl (.arr xs) = '[' :: (body ++ [']']) := by
  match xs with
  | [] => exact ⟨[], rfl⟩
  | x :: xs =>
    exact ⟨nl (lvl + 1) ++ (render (lvl + 1) x ++ (renderRest (lvl + 1) xs ++ nl lvl)), by simp [render]⟩

/-- A text `c0 :: (body ++ [c1])` that parses, with `c0` an opening bracket and `c1` not
whitespace: every non-empty proper prefix is a `JSONDecodeError`. -/
theorem prefix_invalid_of_shape (c0 c1 : Char) (body : Str) (v : Json) (hc0 : c0 = '{' ∨ c0 = '[')
    (hc1 : isWs c1 = false) (hparse : parse (c0 :: (body ++ [c1])) = .ok v)
    (p : Str) (hp : p <+: c0 :: (body ++ [c1])) (h0 : p ≠ []) (h1 : p ≠ c0 :: (body ++ [c1])) :
    parse p = .error .invalid := by
  obtain ⟨q, hq⟩ := hp
  cases p with
  | nil => exact absurd rfl h0
  | cons d p' =>
    have hd : d = c0 := by
      have := congrArg List.head? hq; simpa using this
    subst hd
    have hqne : q ≠ [] := by
      intro e; subst e; simp only [List.append_nil] at hq; exact h1 hq
    have hlast : ∀ c, q.getLast? = some c → isWs c = false := by
      intro c hc
      have h2 : (d :: p' ++ q).getLast? = some c := by
        rw [List.getLast?_append, hc]; rfl
      rw [hq] at h2
      have h3 : (d :: (body ++ [c1])).getLast? = some c1 := by
        rw [← List.cons_append, List.getLast?_concat]
      rw [h3] at h2
      cases h2; exact hc1
    exact prefix_invalid_of_parse d p' q v hc0 hqne hlast (by rw [hq]; exact hparse)

/-- **No non-empty proper prefix of a rendered object is JSON** — whether it ends inside a string,
an escape, a number, a literal, between members or just before the closing brace: `json.loads`
raises `JSONDecodeError` on it. -/
theorem prefix_not_json (kvs : List (Str × Json)) (h : Renderable (.obj kvs)) (p : Str)
    (hp : p <+: render 0 (.obj kvs)) (h0 : p ≠ []) (h1 : p ≠ render 0 (.obj kvs)) :
    parse p = .error .invalid := by
  obtain ⟨body, e⟩ := render_obj_shape 0 kvs
  have hparse := parse_render _ h
  rw [e] at hp h1 hparse
  exact prefix_invalid_of_shape '{' '}' body _ (Or.inl rfl) (by decide) hparse p hp h0 h1

/-- The same for a rendered array. -/
theorem prefix_not_json_arr (xs : List Json) (h : Renderable (.arr xs)) (p : Str)
    (hp : p <+: render 0 (.arr xs)) (h0 : p ≠ []) (h1 : p ≠ render 0 (.arr xs)) :
    parse p = .error .invalid := by
  obtain ⟨body, e⟩ := render_arr_shape 0 xs
  have hparse := parse_render _ h
  rw [e] at hp h1 hparse
  exact prefix_invalid_of_shape '[' ']' body _ (Or.inr rfl) (by decide) hparse p hp h0 h1

/-- The hypotheses are satisfiable: nested containers, empty containers, escapes, an astral
character, a negative and a large integer. -/
def sampleValue : Json :=
  .obj [(cs!"a", .arr [.int 1, .arr [], .obj [], .arr [.int (-20), .obj [(cs!"x", .null)]]]),
        ("é\"😀".toList, .int 100000000000000000000), (cs!"b", .bool true), ([], .str "\n\\".toList)]

example : Renderable sampleValue := ⟨by decide, by decide⟩

end AioMySensors.JsonText

namespace AioMySensors.Persist
open AioMySensors Schema JsonText

/-! ## Sorting -/

theorem insertBy_perm {κ α : Type} (lt : κ → κ → Bool) (kv : κ × α) (l : List (κ × α)) :
    (insertBy lt kv l).Perm (kv :: l) := by
  induction l with
  | nil => exact List.Perm.refl _
  | cons x xs ih =>
    simp only [insertBy]
    split
    · exact ((List.Perm.cons x ih).trans (List.Perm.swap kv x xs))
    · exact List.Perm.refl _

theorem sortBy_perm {κ α : Type} (lt : κ → κ → Bool) (l : List (κ × α)) : (sortBy lt l).Perm l := by
  induction l with
  | nil => exact List.Perm.refl _
  | cons x xs ih =>
    simp only [sortBy, List.foldr_cons]
    exact (insertBy_perm lt x _).trans (List.Perm.cons x ih)

/-- A dict whose keys are already increasing is left as it is. -/
theorem sortDict_of_sorted {α : Type} (d : PDict Int α) (h : (PDict.keys d).Pairwise (· < ·)) : sortDict d = d := by
  induction d with
  | nil => rfl
  | cons x xs ih =>
    simp only [PDict.keys, List.map_cons, List.pairwise_cons] at h
    have ih' := ih (by simpa [PDict.keys] using h.2)
    simp only [sortDict, sortBy, List.foldr_cons] at ih' ⊢
    rw [ih']
    cases xs with
    | nil => rfl
    | cons y ys =>
      have hxy : x.1 < y.1 := h.1 y.1 (by simp)
      have : intLt y.1 x.1 = false := by simp only [intLt, decide_eq_false_iff_not]; omega
      simp [insertBy, this]

theorem sortSpecs_perm (specs : List FieldSpec) : (sortSpecs specs).Perm specs := by
  have h := (sortBy_perm strLt (specs.map fun f => (f.name.toList, f))).map (·.2)
  simpa [sortSpecs, List.map_map, Function.comp_def] using h

/-! ## The schema round trip with the fields written in name order -/

/-- `loadRecord_dump` for a record dumped in another field order than the schema declares. -/
theorem loadRecord_dump_perm (specs specs' : List FieldSpec) (nested : Json → Except PyExn Child) (nd : Child → Json)
    (attr : String → Option Val) (hmem : ∀ f, f ∈ specs' ↔ f ∈ specs) (hnd : (specs'.map fkey).Nodup)
    (hreq : ∀ f ∈ specs, attr f.name = none → f.required = false)
    (hval : ∀ f ∈ specs, ∀ v, attr f.name = some v → ValOK nested nd f v) :
    loadRecord specs nested (dumped specs' attr nd) = .ok (loadedRec specs attr) := by
  have hres : ∀ f ∈ specs, fieldResult nested (dumped specs' attr nd) f = (attr f.name).map Except.ok ∧
      (attr f.name = none → f.required = false) := by
    intro f hf
    refine ⟨?_, hreq f hf⟩
    simp only [fieldResult, get?_dumped specs' attr nd hnd f ((hmem f).mpr hf)]
    cases ha : attr f.name with
    | none => rfl
    | some v => simp [loadField_dump nested nd f v (hval f hf v ha)]
  have hknown : knownKeys specs (dumped specs' attr nd) = true := by
    simp only [knownKeys, List.all_eq_true, List.any_eq_true, beq_iff_eq]
    intro kv hkv
    have := keys_dumped_subset specs' attr nd kv.1 (List.mem_map.mpr ⟨kv, hkv, rfl⟩)
    obtain ⟨f, hf, e⟩ := List.mem_map.mp this
    exact ⟨f, (hmem f).mp hf, e⟩
  simp only [loadRecord, collect_ok _ attr specs [] hres, hknown, List.nil_append, if_true]

theorem saveChildS_eq (c : Child) :
    saveChildS c = .obj (dumped (sortSpecs Gen.childSchema) (childAttr c) fun _ => .null) := rfl
theorem saveNodeS_eq (id : Int) (n : Node) :
    saveNodeS id n = .obj (dumped (sortSpecs Gen.nodeSchema) (nodeAttr id n) saveChildS) := rfl

/-- The records as they stand in the file (fields in name order, as `sort_keys` writes them). -/
theorem saveChildS_explicit (c : Child) : saveChildS c = .obj
  [(cs!"child_id", .int c.cid), (cs!"child_type", .int c.ctype), (cs!"description", .str c.desc),
   (cs!"values", .obj (c.values.map fun kv => (dec kv.1, .str kv.2)))] := rfl

theorem saveNodeS_explicit (id : Int) (n : Node) : saveNodeS id n = .obj
  [(cs!"battery_level", .int n.battery),
   (cs!"children", .obj (n.children.map fun kv => (dec kv.1, saveChildS kv.2))),
   (cs!"heartbeat", .int n.heartbeat), (cs!"node_id", .int id), (cs!"node_type", .int n.ntype),
   (cs!"protocol_version", .str n.pv), (cs!"sketch_name", .str n.sketchName), (cs!"sketch_version", .str n.sketchVersion),
   (cs!"sleeping", .bool n.sleeping)] := rfl

theorem childPreLoad_saveChildS (c : Child) : childPreLoad (saveChildS c) = .ok (saveChildS c) := rfl
theorem nodePreLoad_saveNodeS (id : Int) (n : Node) : nodePreLoad (saveNodeS id n) = .ok (saveNodeS id n) := rfl

theorem sortSpecs_names_nodup (specs : List FieldSpec) (h : (specs.map fkey).Nodup) :
    ((sortSpecs specs).map fkey).Nodup :=
  ((sortSpecs_perm specs).map fkey).nodup_iff.mpr h

theorem loadChild_saveChildS (c : Child) (h : ValuesOK c.values) : loadChild (saveChildS c) = .ok c := by
  have hrec := loadRecord_dump_perm Gen.childSchema (sortSpecs Gen.childSchema) noNested (fun _ => Json.null) (childAttr c)
    (fun f => (sortSpecs_perm _).mem_iff) (sortSpecs_names_nodup _ childSchema_names_nodup)
    (by
      intro f hf
      simp only [Gen.childSchema, List.mem_cons, List.not_mem_nil, or_false] at hf
      rcases hf with rfl | rfl | rfl | rfl <;> simp [childAttr])
    (by
      intro f hf v hv
      simp only [Gen.childSchema, List.mem_cons, List.not_mem_nil, or_false] at hf
      rcases hf with rfl | rfl | rfl | rfl <;> simp [childAttr] at hv <;> subst hv <;> simp [ValOK, inRange]
      exact ⟨h.nodup, h.keys⟩)
  simp only [loadChild, childPreLoad_saveChildS]
  rw [saveChildS_eq]
  simp only [hrec]
  rfl

theorem loadNode_saveNodeS (id : Int) (n : Node) (h : NodeOK id n) :
    loadNode (saveNodeS id n) = .ok (id, { n with reboot := false }) := by
  have hrec := loadRecord_dump_perm Gen.nodeSchema (sortSpecs Gen.nodeSchema) loadChild saveChildS (nodeAttr id n)
    (fun f => (sortSpecs_perm _).mem_iff) (sortSpecs_names_nodup _ nodeSchema_names_nodup)
    (by
      intro f hf
      simp only [Gen.nodeSchema, List.mem_cons, List.not_mem_nil, or_false] at hf
      rcases hf with rfl | rfl | rfl | rfl | rfl | rfl | rfl | rfl | rfl <;> simp [nodeAttr])
    (by
      intro f hf v hv
      simp only [Gen.nodeSchema, List.mem_cons, List.not_mem_nil, or_false] at hf
      rcases hf with rfl | rfl | rfl | rfl | rfl | rfl | rfl | rfl | rfl <;> simp [nodeAttr] at hv <;> subst hv <;>
        simp [ValOK, inRange]
      · exact ⟨h.id_lo, h.id_hi⟩
      · refine ⟨h.children_nodup, ?_, fun _ _ _ => rfl, ?_⟩
        · intro k hk
          obtain ⟨kc, hkc, rfl⟩ := List.mem_map.mp hk
          exact (h.children kc hkc).key_ok
        · intro k c hkc
          exact loadChild_saveChildS c (h.children (k, c) hkc).values
      · exact ⟨h.bat_lo, h.bat_hi⟩)
  simp only [loadNode, nodePreLoad_saveNodeS]
  rw [saveNodeS_eq]
  simp only [hrec]
  rfl

theorem loadNodes_saveS (r acc : PDict Int Node) (hnd : r.keys.Nodup) (hok : ∀ kn ∈ r, NodeOK kn.1 kn.2)
    (hdis : ∀ k ∈ r.keys, k ∉ acc.keys) :
    loadNodes acc (r.map fun kv => (dec kv.1, saveNodeS kv.1 kv.2)) = .ok (acc ++ persisted r) := by
  induction r generalizing acc with
  | nil => simp [loadNodes, persisted]
  | cons kn rest ih =>
    obtain ⟨id, n⟩ := kn
    simp only [PDict.keys, List.map_cons, List.nodup_cons, List.mem_cons, forall_eq_or_imp] at hnd hok hdis
    simp only [List.map_cons, loadNodes, loadNode_saveNodeS id n hok.1]
    rw [PDict.set_fresh _ _ _ hdis.1, ih _ hnd.2 hok.2]
    · simp [persisted]
    · intro k' hk'
      simp only [PDict.keys_append, List.mem_append, not_or]
      refine ⟨hdis.2 k' hk', ?_⟩
      simp [PDict.keys]
      intro e; subst e; exact hnd.1 hk'

/-! ## Canonical registries: the representatives `load` returns for what `save` wrote -/

/-- The three dict levels in increasing key order and no `reboot` flag set (it is not persisted).
Python compares dicts regardless of order, so every registry is `==` to a canonical one
(`canonReg`); `load` of a saved file yields the canonical one. -/
def Canon (r : PDict Int Node) : Prop :=
  (PDict.keys r).Pairwise (· < ·) ∧
  (∀ kn ∈ r, (PDict.keys kn.2.children).Pairwise (· < ·)) ∧
  (∀ kn ∈ r, ∀ kc ∈ kn.2.children, (PDict.keys kc.2.values).Pairwise (· < ·)) ∧
  ∀ kn ∈ r, kn.2.reboot = false

instance (r : PDict Int Node) : Decidable (Canon r) := by unfold Canon; infer_instance

theorem map_snd_id {α β : Type} (l : List (α × β)) (f : β → β) (h : ∀ kv ∈ l, f kv.2 = kv.2) :
    l.map (fun kv => (kv.1, f kv.2)) = l := by
  conv => rhs; rw [← List.map_id l]
  apply List.map_congr_left
  intro kv hkv
  obtain ⟨k, v⟩ := kv
  simp only [id, Prod.mk.injEq, true_and]
  exact h (k, v) hkv

theorem canonReg_of_canon (r : PDict Int Node) (h : Canon r) : canonReg r = r := by
  obtain ⟨h1, h2, h3, _⟩ := h
  have hn : r.map (fun kn => (kn.1, canonNode kn.2)) = r := by
    apply map_snd_id
    intro kn hkn
    have hc : kn.2.children.map (fun kc => (kc.1, canonChild kc.2)) = kn.2.children := by
      apply map_snd_id
      intro kc hkc
      simp only [canonChild, sortDict_of_sorted _ (h3 kn hkn kc hkc)]
    simp only [canonNode, hc, sortDict_of_sorted _ (h2 kn hkn)]
  simp only [canonReg, hn, sortDict_of_sorted _ h1]

theorem persisted_of_noReboot (r : PDict Int Node) (hr : ∀ kn ∈ r, kn.2.reboot = false) : persisted r = r := by
  simp only [persisted]
  refine map_snd_id r (fun n => { n with reboot := false }) ?_
  intro kn hkn
  have := hr kn hkn
  obtain ⟨k, n⟩ := kn
  cases n; simp_all

/-- **C13 at the level of the sorted value**: what `save` hands to `json.dumps`, in the order
`sort_keys=True` writes it, loads back to the (canonical) registry. -/
theorem load_saveSorted (r : PDict Int Node) (h : RegOK r) (hc : Canon r) : load (saveSorted r) = .ok r := by
  simp only [load, loadInto, saveSorted, canonReg_of_canon r hc, loadRaw]
  rw [loadNodes_saveS r [] h.nodup h.nodes (by simp [PDict.keys])]
  simp [mapRead, persisted_of_noReboot r hc.2.2.2]

/-! ## What `save` hands to `json.dumps` is `Renderable` -/

theorem renderable_int_iff (n : Int) : renderable (.int n) = true ↔ KeyOK n := by
  simp [renderable, KeyOK, digitCount]

theorem renderableKvs_map {α : Type} (l : List α) (g : α → Str) (f : α → Json) :
    renderableKvs (l.map fun a => (g a, f a)) = true ↔ ∀ a ∈ l, renderable (f a) = true := by
  induction l with
  | nil => simp [renderableKvs]
  | cons a l ih => simp [renderableKvs, ih]

theorem distinctKeysKvs_map {α : Type} (l : List α) (g : α → Str) (f : α → Json) :
    distinctKeysKvs (l.map fun a => (g a, f a)) = true ↔ ∀ a ∈ l, JsonText.distinctKeys (f a) = true := by
  induction l with
  | nil => simp [distinctKeysKvs]
  | cons a l ih => simp [distinctKeysKvs, ih]

theorem dec_inj {a b : Int} (ha : KeyOK a) (hb : KeyOK b) (h : dec a = dec b) : a = b := by
  have h1 := pyInt?_dec a ha
  rw [h, pyInt?_dec b hb] at h1
  exact (Option.some.inj h1).symm

theorem nodup_dec_keys {α : Type} (d : PDict Int α) (f : Int × α → Json) (h : d.keys.Nodup) (hk : ∀ k ∈ d.keys, KeyOK k) :
    ((d.map fun kv => (dec kv.1, f kv)).map (·.1)).Nodup := by
  induction d with
  | nil => simp
  | cons kv rest ih =>
    simp only [PDict.keys, List.map_cons, List.nodup_cons, List.mem_cons, forall_eq_or_imp] at h hk
    simp only [List.map_cons, List.nodup_cons, List.map_map]
    refine ⟨?_, by simpa [List.map_map] using ih h.2 hk.2⟩
    intro hm
    obtain ⟨kv', hkv', e⟩ := List.mem_map.mp hm
    have hk' : KeyOK kv'.1 := hk.2 kv'.1 (List.mem_map.mpr ⟨kv', hkv', rfl⟩)
    have := dec_inj hk' hk.1 e
    exact h.1 (this ▸ List.mem_map.mpr ⟨kv', hkv', rfl⟩)

theorem keyOK_small (n : Int) (h : n.natAbs < 1000) : KeyOK n :=
  Nat.le_trans (digitCount_le_of_lt (k := 3) (by decide) h) (by decide)

theorem renderable_saveChildS (c : Child) (hi : childIntsOK c = true) : renderable (saveChildS c) = true := by
  simp only [childIntsOK, Bool.and_eq_true, intOK_iff] at hi
  rw [saveChildS_explicit]
  simp only [renderable, renderableKvs, renderableKvs_map, Bool.and_eq_true, decide_eq_true_eq, and_true, implies_true]
  exact ⟨hi.1, hi.2⟩

theorem distinct_saveChildS (c : Child) (h : ValuesOK c.values) : JsonText.distinctKeys (saveChildS c) = true := by
  rw [saveChildS_explicit]
  simp only [JsonText.distinctKeys, distinctKeysKvs, distinctKeysKvs_map, Bool.and_eq_true, decide_eq_true_eq, and_true,
    implies_true, true_and]
  exact ⟨by simp only [List.map_cons, List.map_nil]; decide, nodup_dec_keys c.values _ h.nodup h.keys⟩

theorem renderable_saveNodeS (id : Int) (n : Node) (h : NodeOK id n) (hi : nodeIntsOK n = true) :
    renderable (saveNodeS id n) = true := by
  simp only [nodeIntsOK, Bool.and_eq_true, intOK_iff, List.all_eq_true] at hi
  have hid : KeyOK id := keyOK_small id (by
    have h1 := h.id_lo; have h2 := h.id_hi
    have e1 : Gen.nodeIdMin = 0 := rfl
    have e2 : Gen.nodeIdMax = 255 := rfl
    omega)
  have hbat : KeyOK n.battery := keyOK_small _ (by
    have h1 := h.bat_lo; have h2 := h.bat_hi
    have e1 : Gen.minBattery = 0 := rfl
    have e2 : Gen.maxBattery = 100 := rfl
    omega)
  rw [saveNodeS_explicit]
  simp only [renderable, renderableKvs, renderableKvs_map, Bool.and_eq_true, decide_eq_true_eq, and_true]
  exact ⟨hbat, fun kc hkc => renderable_saveChildS kc.2 (hi.2 kc hkc), hi.1.2, hid, hi.1.1⟩

theorem distinct_saveNodeS (id : Int) (n : Node) (h : NodeOK id n) : JsonText.distinctKeys (saveNodeS id n) = true := by
  rw [saveNodeS_explicit]
  simp only [JsonText.distinctKeys, distinctKeysKvs, distinctKeysKvs_map, Bool.and_eq_true, decide_eq_true_eq, and_true, true_and]
  refine ⟨by simp only [List.map_cons, List.map_nil]; decide, ?_, fun kc hkc => distinct_saveChildS kc.2 (h.children kc hkc).values⟩
  exact nodup_dec_keys n.children _ h.children_nodup (fun k hk => by
    obtain ⟨kc, hkc, rfl⟩ := List.mem_map.mp hk
    exact (h.children kc hkc).key_ok)

/-- The value `save` hands to `json.dumps` is in the rendered fragment: every integer printable
(keys, id and battery level by `RegOK`, the other integer attributes by `regIntsOK`), no key twice. -/
theorem renderable_saveSorted (r : PDict Int Node) (h : RegOK r) (hi : regIntsOK r = true) (hc : Canon r) :
    Renderable (saveSorted r) := by
  simp only [regIntsOK, List.all_eq_true] at hi
  simp only [saveSorted, canonReg_of_canon r hc]
  constructor
  · simp only [renderable, renderableKvs_map]
    exact fun kn hkn => renderable_saveNodeS kn.1 kn.2 (h.nodes kn hkn) (hi kn hkn)
  · simp only [JsonText.distinctKeys, distinctKeysKvs_map, Bool.and_eq_true, decide_eq_true_eq]
    refine ⟨?_, fun kn hkn => distinct_saveNodeS kn.1 kn.2 (h.nodes kn hkn)⟩
    exact nodup_dec_keys r _ h.nodup (fun k hk => by
      obtain ⟨kn, hkn, rfl⟩ := List.mem_map.mp hk
      have hn := h.nodes kn hkn
      exact keyOK_small _ (by
        have h1 := hn.id_lo; have h2 := hn.id_hi
        have e1 : Gen.nodeIdMin = 0 := rfl
        have e2 : Gen.nodeIdMax = 255 := rfl
        omega))

/-- **Text-level round trip**: the text `save` writes parses to the value `save` handed over, and
`load` of that value is the registry. -/
theorem parse_saveText (r : PDict Int Node) (h : RegOK r) (hi : regIntsOK r = true) (hc : Canon r) :
    parse (saveText r) = .ok (saveSorted r) :=
  parse_render _ (renderable_saveSorted r h hi hc)

theorem saveText_shape (r : PDict Int Node) : ∃ body, saveText r = '{' :: (body ++ ['}']) :=
  render_obj_shape 0 _

/-- The first `try` block of `load` on a saved file: the bytes decode, the text is not empty, and
`json.loads` yields the value `save` handed to `json.dumps`. -/
theorem classify_saveBytes (r : PDict Int Node) (h : RegOK r) (hi : regIntsOK r = true) (hc : Canon r) :
    classify (saveBytes r) = some (.value (saveSorted r)) := by
  obtain ⟨body, e⟩ := saveText_shape r
  have hp := parse_saveText r h hi hc
  have hdec := decodeUtf8_encode_ascii (saveText r) (render_ascii 0 _)
  rw [e] at hp hdec
  simp only [classify, saveBytes, e, hdec, hp]

/-! ## Registries in any insertion order

`save` writes every registry in key order: the file of `r` is the file of its canonical
representative `canonOf r` (same nodes, children and values — the same Python dicts —, keys in
increasing order, `reboot` cleared), and that is what `load` returns. -/

theorem mem_sortDict {α : Type} {d : PDict Int α} {kv : Int × α} : kv ∈ sortDict d ↔ kv ∈ d :=
  (sortBy_perm intLt d).mem_iff

theorem keys_sortDict_perm {α : Type} (d : PDict Int α) : (PDict.keys (sortDict d)).Perm (PDict.keys d) :=
  (sortBy_perm intLt d).map _

theorem mem_keys_insertBy {α : Type} (kv : Int × α) (l : PDict Int α) (k : Int) :
    k ∈ PDict.keys (insertBy intLt kv l) ↔ k = kv.1 ∨ k ∈ PDict.keys l := by
  have := ((insertBy_perm intLt kv l).map (·.1)).mem_iff (a := k)
  simpa [PDict.keys] using this

theorem insertBy_sorted {α : Type} (kv : Int × α) (l : PDict Int α) (hs : (PDict.keys l).Pairwise (· < ·))
    (hk : kv.1 ∉ PDict.keys l) : (PDict.keys (insertBy intLt kv l)).Pairwise (· < ·) := by
  induction l with
  | nil => simp [insertBy, PDict.keys]
  | cons x xs ih =>
    simp only [PDict.keys, List.map_cons, List.pairwise_cons, List.mem_cons, not_or] at hs hk
    simp only [insertBy, intLt]
    by_cases hlt : x.1 < kv.1
    · simp only [hlt, decide_true, if_true]
      show (x.1 :: PDict.keys (insertBy intLt kv xs)).Pairwise (· < ·)
      rw [List.pairwise_cons]
      refine ⟨?_, ih hs.2 hk.2⟩
      intro k hkm
      rcases (mem_keys_insertBy kv xs k).mp hkm with rfl | hm
      · exact hlt
      · exact hs.1 k hm
    · simp only [hlt, decide_false, Bool.false_eq_true, if_false]
      show (kv.1 :: x.1 :: PDict.keys xs).Pairwise (· < ·)
      have hlt' : kv.1 < x.1 := by have := hk.1; omega
      rw [List.pairwise_cons, List.pairwise_cons]
      refine ⟨?_, hs.1, hs.2⟩
      intro k hkm
      rcases List.mem_cons.mp hkm with rfl | hm
      · exact hlt'
      · exact Int.lt_trans hlt' (hs.1 k hm)

/-- Sorting a dict (no key twice) puts its keys in increasing order. -/
theorem sortDict_sorted {α : Type} (d : PDict Int α) (h : (PDict.keys d).Nodup) :
    (PDict.keys (sortDict d)).Pairwise (· < ·) := by
  induction d with
  | nil => simp [sortDict, sortBy, PDict.keys]
  | cons x xs ih =>
    simp only [PDict.keys, List.map_cons, List.nodup_cons] at h
    simp only [sortDict, sortBy, List.foldr_cons]
    apply insertBy_sorted
    · exact ih h.2
    · intro hm
      exact h.1 ((keys_sortDict_perm xs).mem_iff.mp hm)

theorem valuesOK_sortDict (vs : PDict Int Str) (h : ValuesOK vs) : ValuesOK (sortDict vs) :=
  ⟨(keys_sortDict_perm vs).nodup_iff.mpr h.nodup, fun k hk => h.keys k ((keys_sortDict_perm vs).mem_iff.mp hk)⟩

theorem keys_map_snd {α β : Type} (d : PDict Int α) (f : α → β) :
    PDict.keys (d.map fun kv => (kv.1, f kv.2)) = PDict.keys d := by
  simp [PDict.keys, List.map_map, Function.comp_def]

theorem nodeOK_canonNode (id : Int) (n : Node) (h : NodeOK id n) : NodeOK id (canonNode n) := by
  refine ⟨h.id_lo, h.id_hi, h.bat_lo, h.bat_hi, ?_, ?_⟩
  · simp only [canonNode]
    exact (keys_sortDict_perm _).nodup_iff.mpr (by rw [keys_map_snd]; exact h.children_nodup)
  · intro kc hkc
    simp only [canonNode] at hkc
    obtain ⟨kc0, hkc0, rfl⟩ := List.mem_map.mp (mem_sortDict.mp hkc)
    have := h.children kc0 hkc0
    exact ⟨this.key_ok, valuesOK_sortDict _ this.values⟩

theorem regOK_canonReg (r : PDict Int Node) (h : RegOK r) : RegOK (canonReg r) := by
  refine ⟨?_, ?_⟩
  · simp only [canonReg]
    exact (keys_sortDict_perm _).nodup_iff.mpr (by rw [keys_map_snd]; exact h.nodup)
  · intro kn hkn
    simp only [canonReg] at hkn
    obtain ⟨kn0, hkn0, rfl⟩ := List.mem_map.mp (mem_sortDict.mp hkn)
    exact nodeOK_canonNode _ _ (h.nodes kn0 hkn0)

theorem regIntsOK_canonReg (r : PDict Int Node) (h : regIntsOK r = true) : regIntsOK (canonReg r) = true := by
  simp only [regIntsOK, List.all_eq_true] at h ⊢
  intro kn hkn
  simp only [canonReg] at hkn
  obtain ⟨kn0, hkn0, rfl⟩ := List.mem_map.mp (mem_sortDict.mp hkn)
  have := h kn0 hkn0
  simp only [nodeIntsOK, Bool.and_eq_true, List.all_eq_true] at this ⊢
  refine ⟨this.1, ?_⟩
  intro kc hkc
  simp only [canonNode] at hkc
  obtain ⟨kc0, hkc0, rfl⟩ := List.mem_map.mp (mem_sortDict.mp hkc)
  exact this.2 kc0 hkc0

/-- The canonical representative of a registry: the same dicts in key order, `reboot` cleared. -/
def canonOf (r : PDict Int Node) : PDict Int Node := persisted (canonReg r)

theorem canon_canonOf (r : PDict Int Node) (h : RegOK r) : Canon (canonOf r) := by
  have hmem : ∀ kn ∈ canonOf r, ∃ kn0 ∈ r, kn = (kn0.1, { canonNode kn0.2 with reboot := false }) := by
    intro kn hkn
    simp only [canonOf, persisted, canonReg] at hkn
    obtain ⟨kn1, hkn1, rfl⟩ := List.mem_map.mp hkn
    obtain ⟨kn0, hkn0, rfl⟩ := List.mem_map.mp (mem_sortDict.mp hkn1)
    exact ⟨kn0, hkn0, rfl⟩
  refine ⟨?_, ?_, ?_, ?_⟩
  · rw [canonOf, keys_persisted]
    simp only [canonReg]
    exact sortDict_sorted _ (by rw [keys_map_snd]; exact h.nodup)
  · intro kn hkn
    obtain ⟨kn0, hkn0, rfl⟩ := hmem kn hkn
    simp only [canonNode]
    exact sortDict_sorted _ (by rw [keys_map_snd]; exact (h.nodes kn0 hkn0).children_nodup)
  · intro kn hkn kc hkc
    obtain ⟨kn0, hkn0, rfl⟩ := hmem kn hkn
    simp only [canonNode] at hkc
    obtain ⟨kc0, hkc0, rfl⟩ := List.mem_map.mp (mem_sortDict.mp hkc)
    simp only [canonChild]
    exact sortDict_sorted _ ((h.nodes kn0 hkn0).children kc0 hkc0).values.nodup
  · intro kn hkn
    obtain ⟨kn0, _, rfl⟩ := hmem kn hkn
    rfl

/-- The canonical representative holds the same nodes, children and values (as Python dicts, which
compare regardless of order, it is the same registry up to the `reboot` flag). -/
theorem canonReg_perm (r : PDict Int Node) : (canonReg r).Perm (r.map fun kn => (kn.1, canonNode kn.2)) :=
  sortBy_perm intLt _

theorem canonNode_children_perm (n : Node) :
    (canonNode n).children.Perm (n.children.map fun kc => (kc.1, canonChild kc.2)) :=
  sortBy_perm intLt _

theorem canonChild_values_perm (c : Child) : (canonChild c).values.Perm c.values := sortBy_perm intLt _

theorem saveNodeS_persisted (id : Int) (n : Node) : saveNodeS id { n with reboot := false } = saveNodeS id n := rfl

/-- Saving a registry writes the file of its canonical representative. -/
theorem saveSorted_canonOf (r : PDict Int Node) (h : RegOK r) : saveSorted (canonOf r) = saveSorted r := by
  have hc := canonReg_of_canon _ (canon_canonOf r h)
  simp only [saveSorted, hc]
  simp only [canonOf, persisted, List.map_map, Function.comp_def, saveNodeS_persisted]

theorem saveBytes_canonOf (r : PDict Int Node) (h : RegOK r) : saveBytes (canonOf r) = saveBytes r := by
  simp only [saveBytes, saveText, saveSorted_canonOf r h]

theorem regOK_persisted (r : PDict Int Node) (h : RegOK r) : RegOK (persisted r) := by
  refine ⟨by rw [keys_persisted]; exact h.nodup, ?_⟩
  intro kn hkn
  simp only [persisted] at hkn
  obtain ⟨kn0, hkn0, rfl⟩ := List.mem_map.mp hkn
  have := h.nodes kn0 hkn0
  exact ⟨this.id_lo, this.id_hi, this.bat_lo, this.bat_hi, this.children_nodup, this.children⟩

theorem regOK_canonOf (r : PDict Int Node) (h : RegOK r) : RegOK (canonOf r) :=
  regOK_persisted _ (regOK_canonReg r h)

theorem regIntsOK_canonOf (r : PDict Int Node) (h : regIntsOK r = true) : regIntsOK (canonOf r) = true := by
  have := regIntsOK_canonReg r h
  simp only [regIntsOK, List.all_eq_true] at this ⊢
  intro kn hkn
  simp only [canonOf, persisted] at hkn
  obtain ⟨kn0, hkn0, rfl⟩ := List.mem_map.mp hkn
  exact this kn0 hkn0

/-- **Round trip through the text for a registry in any order**: the text parses to the value
handed to `json.dumps`, whose load is the canonical representative. -/
theorem text_round_trip_any (r : PDict Int Node) (h : RegOK r) (hi : regIntsOK r = true) :
    parse (saveText r) = .ok (saveSorted r) ∧ load (saveSorted r) = .ok (canonOf r) := by
  have hc := canon_canonOf r h
  have h1 := parse_saveText (canonOf r) (regOK_canonOf r h) (regIntsOK_canonOf r hi) hc
  have h2 := load_saveSorted (canonOf r) (regOK_canonOf r h) hc
  simp only [saveText, saveSorted_canonOf r h] at h1 h2
  exact ⟨h1, h2⟩

end AioMySensors.Persist
