/-
Two judgements about computations in `M`, with one lemma per combinator:

* `Rel R x` — whatever the outcome, `x` takes the world from `w` to some `w'` with `R w w'`
  (`R` reflexive and transitive).  Used for state invariants (`R w w' := I w.st → I w'.st`) and
  frame properties (`R w w' := w'.st.sbuf ⊆ w.st.sbuf`, `w'.st.pv = w.st.pv`, …).
* `Safe I x` — from a state satisfying `I`, `x` never ends in a `foreign` exception and ends in a
  state satisfying `I`.
-/
import AioMySensors.Model.Handlers

namespace AioMySensors
open M

/-- A reflexive, transitive relation on worlds. -/
structure PreO (R : W → W → Prop) : Prop where
  refl : ∀ w, R w w
  trans : ∀ {a b c}, R a b → R b c → R a c

/-- `x` only makes `R`-steps, whatever its outcome. -/
structure Rel (R : W → W → Prop) (x : M α) : Prop where
  step : ∀ w, R w (x w).2

namespace Rel
variable {R : W → W → Prop}

theorem pure (h : PreO R) (a : α) : Rel R (M.pure a) := ⟨fun w => h.refl w⟩
theorem raise (h : PreO R) (e : Exn) : Rel R (M.raise e : M α) := ⟨fun w => h.refl w⟩
theorem getSt (h : PreO R) : Rel R M.getSt := ⟨fun w => h.refl w⟩

theorem bind (h : PreO R) {x : M α} {f : α → M β} (hx : Rel R x) (hf : ∀ a, Rel R (f a)) :
    Rel R (M.bind x f) := ⟨fun w => by
  have h1 := hx.step w
  simp only [M.bind]
  cases hxw : x w with
  | mk r w' =>
    rw [hxw] at h1
    cases r with
    | ok a => exact h.trans h1 ((hf a).step w')
    | error e => exact h1⟩

theorem seq (h : PreO R) {x : M Unit} {y : M β} (hx : Rel R x) (hy : Rel R y) : Rel R (M.seq x y) :=
  bind h hx fun _ => hy

/-- Reading the state: the continuation may assume it runs in the state it was given. -/
theorem bind_getSt (_h : PreO R) {f : St → M β} (hf : ∀ w : W, R w (f w.st w).2) :
    Rel R (M.bind M.getSt f) := ⟨fun w => by simpa [M.bind, M.getSt] using hf w⟩

theorem tryFinally (h : PreO R) {x : M α} {fin : Except Exn α → M Unit} (hx : Rel R x)
    (hf : ∀ r, Rel R (fin r)) : Rel R (M.tryFinally x fin) := ⟨fun w => by
  have h1 := hx.step w
  simp only [M.tryFinally]
  cases hxw : x w with
  | mk r w' =>
    rw [hxw] at h1
    have h2 := (hf r).step w'
    cases hfw : fin r w' with
    | mk r2 w'' =>
      rw [hfw] at h2
      cases r2 with
      | ok u => exact h.trans h1 h2
      | error e => exact h.trans h1 h2⟩

theorem tryCatch (h : PreO R) {x : M α} {k : Exn → Option (M α)} (hx : Rel R x)
    (hk : ∀ e y, k e = some y → Rel R y) : Rel R (M.tryCatch x k) := ⟨fun w => by
  have h1 := hx.step w
  simp only [M.tryCatch]
  cases hxw : x w with
  | mk r w' =>
    rw [hxw] at h1
    cases r with
    | ok a => exact h1
    | error e =>
      cases hke : k e with
      | none => simpa [hke] using h1
      | some y => simpa [hke] using h.trans h1 ((hk e y hke).step w')⟩

theorem convertExn (h : PreO R) (classes : List PyExn) (e : LibErr) (x : Except PyExn α) :
    Rel R (AioMySensors.convertExn classes e x) := ⟨fun w => by
  unfold AioMySensors.convertExn
  cases x with
  | ok a => exact h.refl w
  | error c =>
    simp only []
    split <;> exact h.refl w⟩

end Rel

/-- The relation "writes and the fault schedule may change, the state satisfies `S`". -/
def OnSt (S : St → St → Prop) : W → W → Prop := fun w w' => S w.st w'.st

theorem OnSt.preO {S : St → St → Prop} (hr : ∀ s, S s s) (ht : ∀ {a b c}, S a b → S b c → S a c) :
    PreO (OnSt S) := ⟨fun w => hr w.st, fun h1 h2 => ht h1 h2⟩

theorem Rel.transportWrite {S : St → St → Prop} (hr : ∀ s, S s s) (line : Str) :
    Rel (OnSt S) (M.transportWrite line) := ⟨fun w => by
  simp only [M.transportWrite, OnSt]
  split <;> exact hr _⟩

theorem Rel.modifySt {S : St → St → Prop} (f : St → St) (hf : ∀ s, S s (f s)) :
    Rel (OnSt S) (M.modifySt f) := ⟨fun w => by simpa [M.modifySt, OnSt] using hf w.st⟩

/-- The only non-library exception is the cancellation injected at a write by the fault schedule
(`Fault.cancel`: the task was cancelled while it waited there), the invariant survives, and the
fault schedule is only ever consumed from the front. -/
structure Safe (I : St → Prop) (x : M α) : Prop where
  run : ∀ w, I w.st →
    (∀ c, (x w).1 = .error (.foreign c) → c = .CancelledError ∧ Fault.cancel ∈ w.faults) ∧
    I (x w).2.st ∧ (x w).2.faults <:+ w.faults

namespace Safe
variable {I : St → Prop}

theorem pure (a : α) : Safe I (M.pure a) := ⟨fun w hw => ⟨fun c => by simp [M.pure], hw, List.suffix_refl _⟩⟩
theorem raiseLib (e : LibErr) : Safe I (M.raise (.lib e) : M α) :=
  ⟨fun w hw => ⟨fun c => by simp [M.raise], hw, List.suffix_refl _⟩⟩
theorem getSt : Safe I M.getSt := ⟨fun w hw => ⟨fun c => by simp [M.getSt], hw, List.suffix_refl _⟩⟩

theorem bind {x : M α} {f : α → M β} (hx : Safe I x) (hf : ∀ a, Safe I (f a)) : Safe I (M.bind x f) :=
  ⟨fun w hw => by
    have h1 := hx.run w hw
    simp only [M.bind]
    cases hxw : x w with
    | mk r w' =>
      rw [hxw] at h1
      cases r with
      | ok a =>
        have h2 := (hf a).run w' h1.2.1
        exact ⟨fun c hc => ⟨(h2.1 c hc).1, h1.2.2.subset (h2.1 c hc).2⟩, h2.2.1, h2.2.2.trans h1.2.2⟩
      | error e => exact ⟨fun c hc => h1.1 c (by simpa using hc), h1.2.1, h1.2.2⟩⟩

theorem seq {x : M Unit} {y : M β} (hx : Safe I x) (hy : Safe I y) : Safe I (M.seq x y) :=
  bind hx fun _ => hy

theorem bind_getSt {f : St → M β} (hf : ∀ s, I s → Safe I (f s)) : Safe I (M.bind M.getSt f) :=
  ⟨fun w hw => by simpa [M.bind, M.getSt] using (hf w.st hw).run w hw⟩

theorem tryFinally {x : M α} {fin : Except Exn α → M Unit} (hx : Safe I x) (hf : ∀ r, Safe I (fin r)) :
    Safe I (M.tryFinally x fin) := ⟨fun w hw => by
  have h1 := hx.run w hw
  simp only [M.tryFinally]
  cases hxw : x w with
  | mk r w' =>
    rw [hxw] at h1
    have h2 := (hf r).run w' h1.2.1
    cases hfw : fin r w' with
    | mk r2 w'' =>
      rw [hfw] at h2
      cases r2 with
      | ok u => exact ⟨h1.1, h2.2.1, h2.2.2.trans h1.2.2⟩
      | error e =>
        exact ⟨fun c hc => ⟨(h2.1 c (by simpa using hc)).1, h1.2.2.subset (h2.1 c (by simpa using hc)).2⟩,
          h2.2.1, h2.2.2.trans h1.2.2⟩⟩

theorem tryCatch {x : M α} {k : Exn → Option (M α)} (hx : Safe I x) (hk : ∀ e y, k e = some y → Safe I y) :
    Safe I (M.tryCatch x k) := ⟨fun w hw => by
  have h1 := hx.run w hw
  simp only [M.tryCatch]
  cases hxw : x w with
  | mk r w' =>
    rw [hxw] at h1
    cases r with
    | ok a => exact ⟨fun c => by simp, h1.2.1, h1.2.2⟩
    | error e =>
      cases hke : k e with
      | none => simpa [hke] using h1
      | some y =>
        have h2 := (hk e y hke).run w' h1.2.1
        simp only [hke]
        exact ⟨fun c hc => ⟨(h2.1 c hc).1, h1.2.2.subset (h2.1 c hc).2⟩, h2.2.1, h2.2.2.trans h1.2.2⟩⟩

theorem transportWrite (line : Str) : Safe I (M.transportWrite line) := ⟨fun w hw => by
  simp only [M.transportWrite]
  split
  · next rest h => exact ⟨fun c => by simp, hw, by simp [h]⟩
  · next rest h =>
    refine ⟨fun c hc => ?_, hw, by simp [h]⟩
    simp only [Except.error.injEq, Exn.foreign.injEq] at hc
    exact ⟨hc.symm, by simp [h]⟩
  · next rest h => exact ⟨fun c => by simp, hw, by simp [h]⟩
  · exact ⟨fun c => by simp, hw, List.suffix_refl _⟩⟩

theorem modifySt (f : St → St) (hf : ∀ s, I s → I (f s)) : Safe I (M.modifySt f) :=
  ⟨fun w hw => ⟨fun c => by simp [M.modifySt], by simpa [M.modifySt] using hf w.st hw, List.suffix_refl _⟩⟩

/-- A conversion is safe when the except clause catches everything the conversion can raise. -/
theorem convertExn (classes : List PyExn) (e : LibErr) (x : Except PyExn α)
    (h : ∀ c, x = .error c → pyCaught c classes = true) : Safe I (AioMySensors.convertExn classes e x) :=
  ⟨fun w hw => by
    unfold AioMySensors.convertExn
    cases x with
    | ok a => exact ⟨fun c => by simp [M.pure], hw, List.suffix_refl _⟩
    | error c => simp only [h c rfl, if_true]; exact ⟨fun c => by simp [M.raise], hw, List.suffix_refl _⟩⟩

/-- Without a cancellation in the schedule there is no non-library exception at all. -/
theorem no_foreign {x : M α} (hx : Safe I x) (w : W) (hw : I w.st) (hc : Fault.cancel ∉ w.faults) (c : PyExn) :
    (x w).1 ≠ .error (.foreign c) := fun h => hc ((hx.run w hw).1 c h).2

end Safe

end AioMySensors
