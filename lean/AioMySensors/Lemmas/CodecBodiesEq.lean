/-
The tie between the generated validators of the decoder (`Generated/CodecBodies.lean`, written by
`tools/translate.py` from `model/message.py` of the working tree on every run of C01 / C02) and the hand-written
`decode` of `Model/Codec.lean` that every codec and gateway theorem speaks about.

`loadGen_eq : GenCodec.loadGen v line = .ok (decode v line)` says two things at once: `MessageSchema.load`, assembled
from the translated validators and marshmallow's field pipeline, accepts exactly what `decode` accepts with exactly
the decoded values — and **no exception other than `ValidationError` ever leaves it** (the `.ok`), for every string and
every version.  The second half is C02's "never by any other kind of failure", which the `Option`-valued `decode`
cannot express by itself; defect F2 (truncated lines escaping as `KeyError`) was a violation of exactly this.
-/
import AioMySensors.Generated.CodecBodies
import AioMySensors.Lemmas.Text

set_option linter.unusedSimpArgs false

namespace AioMySensors.CodecBodiesEq
open AioMySensors LC

theorem validate_command_eq (s : Str) :
    GenCodec.validate_command s = match pyInt? s with | some n => .ok n | none => .error .validation := by
  have h : pyCaught .ValueError [.ValueError] = true := by decide
  cases hp : pyInt? s <;> simp [GenCodec.validate_command, LC.bind, LC.catchV, LC.pyIntC, hp, h]

theorem validate_message_type_eq (s : Str) :
    GenCodec.validate_message_type s = match pyInt? s with | some n => .ok n | none => .error .validation := by
  have h : pyCaught .ValueError [.ValueError] = true := by decide
  cases hp : pyInt? s <;> simp [GenCodec.validate_message_type, LC.bind, LC.catchV, LC.pyIntC, hp, h]

/-- The six field names, as generated. -/
theorem fields_eq : Gen.messageFields = ["node_id", "child_id", "command", "ack", "message_type", "payload"] := rfl

/-- `validate_child_id` on a dict that holds `command` and `message_type`. -/
theorem validate_child_id_full (v : Ver) (value f2 f4 : Str) (d : Data)
    (h2 : d.lookup "command" = some f2) (h4 : d.lookup "message_type" = some f4) :
    GenCodec.validate_child_id v value d =
      match pyInt? value, pyInt? f2, pyInt? f4 with
      | some child, some cmd, some type => if childIdOK v child cmd type then .ok child else .error .validation
      | _, _, _ => .error .validation := by
  have hv : pyCaught .ValueError [.ValueError] = true := by decide
  have hk : pyCaught .KeyError [.KeyError] = true := by decide
  cases hc : pyInt? value with
  | none => simp [GenCodec.validate_child_id, LC.bind, LC.catchV, LC.pyIntC, hc, hv]
  | some child =>
    cases hcmd : pyInt? f2 with
    | none =>
      by_cases hr : 0 ≤ child ∧ child ≤ 255 <;>
      simp [GenCodec.validate_child_id, LC.bind, LC.seq, LC.catchV, LC.pyIntC, LC.rangeV, LC.dataAt, hc, hv, hr, h2, h4,
        validate_command_eq, hcmd]
    | some cmd =>
      cases hty : pyInt? f4 with
      | none =>
        by_cases hr : 0 ≤ child ∧ child ≤ 255 <;>
        simp [GenCodec.validate_child_id, LC.bind, LC.seq, LC.catchV, LC.pyIntC, LC.rangeV, LC.dataAt, hc, hv, hr, h2, h4,
          validate_command_eq, validate_message_type_eq, hcmd, hty]
      | some type =>
        by_cases hr : 0 ≤ child ∧ child ≤ 255
        · have h0 : (0 : Int) ≤ child := hr.1
          have h1 : child ≤ (255 : Int) := hr.2
          simp only [GenCodec.validate_child_id, LC.bind, LC.seq, LC.catchV, LC.pyIntC, LC.rangeV, LC.dataAt, hc, hv, hr, h2, h4,
            validate_command_eq, validate_message_type_eq, hcmd, hty, childIdOK, Gen.systemChildId]
          simp only [h0, h1, and_self, if_true, decide_true, Bool.true_and]
          -- the two conditions may be spelled with their operands or conjuncts exchanged: split on the four atomic
          -- facts and give simp each in both orientations
          have flip : ∀ a b : Int, ¬ a = b → ¬ b = a := fun _ _ h h' => h h'.symm
          by_cases e2 : type ∈ Gen.nodeIdRequestTypes v <;> by_cases e3 : cmd ∈ Gen.strictSystemCommands v <;>
            by_cases e4 : child = 255 <;> by_cases e1 : cmd = Gen.internalCommand v
          all_goals
            have e2c : (Gen.nodeIdRequestTypes v).contains type = decide (type ∈ Gen.nodeIdRequestTypes v) := by simp
            have e3c : (Gen.strictSystemCommands v).contains cmd = decide (cmd ∈ Gen.strictSystemCommands v) := by simp
            first
              | (subst e1; subst e4; simp [e2, e3, e2c, e3c]; done)
              | (subst e1; simp [e2, e3, e4, flip _ _ e4, e2c, e3c]; done)
              | (subst e4; simp [e1, flip _ _ e1, e2, e3, e2c, e3c]; done)
              | (simp [e1, flip _ _ e1, e2, e3, e4, flip _ _ e4, e2c, e3c]; done)
        · have hok : childIdOK v child cmd type = false := by
            rcases (by omega : child < 0 ∨ 255 < child) with h | h
            · simp [childIdOK, Gen.systemChildId, show ¬ (0 : Int) ≤ child by omega]
            · simp [childIdOK, Gen.systemChildId, show ¬ child ≤ (255 : Int) by omega]
          simp [GenCodec.validate_child_id, LC.bind, LC.seq, LC.catchV, LC.pyIntC, LC.rangeV, hc, hv, hr, hok]

/-- … on a dict without `message_type` (a truncated line): always the `ValidationError` (this is the guard whose
absence was defect F2). -/
theorem validate_child_id_no_type (v : Ver) (value : Str) (d : Data) (h4 : d.lookup "message_type" = none) :
    GenCodec.validate_child_id v value d = .error .validation := by
  have hv : pyCaught .ValueError [.ValueError] = true := by decide
  have hk : pyCaught .KeyError [.KeyError] = true := by decide
  cases hc : pyInt? value with
  | none => simp [GenCodec.validate_child_id, LC.bind, LC.catchV, LC.pyIntC, hc, hv]
  | some child =>
    by_cases hr : 0 ≤ child ∧ child ≤ 255 <;> cases h2 : d.lookup "command" <;>
      simp [GenCodec.validate_child_id, LC.bind, LC.seq, LC.catchV, LC.pyIntC, LC.rangeV, LC.dataAt, hc, hv, hk, hr, h2, h4]

/-- `CommandField.validate_command` on a dict that holds `child_id` but no `message_type`. -/
theorem command_no_type (v : Ver) (value f1 : Str) (d : Data) (h1 : d.lookup "child_id" = some f1)
    (h4 : d.lookup "message_type" = none) :
    GenCodec.CommandField_validate_command v value d = .error .validation := by
  cases hp : pyInt? value <;>
    simp [GenCodec.CommandField_validate_command, LC.bind, LC.dataAt, validate_command_eq, hp, h1,
      validate_child_id_no_type v f1 d h4]

/-- `CommandField.validate_command` on a complete dict. -/
theorem command_full (v : Ver) (value f1 f2 f4 : Str) (d : Data) (h1 : d.lookup "child_id" = some f1)
    (h2 : d.lookup "command" = some f2) (h4 : d.lookup "message_type" = some f4) :
    GenCodec.CommandField_validate_command v value d =
      match pyInt? value, pyInt? f1, pyInt? f2, pyInt? f4 with
      | some c, some child, some cmd, some type =>
        if childIdOK v child cmd type && commandOK v child c then .ok c else .error .validation
      | _, _, _, _ => .error .validation := by
  cases hp : pyInt? value with
  | none => simp [GenCodec.CommandField_validate_command, LC.bind, validate_command_eq, hp]
  | some c =>
    cases hc : pyInt? f1 <;> cases hcmd : pyInt? f2 <;> cases hty : pyInt? f4 <;>
      simp [GenCodec.CommandField_validate_command, LC.bind, LC.dataAt, validate_command_eq, hp, h1,
        validate_child_id_full v f1 f2 f4 d h2 h4, hc, hcmd, hty]
    rename_i child cmd type
    cases hok : childIdOK v child cmd type <;> simp [hok, commandOK, Gen.systemChildId]
    by_cases h255 : child = 255 <;> simp [h255]

theorem maxsplit_eq : Gen.messageFields.length - 1 = 5 := by decide

theorem split_le_six (line : Str) : (splitN Gen.delimiter 5 (rstrip line)).length ≤ 6 := by
  rw [splitN_length]; omega

/-- A `fields.Int` field never raises anything but `ValidationError`. -/
theorem required_intField (d : Data) (k : String) (chk : Int → Bool) :
    LC.required d k (LC.intField chk) =
      .ok ((d.lookup k).bind fun raw => (pyInt? raw).bind fun n => if chk n then some n else none) := by
  cases h : d.lookup k with
  | none => simp [LC.required, h]
  | some raw =>
    cases hp : pyInt? raw with
    | none => simp [LC.required, LC.fieldOf, LC.intField, h, hp]
    | some n => cases hc : chk n <;> simp [LC.required, LC.fieldOf, LC.intField, h, hp, hc]

theorem required_str (d : Data) (k : String) :
    LC.required d k (fun raw => (.ok raw : LC.CM Str)) = .ok (d.lookup k) := by
  cases h : d.lookup k <;> simp [LC.required, LC.fieldOf, h]

theorem required_missing {α : Type} (d : Data) (k : String) (f : Str → LC.CM α) (h : d.lookup k = none) :
    LC.required d k f = .ok none := by simp [LC.required, h]

theorem required_validation {α : Type} (d : Data) (k : String) (f : Str → LC.CM α) (raw : Str)
    (h : d.lookup k = some raw) (hf : f raw = .error .validation) : LC.required d k f = .ok none := by
  simp [LC.required, LC.fieldOf, h, hf]

theorem required_child_full (v : Ver) (d : Data) (f1 f2 f4 : Str) (h1 : d.lookup "child_id" = some f1)
    (h2 : d.lookup "command" = some f2) (h4 : d.lookup "message_type" = some f4) :
    LC.required d "child_id" (fun raw => GenCodec.validate_child_id v raw d) =
      .ok (match pyInt? f1, pyInt? f2, pyInt? f4 with
        | some child, some cmd, some type => if childIdOK v child cmd type then some child else none
        | _, _, _ => none) := by
  simp only [LC.required, h1, validate_child_id_full v f1 f2 f4 d h2 h4]
  cases pyInt? f1 <;> cases pyInt? f2 <;> cases pyInt? f4 <;> simp [LC.fieldOf]
  rename_i a b c
  cases hok : childIdOK v a b c <;> simp [hok]

theorem required_command_full (v : Ver) (d : Data) (f1 f2 f4 : Str) (h1 : d.lookup "child_id" = some f1)
    (h2 : d.lookup "command" = some f2) (h4 : d.lookup "message_type" = some f4) :
    LC.required d "command" (fun raw => GenCodec.CommandField_validate_command v raw d) =
      .ok (match pyInt? f2, pyInt? f1, pyInt? f4 with
        | some cmd, some child, some type => if childIdOK v child cmd type && commandOK v child cmd then some cmd else none
        | _, _, _ => none) := by
  simp only [LC.required, h2, command_full v f2 f1 f2 f4 d h1 h2 h4]
  cases pyInt? f1 <;> cases pyInt? f2 <;> cases pyInt? f4 <;> simp [LC.fieldOf]
  rename_i a b c
  cases hok : childIdOK v a b c <;> cases hcm : commandOK v a b <;> simp [hok, hcm]

/-- **`MessageSchema.load` assembled from the translated validators is `decode`, and raises nothing but
`ValidationError`** — for every string and every version. -/
theorem loadGen_eq (v : Ver) (line : Str) : GenCodec.loadGen v line = .ok (decode v line) := by
  have hlen := split_le_six line
  have hne := splitN_ne_nil Gen.delimiter 5 (rstrip line)
  simp only [GenCodec.loadGen, GenCodec.to_dict, maxsplit_eq, decode, fields_eq, LC.zipDict]
  generalize splitN Gen.delimiter 5 (rstrip line) = l at hlen hne
  match l, hlen, hne with
  | [f0], _, _ =>
    simp only [LC.schemaLoad, required_intField, required_str]
    rw [required_missing _ "child_id" _ (by simp [List.lookup]), required_missing _ "command" _ (by simp [List.lookup])]
    simp [List.lookup]
  | [f0, f1], _, _ =>
    have hc := validate_child_id_no_type v f1 [("node_id", f0), ("child_id", f1)] (by simp [List.lookup])
    simp only [LC.schemaLoad, required_intField, required_str]
    rw [required_validation _ "child_id" _ f1 (by simp [List.lookup]) hc, required_missing _ "command" _ (by simp [List.lookup])]
    simp [List.lookup]
  | [f0, f1, f2], _, _ =>
    have hc := validate_child_id_no_type v f1 [("node_id", f0), ("child_id", f1), ("command", f2)] (by simp [List.lookup])
    have hm := command_no_type v f2 f1 [("node_id", f0), ("child_id", f1), ("command", f2)] (by simp [List.lookup]) (by simp [List.lookup])
    simp only [LC.schemaLoad, required_intField, required_str]
    rw [required_validation _ "child_id" _ f1 (by simp [List.lookup]) hc, required_validation _ "command" _ f2 (by simp [List.lookup]) hm]
    simp [List.lookup]
  | [f0, f1, f2, f3], _, _ =>
    have hc := validate_child_id_no_type v f1 [("node_id", f0), ("child_id", f1), ("command", f2), ("ack", f3)] (by simp [List.lookup])
    have hm := command_no_type v f2 f1 [("node_id", f0), ("child_id", f1), ("command", f2), ("ack", f3)] (by simp [List.lookup]) (by simp [List.lookup])
    simp only [LC.schemaLoad, required_intField, required_str]
    rw [required_validation _ "child_id" _ f1 (by simp [List.lookup]) hc, required_validation _ "command" _ f2 (by simp [List.lookup]) hm]
    simp [List.lookup]
  | [f0, f1, f2, f3, f4], _, _ =>
    -- five fields: every validator can run, but the payload is missing
    simp only [LC.schemaLoad, required_intField, required_str]
    rw [required_child_full v _ f1 f2 f4 (by simp [List.lookup]) (by simp [List.lookup]) (by simp [List.lookup]),
      required_command_full v _ f1 f2 f4 (by simp [List.lookup]) (by simp [List.lookup]) (by simp [List.lookup])]
    simp [List.lookup]
  | [f0, f1, f2, f3, f4, f5], _, _ =>
    simp only [LC.schemaLoad, required_intField, required_str]
    rw [required_child_full v _ f1 f2 f4 (by simp [List.lookup]) (by simp [List.lookup]) (by simp [List.lookup]),
      required_command_full v _ f1 f2 f4 (by simp [List.lookup]) (by simp [List.lookup]) (by simp [List.lookup])]
    cases h0 : pyInt? f0 <;> cases h1 : pyInt? f1 <;> cases h2 : pyInt? f2 <;> cases h3 : pyInt? f3 <;> cases h4 : pyInt? f4 <;>
      simp [List.lookup, h0, h1, h2, h3, h4, fieldsOK]
    rename_i node child cmd ack type
    by_cases hn : Gen.nodeIdMin ≤ node ∧ node ≤ Gen.nodeIdMax <;> cases hc : childIdOK v child cmd type <;>
      cases hm : commandOK v child cmd <;> by_cases ha : ack ∈ Gen.ackValues <;> simp [hn, hc, hm, ha]

/-- **`MessageSchema.dump` assembled from the translated `to_string` is `encode`** (and never fails for a message). -/
theorem dumpGen_eq (m : Msg) : GenCodec.dumpGen m = .ok (encode m) := by
  have hk : pyCaught .KeyError [.KeyError] = true := by decide
  simp [GenCodec.dumpGen, GenCodec.to_string, LC.dumpData, LC.mapFields, LC.bind, LC.catchV, fields_eq, List.lookup, encode,
    joinWith, Gen.terminator]

end AioMySensors.CodecBodiesEq
