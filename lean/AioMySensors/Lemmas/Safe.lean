/-
No handler, wrapper or dispatch path can end in a non-library exception, for the generated
chains, flags and except tuples; and the state invariant `SbufOK` (every parked message has a
command some outgoing handler exists for) is preserved.  This is C03's core.
-/
import AioMySensors.Lemmas.Effects
import AioMySensors.Lemmas.PDict
import AioMySensors.Lemmas.Codec

namespace AioMySensors
open M

/-- Every protocol has an outgoing handler for this command value. -/
def sendable (cmd : Int) : Bool :=
  Ver.all.all fun v => match (Gen.outgoingHandlers v).lookup cmd with
    | some (some _) => true
    | _ => false

theorem sendable_lookup {cmd : Int} (h : sendable cmd = true) (v : Ver) :
    ∃ b, (Gen.outgoingHandlers v).lookup cmd = some (some b) := by
  have hv : v ∈ Ver.all := by cases v <;> decide
  have := List.all_eq_true.mp h v hv
  split at this
  · next b hb => exact ⟨b, hb⟩
  · exact absurd this (by simp)

/-- Reachable-state invariant: parked messages can be handed to an outgoing handler. -/
def SbufOK (st : St) : Prop := ∀ e ∈ st.sbuf, sendable e.2.cmd = true

theorem SbufOK_init : SbufOK {} := by intro e he; simp at he

theorem safe_gwSend (m : Msg) (b : Bool) (hm : sendable m.cmd = true) : Safe SbufOK (gwSend m b) := by
  unfold gwSend
  refine Safe.bind_getSt fun st hst => ?_
  obtain ⟨ob, hob⟩ := sendable_lookup hm st.proto
  rw [hob]
  cases ob with
  | direct => exact Safe.transportWrite _
  | set14 =>
    simp only []
    split
    · split
      · refine Safe.modifySt _ fun s hs e he => ?_
        rcases PDict.mem_set he with h | h
        · exact hs e h
        · subst h; exact hm
      · exact Safe.transportWrite _
    · exact Safe.transportWrite _

theorem safe_apiSend (obj : Option Msg) (b : Bool) (h : ∀ m, obj = some m → sendable m.cmd = true) :
    Safe SbufOK (apiSend obj b) := by
  unfold apiSend
  cases obj with
  | none => exact Safe.raiseLib _
  | some m => exact safe_gwSend m b (h m rfl)

theorem sendable_internal : sendable Gen.cmdInternal = true := by decide
theorem sendable_set : sendable Gen.cmdSet = true := by decide

theorem safe_setNode (id : Int) (n : Node) : Safe SbufOK (setNode id n) :=
  Safe.modifySt _ fun _ hs => hs

theorem safe_allocNode : Safe SbufOK allocNode :=
  Safe.modifySt _ fun _ hs => hs

theorem safe_requireNode (id : Int) : Safe SbufOK (requireNode id) := by
  unfold requireNode
  refine Safe.bind_getSt fun st _ => ?_
  split
  · exact Safe.pure _
  · exact Safe.raiseLib _

/-- Syntax-directed proof search for `Safe SbufOK`. -/
macro "safe_auto" : tactic => `(tactic| repeat' (first
  | exact Safe.pure _ | exact Safe.raiseLib _ | exact Safe.transportWrite _ | exact Safe.getSt
  | exact safe_setNode _ _ | exact safe_requireNode _ | exact safe_allocNode
  | exact safe_gwSend _ _ (by first | assumption | exact sendable_internal | exact sendable_set)
  | exact Safe.modifySt _ (fun _ hs => hs)
  | refine Safe.seq ?_ ?_ | refine Safe.bind ?_ (fun _ => ?_)
  | refine Safe.bind_getSt (fun _ _ => ?_)
  | split
  | dsimp only))

theorem safe_wrapMissingPV {inner : Msg → M Msg} (hi : ∀ m, Safe SbufOK (inner m)) (m : Msg) :
    Safe SbufOK (wrapMissingPV inner m) := by
  unfold wrapMissingPV
  refine Safe.tryFinally (hi m) fun r => ?_
  cases r <;> safe_auto

theorem safe_wrapMissingNC {inner : Msg → M Msg} (hi : ∀ m, Safe SbufOK (inner m)) (m : Msg) :
    Safe SbufOK (wrapMissingNC inner m) := by
  unfold wrapMissingNC
  refine Safe.tryCatch (hi m) fun e y hy => ?_
  split at hy
  · next hc =>
    simp only [Option.some.injEq] at hy
    subst hy
    have he : ∃ l, e = .lib l := by
      cases e with
      | lib l => exact ⟨l, rfl⟩
      | foreign c => simp [missingCaught] at hc
    obtain ⟨l, rfl⟩ := he
    safe_auto
  · exact absurd hy (by simp)

theorem safe_flushList (l : List (Key × Msg)) (hl : ∀ e ∈ l, sendable e.2.cmd = true) :
    Safe SbufOK (flushList l) := by
  induction l with
  | nil => exact Safe.pure _
  | cons x xs ih =>
    obtain ⟨k, bm⟩ := x
    unfold flushList
    refine Safe.seq (safe_gwSend bm _ (hl (k, bm) (by simp))) (Safe.seq ?_ (ih fun e he => hl e (by simp [he])))
    refine Safe.modifySt _ fun s hs => ?_
    split
    · intro e he; exact hs e (PDict.mem_erase he)
    · exact hs

theorem safe_flush (m : Msg) : Safe SbufOK (flush m) := by
  unfold flush
  refine Safe.bind_getSt fun st hst => ?_
  refine Safe.seq (safe_flushList _ fun e he => ?_) (Safe.pure _)
  exact hst e (List.mem_filter.mp he).1

/-- `get_protocol` fails only with exceptions the version handler's except clause names. -/
theorem getProtocolE_caught (s : Str) (c : PyExn) (h : getProtocolE s = .error c) :
    pyCaught c (clause Gen.excVersion 0) = true := by
  unfold getProtocolE at h
  split at h
  · exact absurd h (by simp)
  · next e _ =>
    simp only [Except.error.injEq] at h
    subst h
    cases e <;> decide

/-- `round(float(s))` fails only with `ValueError` or `OverflowError`. -/
theorem pyRoundFloat_errors (s : Str) (c : PyExn) (h : pyRoundFloat s = .error c) :
    c = .ValueError ∨ c = .OverflowError := by
  unfold pyRoundFloat at h
  split at h
  · exact absurd h (by simp)
  · next e _ =>
    simp only [Except.error.injEq] at h
    subst h
    cases e <;> simp [FloatErr.toPy]

theorem battery_errors_caught (s : Str) (c : PyExn) (h : pyRoundFloat s = .error c) :
    pyCaught c (clause Gen.excBattery 0) = true := by
  rcases pyRoundFloat_errors s c h with rfl | rfl <;> decide

theorem safe_heartbeatValue (classes : List PyExn) (hc : pyCaught .ValueError classes = true) (m : Msg) :
    Safe SbufOK (heartbeatValue classes m) := by
  unfold heartbeatValue
  refine Safe.convertExn _ _ _ fun c h => ?_
  split at h
  · exact absurd h (by simp)
  · simp only [Except.error.injEq] at h; subst h; exact hc

/-- Every leaf body is safe on a message whose own command has an outgoing handler. -/
theorem safe_runLeaf (env : Env) (b : Body) (f : Msg → M Msg) (hf : runLeaf env b = some f) (m : Msg)
    (hm : sendable m.cmd = true) : Safe SbufOK (f m) := by
  cases b <;> simp only [runLeaf, Option.some.injEq] at hf <;> try (exact absurd hf (by simp))
  all_goals subst hf
  · unfold hSet; safe_auto
  · unfold hReq; safe_auto
  · unfold hVersion
    refine Safe.bind (Safe.convertExn _ _ _ (getProtocolE_caught _)) fun v => ?_
    safe_auto
  · unfold hIdRequest; safe_auto
  · unfold hConfig; safe_auto
  · unfold hTime; safe_auto
  · unfold hBattery
    refine Safe.bind (safe_requireNode _) fun _ => ?_
    refine Safe.bind (Safe.convertExn _ _ _ (battery_errors_caught _)) fun level => ?_
    safe_auto
  · unfold hSketchName; safe_auto
  · unfold hSketchVersion; safe_auto
  · unfold hGatewayReady; safe_auto
  · unfold hDiscoverResponse; safe_auto
  · unfold hHeartbeat20
    refine Safe.bind (safe_requireNode _) fun node => ?_
    refine Safe.bind (safe_heartbeatValue _ (by decide) _) fun hb => ?_
    exact Safe.seq (safe_setNode _ _) (safe_flush _)
  · unfold hHeartbeat22
    refine Safe.bind (safe_requireNode _) fun node => ?_
    refine Safe.bind (safe_heartbeatValue _ (by decide) _) fun hb => ?_
    safe_auto
  · unfold hPreSleep22
    refine Safe.bind (safe_requireNode _) fun node => ?_
    exact Safe.seq (safe_setNode _ _) (safe_flush _)

end AioMySensors

namespace AioMySensors
open M

theorem lookup_mem {κ α : Type} [BEq κ] [LawfulBEq κ] {l : List (κ × α)} {k : κ} {x : α}
    (h : l.lookup k = some x) : (k, x) ∈ l := by
  induction l with
  | nil => simp [List.lookup] at h
  | cons y ys ih =>
    obtain ⟨k', v'⟩ := y
    simp only [List.lookup] at h
    split at h
    · next hk => simp at hk; simp at h; subst hk; subst h; simp
    · simp [ih h]

/-- The only `pre` layer the model knows is `protocol_20.handle_presentation`. -/
def layersOK : List Layer → Bool
  | [] => true
  | .wrap _ :: ls => layersOK ls
  | .pre b :: ls => b == .presentation20 && layersOK ls

def isLeaf (b : Body) : Bool := (runLeaf {} b).isSome

theorem runLeaf_isSome (env : Env) (b : Body) (h : isLeaf b = true) : ∃ f, runLeaf env b = some f := by
  cases b <;> simp [isLeaf, runLeaf] at h ⊢

/-- A handler reached by type name: known layers around a leaf body. -/
def innerOK (ch : Chain) : Bool := layersOK ch.layers && isLeaf ch.base

def optInnerOK : Option Chain → Bool
  | some ch => innerOK ch
  | none => true

/-- Structural facts about the generated tables (re-checked whenever the tables change). -/
theorem internalChains_ok : ∀ v : Ver, (Gen.internalChains v).all (fun e => optInnerOK e.2) = true := by decide
theorem streamChains_ok : ∀ v : Ver, (Gen.streamChains v).all (fun e => optInnerOK e.2) = true := by decide
theorem versionHandler_ok : ∀ v : Ver, optInnerOK (Gen.versionHandlerChain v) = true := by decide

def baseOK (b : Body) : Bool := b == .presentation14 || b == .internal14 || b == .stream14 || isLeaf b

/-- Every command 0-4 has, in every version, a chain of known layers around a known body, and an outgoing handler. -/
theorem commandChains_ok : ∀ v : Ver, ∀ cmd ∈ [(0 : Int), 1, 2, 3, 4],
    (match (Gen.commandChains v).lookup cmd with
     | some ch => layersOK ch.layers && baseOK ch.base
     | none => false) = true ∧ sendable cmd = true := by decide

theorem safe_prePresentation20 (m : Msg) : Safe SbufOK (prePresentation20 m) :=
  Safe.modifySt _ fun s hs => by split <;> exact hs

theorem safe_wrapMissingPV' {inner : Msg → M Msg} (m : Msg) (hi : Safe SbufOK (inner m)) :
    Safe SbufOK (wrapMissingPV inner m) := by
  unfold wrapMissingPV
  refine Safe.tryFinally hi fun r => ?_
  cases r <;> safe_auto

theorem safe_wrapMissingNC' {inner : Msg → M Msg} (m : Msg) (hi : Safe SbufOK (inner m)) :
    Safe SbufOK (wrapMissingNC inner m) := by
  unfold wrapMissingNC
  refine Safe.tryCatch hi fun e y hy => ?_
  split at hy
  · next hc =>
    simp only [Option.some.injEq] at hy
    subst hy
    have he : ∃ l, e = .lib l := by
      cases e with
      | lib l => exact ⟨l, rfl⟩
      | foreign c => simp [missingCaught] at hc
    obtain ⟨l, rfl⟩ := he
    safe_auto
  · exact absurd hy (by simp)

theorem safe_applyLayers (ls : List Layer) (hls : layersOK ls = true) (base : Msg → M Msg) (m : Msg)
    (hb : Safe SbufOK (base m)) : Safe SbufOK (applyLayers ls base m) := by
  induction ls with
  | nil => simpa [applyLayers] using hb
  | cons l ls ih =>
    cases l with
    | wrap w =>
      have := ih (by simpa [layersOK] using hls)
      cases w with
      | missingPV => simpa [applyLayers] using safe_wrapMissingPV' m this
      | missingNC => simpa [applyLayers] using safe_wrapMissingNC' m this
    | pre b =>
      simp only [layersOK, Bool.and_eq_true, beq_iff_eq] at hls
      obtain ⟨hb20, hls⟩ := hls
      subst hb20
      simp only [applyLayers, runPre]
      exact Safe.seq (safe_prePresentation20 m) (ih hls)

theorem safe_runTyped (env : Env) (och : Option Chain) (hok : optInnerOK och = true) (m : Msg)
    (hm : sendable m.cmd = true) : Safe SbufOK (runTyped env och m) := by
  cases och with
  | none => exact Safe.pure _
  | some ch =>
    simp only [optInnerOK, innerOK, Bool.and_eq_true] at hok
    obtain ⟨f, hf⟩ := runLeaf_isSome env ch.base hok.2
    simp only [runTyped, runInner, hf]
    exact safe_applyLayers _ hok.1 f m (safe_runLeaf env _ f hf m hm)

theorem optInnerOK_lookup {l : List (Int × Option Chain)} (hl : l.all (fun e => optInnerOK e.2) = true) (t : Int) :
    optInnerOK ((l.lookup t).join) = true := by
  cases h : l.lookup t with
  | none => rfl
  | some och =>
    have := List.all_eq_true.mp hl (t, och) (lookup_mem h)
    simpa using this

theorem safe_runBase (env : Env) (v : Ver) (b : Body) (hb : baseOK b = true) (m : Msg)
    (hm : sendable m.cmd = true) : Safe SbufOK (runBase env v b m) := by
  by_cases h1 : b = .presentation14
  · subst h1
    simp only [runBase, hPresentation]
    split
    · refine Safe.seq (safe_setNode _ _) ?_
      split
      · exact safe_runTyped env _ (versionHandler_ok v) m hm
      · exact Safe.pure _
    · safe_auto
  by_cases h2 : b = .internal14
  · subst h2
    simp only [runBase, hInternal]
    split
    · exact Safe.raiseLib _
    · exact safe_runTyped env _ (optInnerOK_lookup (internalChains_ok v) _) m hm
  by_cases h3 : b = .stream14
  · subst h3
    simp only [runBase, hStream]
    refine Safe.bind (safe_requireNode _) fun _ => ?_
    split
    · exact Safe.raiseLib _
    · exact safe_runTyped env _ (optInnerOK_lookup (streamChains_ok v) _) m hm
  have hl : isLeaf b = true := by
    simp only [baseOK, Bool.or_eq_true, beq_iff_eq] at hb
    rcases hb with ((hb | hb) | hb) | hb
    · exact absurd hb h1
    · exact absurd hb h2
    · exact absurd hb h3
    · exact hb
  obtain ⟨f, hf⟩ := runLeaf_isSome env b hl
  have : runBase env v b = f := by
    cases b <;> simp_all [runBase]
  rw [this]
  exact safe_runLeaf env b f hf m hm

/-- **Dispatch is safe** for every version and every decoded command. -/
theorem safe_dispatch (env : Env) (v : Ver) (m : Msg) (hcmd : m.cmd ∈ [(0 : Int), 1, 2, 3, 4]) :
    Safe SbufOK (dispatch env v m) := by
  obtain ⟨hch, hs⟩ := commandChains_ok v m.cmd hcmd
  unfold dispatch
  split at hch
  · next ch hl =>
    simp only [Bool.and_eq_true] at hch
    rw [hl]
    exact safe_applyLayers _ hch.1 _ m (safe_runBase env v _ hch.2 m hs)
  · exact absurd hch (by simp)

theorem decode_cmd_range {v : Ver} {l : Str} {m : Msg} (h : decode v l = some m) : m.cmd ∈ [(0 : Int), 1, 2, 3, 4] := by
  simp only [decode] at h
  split at h
  · split at h
    · split at h
      · next hok =>
        simp only [Option.some.injEq] at h
        subst h
        have := (fieldsOK_iff v _ _ _ _ _).mp hok
        obtain ⟨_, _, _, _, h0, h4, _⟩ := this
        simp only [List.mem_cons, List.mem_nil_iff, or_false]
        omega
      · exact absurd h (by simp)
    · exact absurd h (by simp)
  · exact absurd h (by simp)

/-- **C03 core.** From any state satisfying the invariant, handling a received line — whatever the
line, the configuration, the local time and the write-fault schedule — never ends in a
non-library exception, and re-establishes the invariant. -/
theorem safe_recv (env : Env) (line : Str) : Safe SbufOK (recv env line) := by
  unfold recv
  refine Safe.bind_getSt fun st _ => ?_
  split
  · exact Safe.raiseLib _
  · next m hm => exact safe_dispatch env st.proto m (decode_cmd_range hm)

end AioMySensors
