/-
Refinement of the registry specification (`Model/RegistrySpec.lean`) by the handler model, step by
step: the frame facts (writes, `gateway.send`, the release loop and the two decorators never change
registry or protocol), one lemma per handler body giving its effect on `St.abs` as the matching
clause of the specification, the inert bodies (by a `decide` over the generated chains), and the
whole dispatch.  `Properties/C04.lean` lifts this to `stepOp` and to histories.
-/
import AioMySensors.Model.RegistrySpec
import AioMySensors.Lemmas.Faithful
import AioMySensors.Lemmas.Safe

namespace AioMySensors
open M

/-! ### Frame: what never changes registry or protocol -/

/-- Registry and active protocol are as before. -/
def AbsKept : W → W → Prop := OnSt fun s s' => s'.abs = s.abs

theorem absKept_preO : PreO AbsKept := OnSt.preO (fun _ => rfl) (fun h1 h2 => h2.trans h1)

theorem absKept_iff {x : M α} : Rel AbsKept x ↔ ∀ w, (x w).2.st.abs = w.st.abs :=
  ⟨fun h w => h.step w, fun h => ⟨h⟩⟩

theorem transportWrite_st (line : Str) (w : W) : (transportWrite line w).2.st = w.st :=
  (transportWrite_frame line w).1

theorem gwSend_abs (sm : Msg) (b : Bool) (w : W) : (gwSend sm b w).2.st.abs = w.st.abs := by
  have hw := transportWrite_st (encode sm) w
  simp only [gwSend, M.bind, M.getSt]
  cases (Gen.outgoingHandlers w.st.proto).lookup sm.cmd with
  | none => rfl
  | some ob =>
    cases ob with
    | none => rfl
    | some b' =>
      cases b' with
      | direct => simp only []; rw [hw]
      | set14 =>
        simp only []
        cases w.st.nodes.get? sm.node with
        | none => simp only []; rw [hw]
        | some node =>
          simp only []
          split
          · rfl
          · rw [hw]

theorem absKept_gwSend (sm : Msg) (b : Bool) : Rel AbsKept (gwSend sm b) := ⟨gwSend_abs sm b⟩

theorem absKept_flushList (l : List (Key × Msg)) : Rel AbsKept (flushList l) := by
  induction l with
  | nil => exact Rel.pure absKept_preO _
  | cons x xs ih =>
    obtain ⟨k, bm⟩ := x
    unfold flushList
    refine Rel.seq absKept_preO (absKept_gwSend _ _) (Rel.seq absKept_preO ?_ ih)
    exact Rel.modifySt _ fun s => by split <;> rfl

theorem absKept_flush (m : Msg) : Rel AbsKept (flush m) :=
  Rel.bind_getSt absKept_preO fun w =>
    (Rel.seq absKept_preO (absKept_flushList _) (Rel.pure absKept_preO m)).step w

theorem flush_abs (m : Msg) (w : W) : (flush m w).2.st.abs = w.st.abs := (absKept_flush m).step w

/-- The version-query decorator: registry and protocol are what the handler left. -/
theorem wrapMissingPV_abs (inner : Msg → M Msg) (m : Msg) (w : W) :
    (wrapMissingPV inner m w).2.st.abs = (inner m w).2.st.abs := by
  rw [wrapMissingPV_eq]
  simp only []
  have aw := after_write (inner m w).1 (inner m w).2 (encode versionQuery)
  simp only [] at aw
  cases hr : (inner m w).1 with
  | ok m' =>
    rw [hr] at aw
    by_cases hc : ((inner m w).2.st.pv.isNone && wantsVersionQuery m') = true
    · simp only [hc, if_true]; exact congrArg St.abs aw.1
    · simp only [hc]; rfl
  | error e =>
    rw [hr] at aw
    by_cases hc : ((inner m w).2.st.pv.isNone && wantsVersionQuery m) = true
    · simp only [hc, if_true]; exact congrArg St.abs aw.1
    · simp only [hc]; rfl

/-- The missing-node/child decorator: it touches the request markers only. -/
theorem wrapMissingNC_abs (inner : Msg → M Msg) (m : Msg) (w : W) :
    (wrapMissingNC inner m w).2.st.abs = (inner m w).2.st.abs := by
  cases hin : inner m w with
  | mk r w' =>
    cases r with
    | ok r => rw [wrapMissingNC_ok inner m r w w' hin]
    | error e =>
      by_cases he : missingCaught e = true
      · by_cases hm : w'.st.ibuf.has (presentationRequest m.node).key = true
        · rw [wrapMissingNC_marked inner m e w w' hin he hm]
        · have hm' : w'.st.ibuf.has (presentationRequest m.node).key = false := by simpa using hm
          rw [wrapMissingNC_unmarked inner m e w w' hin he hm']
          simp only [transportWrite]
          cases hf : w'.faults with
          | nil => simp [St.abs]
          | cons f fs => cases f <;> simp [St.abs]
      · have he' : missingCaught e = false := by simpa using he
        rw [wrapMissingNC_other inner m e w w' hin he']

theorem wrapNC_abs (v : Ver) (inner : Msg → M Msg) (m : Msg) (w : W) :
    (wrapNC v inner m w).2.st.abs = (inner m w).2.st.abs := by
  unfold wrapNC; split
  · exact wrapMissingNC_abs inner m w
  · rfl

theorem prePresentation20_abs (m : Msg) (w : W) :
    (prePresentation20 m w).1 = .ok () ∧ (prePresentation20 m w).2.st.abs = w.st.abs := by
  simp only [prePresentation20, M.modifySt]
  split <;> simp [St.abs]

/-! ### One lemma per handler body: its effect on registry and protocol is the matching clause -/

theorem requireNode_bind (id : Int) (body : Node → M Msg) (w : W) :
    M.bind (requireNode id) body w =
      match w.st.nodes.get? id with
      | some node => body node w
      | none => (.error (.lib (.missingNode id)), w) := by
  simp only [M.bind, requireNode, M.getSt]
  cases w.st.nodes.get? id <;> rfl

theorem updNode_none (s : SpecSt) (id : Int) (f : Node → Option Node) (h : s.nodes.get? id = none) :
    Spec.updNode s id f = s := by simp [Spec.updNode, h]

theorem updNode_some (s : SpecSt) (id : Int) (f : Node → Option Node) (node : Node) (h : s.nodes.get? id = some node) :
    Spec.updNode s id f = match f node with
      | some node' => { s with nodes := s.nodes.set id node' }
      | none => s := by unfold Spec.updNode; rw [h]; rfl

theorem bind_kept (x : M α) (f : α → M β) (hf : ∀ a, Rel AbsKept (f a)) (w : W) :
    (M.bind x f w).2.st.abs = (x w).2.st.abs := by
  simp only [M.bind]
  cases hx : x w with
  | mk r w' =>
    cases r with
    | ok a => exact (hf a).step w'
    | error e => rfl

theorem seq_kept (x : M Unit) (y : M β) (hy : Rel AbsKept y) (w : W) :
    (M.seq x y w).2.st.abs = (x w).2.st.abs := bind_kept x _ (fun _ => hy) w

theorem setNode_abs (id : Int) (n : Node) (w : W) :
    (setNode id n w).2.st.abs = { w.st.abs with nodes := w.st.abs.nodes.set id n } := rfl

macro "kept_auto" : tactic => `(tactic| repeat' (first
  | exact Rel.pure absKept_preO _ | exact Rel.raise absKept_preO _ | exact Rel.getSt absKept_preO
  | exact absKept_gwSend _ _ | exact absKept_flush _ | exact Rel.convertExn absKept_preO _ _ _
  | refine Rel.seq absKept_preO ?_ ?_ | refine Rel.bind absKept_preO ?_ (fun _ => ?_)
  | split | dsimp only))

/-- A conversion either yields its value with the world untouched or fails with the world untouched. -/
theorem convertExn_bind (classes : List PyExn) (x : Except PyExn α) (f : α → M β) (w : W) :
    (M.bind (convertExn classes .invalidMessage x) f w).2.st.abs =
      match x with
      | .ok a => (f a w).2.st.abs
      | .error _ => w.st.abs := by
  cases x with
  | ok a => rfl
  | error c => by_cases hp : pyCaught c classes = true <;> simp [convertExn, M.bind, hp, M.raise]

theorem hSet_abs (m : Msg) (w : W) : (hSet m w).2.st.abs = Spec.setReport w.st.abs m := by
  unfold hSet Spec.setReport
  rw [requireNode_bind]
  cases hn : w.st.nodes.get? m.node with
  | none => rw [updNode_none _ _ _ hn]
  | some node =>
    rw [updNode_some _ _ _ node hn]
    simp only []
    cases hc : node.children.get? m.child with
    | none => rfl
    | some child =>
      simp only [Option.map_some]
      rw [seq_kept _ _ (by kept_auto), setNode_abs]

theorem hBattery_abs (m : Msg) (w : W) :
    (hBattery m w).2.st.abs =
      Spec.updNode w.st.abs m.node fun node => (Spec.batteryLevel? m.payload).map fun level => { node with battery := level } := by
  unfold hBattery
  rw [requireNode_bind]
  cases hn : w.st.nodes.get? m.node with
  | none => rw [updNode_none _ _ _ hn]
  | some node =>
    rw [updNode_some _ _ _ node hn]
    simp only [convertExn_bind, Spec.batteryLevel?]
    cases pyRoundFloat m.payload with
    | error c => rfl
    | ok level =>
      simp only []
      split
      · rw [seq_kept _ _ (by kept_auto), setNode_abs]; rfl
      · rfl

theorem hSketchName_abs (m : Msg) (w : W) :
    (hSketchName m w).2.st.abs = Spec.updNode w.st.abs m.node fun node => some { node with sketchName := m.payload } := by
  unfold hSketchName
  rw [requireNode_bind]
  cases hn : w.st.nodes.get? m.node with
  | none => rw [updNode_none _ _ _ hn]
  | some node => rw [updNode_some _ _ _ node hn]; rfl

theorem hSketchVersion_abs (m : Msg) (w : W) :
    (hSketchVersion m w).2.st.abs = Spec.updNode w.st.abs m.node fun node => some { node with sketchVersion := m.payload } := by
  unfold hSketchVersion
  rw [requireNode_bind]
  cases hn : w.st.nodes.get? m.node with
  | none => rw [updNode_none _ _ _ hn]
  | some node => rw [updNode_some _ _ _ node hn]; rfl

theorem hPreSleep22_abs (m : Msg) (w : W) :
    (hPreSleep22 m w).2.st.abs = Spec.updNode w.st.abs m.node fun node => some { node with sleeping := true } := by
  unfold hPreSleep22
  rw [requireNode_bind]
  cases hn : w.st.nodes.get? m.node with
  | none => rw [updNode_none _ _ _ hn]
  | some node => rw [updNode_some _ _ _ node hn]; simp only []; rw [seq_kept _ _ (absKept_flush m), setNode_abs]

theorem hHeartbeat20_abs (m : Msg) (w : W) :
    (hHeartbeat20 m w).2.st.abs =
      Spec.updNode w.st.abs m.node fun node => (pyInt? m.payload).map fun beat => { node with sleeping := true, heartbeat := beat } := by
  unfold hHeartbeat20 heartbeatValue
  rw [requireNode_bind]
  cases hn : w.st.nodes.get? m.node with
  | none => rw [updNode_none _ _ _ hn]
  | some node =>
    rw [updNode_some _ _ _ node hn]
    simp only [convertExn_bind]
    cases pyInt? m.payload with
    | none => rfl
    | some beat => simp only [Option.map_some]; rw [seq_kept _ _ (absKept_flush m), setNode_abs]

theorem hHeartbeat22_abs (m : Msg) (w : W) :
    (hHeartbeat22 m w).2.st.abs =
      Spec.updNode w.st.abs m.node fun node => (pyInt? m.payload).map fun beat => { node with heartbeat := beat } := by
  unfold hHeartbeat22 heartbeatValue
  rw [requireNode_bind]
  cases hn : w.st.nodes.get? m.node with
  | none => rw [updNode_none _ _ _ hn]
  | some node =>
    rw [updNode_some _ _ _ node hn]
    simp only [convertExn_bind]
    cases pyInt? m.payload with
    | none => rfl
    | some beat => rfl

theorem ite_error_none (c : Prop) [Decidable c] (a b : PyExn) :
    (match (if c then (Except.error a : Except PyExn Ver) else .error b) with | .ok v => some v | .error _ => none) = none := by
  by_cases h : c <;> simp [h]

theorem getProtocolE_eq (s : Str) : (match getProtocolE s with | .ok v => some v | .error _ => none) = getProtocol? s := by
  unfold getProtocolE getProtocol?
  cases getProtocolX s with
  | ok p => rfl
  | error e => rfl

theorem hVersion_abs (m : Msg) (w : W) : (hVersion m w).2.st.abs = Spec.versionReport w.st.abs m.payload := by
  unfold hVersion Spec.versionReport
  rw [convertExn_bind, ← getProtocolE_eq]
  cases getProtocolE m.payload with
  | ok v => rfl
  | error c => rfl

theorem hIdRequest_abs (m : Msg) (w : W) :
    (hIdRequest m w).2.st.abs =
      if nextId w.st.nodes ≤ Gen.maxNodeId then { w.st.abs with nodes := w.st.nodes.set (nextId w.st.nodes) placeholderNode }
      else w.st.abs := by
  simp only [hIdRequest, M.bind, M.getSt]
  by_cases h : nextId w.st.nodes > Gen.maxNodeId
  · have : ¬ nextId w.st.nodes ≤ Gen.maxNodeId := by omega
    simp only [h, this, if_true, if_false]; rfl
  · have : nextId w.st.nodes ≤ Gen.maxNodeId := by omega
    simp only [h, this, if_true, if_false]
    rw [seq_kept _ _ (by kept_auto)]; rfl

theorem versionHandler_is_hVersion (env : Env) (v : Ver) : runTyped env (Gen.versionHandlerChain v) = hVersion := by
  cases v <;> rfl

theorem hPresentation_abs (env : Env) (v : Ver) (m : Msg) (w : W) :
    (hPresentation env v m w).2.st.abs = Spec.presentation w.st.abs m := by
  unfold hPresentation Spec.presentation
  by_cases hc : m.child = Gen.systemChildId
  · have hc' : (m.child == Gen.systemChildId) = true := by simpa using hc
    rw [if_pos hc', if_pos hc]
    by_cases hn : m.node = 0
    · have hn' : (m.node == 0) = true := by simpa using hn
      rw [if_pos hn', versionHandler_is_hVersion]
      simp only [if_pos hn, M.seq, M.bind, setNode, M.modifySt]
      rw [hVersion_abs]; rfl
    · have hn' : ¬ (m.node == 0) = true := by simpa using hn
      rw [if_neg hn']
      simp only [if_neg hn]; rfl
  · have hc' : ¬ (m.child == Gen.systemChildId) = true := by simpa using hc
    rw [if_neg hc', if_neg hc]
    rw [requireNode_bind]
    cases hn : w.st.nodes.get? m.node with
    | none => rw [updNode_none _ _ _ hn]
    | some node => rw [updNode_some _ _ _ node hn]; rfl
/-! ### Inert bodies, by a `decide` over the generated chains -/

/-- Bodies that only read the registry (and write reactions). -/
def inertBody (b : Body) : Bool :=
  b == .req14 || b == .iConfig14 || b == .iTime14 || b == .iGatewayReady20 || b == .iDiscoverResponse20

theorem absKept_inertLeaf (env : Env) (b : Body) (hb : inertBody b = true) (f : Msg → M Msg)
    (hf : runLeaf env b = some f) (m : Msg) : Rel AbsKept (f m) := by
  cases b <;> simp [inertBody] at hb <;> simp only [runLeaf, Option.some.injEq] at hf <;> subst hf
  · unfold hReq requireNode; kept_auto
  · unfold hConfig; kept_auto
  · unfold hTime; kept_auto
  · unfold hGatewayReady; kept_auto
  · unfold hDiscoverResponse requireNode; kept_auto

theorem absKept_runPre (b : Body) (m : Msg) : Rel AbsKept (runPre b m) := by
  cases b <;> first
    | exact ⟨fun w => (prePresentation20_abs m w).2⟩
    | exact Rel.raise absKept_preO _

theorem absKept_applyLayers (ls : List Layer) (base : Msg → M Msg) (m : Msg) (hb : Rel AbsKept (base m)) :
    Rel AbsKept (applyLayers ls base m) := by
  induction ls with
  | nil => simpa [applyLayers] using hb
  | cons l ls ih =>
    cases l with
    | wrap wr =>
      cases wr with
      | missingPV => exact ⟨fun w => by simp only [applyLayers]; exact (wrapMissingPV_abs _ m w).trans (ih.step w)⟩
      | missingNC => exact ⟨fun w => by simp only [applyLayers]; exact (wrapMissingNC_abs _ m w).trans (ih.step w)⟩
    | pre b => simp only [applyLayers]; exact Rel.seq absKept_preO (absKept_runPre b m) ih

def inertChain : Option Chain → Bool
  | none => true
  | some ch => inertBody ch.base

theorem absKept_runTyped (env : Env) (och : Option Chain) (h : inertChain och = true) (m : Msg) :
    Rel AbsKept (runTyped env och m) := by
  cases och with
  | none => exact Rel.pure absKept_preO m
  | some ch =>
    simp only [runTyped, runInner]
    cases hf : runLeaf env ch.base with
    | none => exact Rel.raise absKept_preO _
    | some f => exact absKept_applyLayers _ f m (absKept_inertLeaf env _ h f hf m)

/-- The internal types the specification has a clause for. -/
def registryTypes : List Int :=
  [Spec.iBatteryLevel, Gen.iVersion, Spec.iIdRequest, Spec.iSketchName, Spec.iSketchVersion,
   Spec.iHeartbeatResponse, Spec.iPreSleepNotification]

/-- Structural facts about the generated tables: every other internal type, and every stream type,
has no handler or one that only reads. -/
theorem other_internal_inert : ∀ v : Ver,
    (Gen.internalChains v).all (fun e => registryTypes.contains e.1 || inertChain e.2) = true := by decide
theorem stream_inert : ∀ v : Ver, (Gen.streamChains v).all (fun e => inertChain e.2) = true := by decide

theorem hInternal_other (env : Env) (v : Ver) (m : Msg) (h : m.type ∉ registryTypes) :
    Rel AbsKept (hInternal env v m) := by
  unfold hInternal
  split
  · exact Rel.raise absKept_preO _
  · refine absKept_runTyped env _ ?_ m
    cases hl : (Gen.internalChains v).lookup m.type with
    | none => rfl
    | some och =>
      have := List.all_eq_true.mp (other_internal_inert v) (m.type, och) (lookup_mem hl)
      simpa [h] using this

theorem absKept_hStream (env : Env) (v : Ver) (m : Msg) : Rel AbsKept (hStream env v m) := by
  unfold hStream requireNode
  refine Rel.bind absKept_preO (by kept_auto) fun _ => ?_
  split
  · exact Rel.raise absKept_preO _
  · refine absKept_runTyped env _ ?_ m
    cases hl : (Gen.streamChains v).lookup m.type with
    | none => rfl
    | some och =>
      have := List.all_eq_true.mp (stream_inert v) (m.type, och) (lookup_mem hl)
      simpa using this

/-! ### The dispatch -/

theorem hInternal_abs (env : Env) (v : Ver) (m : Msg) (w : W) (hv : w.st.proto = v) :
    (hInternal env v m w).2.st.abs = Spec.internal w.st.abs m := by
  have hp : w.st.abs.proto = v := hv
  unfold Spec.internal
  by_cases h0 : m.type = Spec.iBatteryLevel
  · rw [if_pos h0, internal_battery env v m h0, wrapNC_abs, hBattery_abs]
  rw [if_neg h0]
  by_cases h11 : m.type = Spec.iSketchName
  · rw [if_pos h11, internal_sketch_name env v m h11, wrapNC_abs, hSketchName_abs]
  rw [if_neg h11]
  by_cases h12 : m.type = Spec.iSketchVersion
  · rw [if_pos h12, internal_sketch_version env v m h12, wrapNC_abs, hSketchVersion_abs]
  rw [if_neg h12]
  by_cases h22 : m.type = Spec.iHeartbeatResponse
  · rw [internal_heartbeat_response env v m h22, hp]
    have e32 : ¬ m.type = Spec.iPreSleepNotification := by rw [h22]; decide
    have e3 : ¬ m.type = Spec.iIdRequest := by rw [h22]; decide
    have e2 : ¬ m.type = Gen.iVersion := by rw [h22]; decide
    cases v
    · rw [if_neg (fun h => absurd h.2 (by decide)), if_neg (fun h => e32 h.1), if_neg e3, if_neg e2]; rfl
    · rw [if_neg (fun h => absurd h.2 (by decide)), if_neg (fun h => e32 h.1), if_neg e3, if_neg e2]; rfl
    · rw [if_pos ⟨h22, by decide⟩]; simp only []; rw [wrapMissingNC_abs, hHeartbeat20_abs]; rfl
    · rw [if_pos ⟨h22, by decide⟩]; simp only []; rw [wrapMissingNC_abs, hHeartbeat20_abs]; rfl
    · rw [if_pos ⟨h22, by decide⟩]; simp only []; rw [wrapMissingNC_abs, hHeartbeat22_abs]; rfl
  rw [if_neg (fun h => h22 h.1)]
  by_cases h32 : m.type = Spec.iPreSleepNotification
  · rw [internal_pre_sleep env v m h32, hp]
    have e3 : ¬ m.type = Spec.iIdRequest := by rw [h32]; decide
    have e2 : ¬ m.type = Gen.iVersion := by rw [h32]; decide
    by_cases hv22 : v = .v22
    · rw [if_pos hv22, if_pos ⟨h32, hv22⟩, wrapMissingNC_abs, hPreSleep22_abs]
    · rw [if_neg hv22, if_neg (fun h => hv22 h.2), if_neg e3, if_neg e2]; rfl
  rw [if_neg (fun h => h32 h.1)]
  by_cases h3 : m.type = Spec.iIdRequest
  · rw [if_pos h3, internal_id_request env v m h3, hIdRequest_abs]; rfl
  rw [if_neg h3]
  by_cases h2 : m.type = Gen.iVersion
  · rw [if_pos h2, internal_version env v m h2, hVersion_abs]
  rw [if_neg h2]
  refine (hInternal_other env v m ?_).step w
  simp only [registryTypes, List.mem_cons, List.not_mem_nil, or_false, not_or]
  exact ⟨h0, h2, h3, h11, h12, h22, h32⟩

theorem dispatch_unknown_command (env : Env) (v : Ver) (m : Msg)
    (h : ¬ (m.cmd = 0 ∨ m.cmd = 1 ∨ m.cmd = 2 ∨ m.cmd = 3 ∨ m.cmd = 4)) :
    dispatch env v m = raise (.foreign .ValueError) := by
  simp only [not_or] at h
  obtain ⟨h0, h1, h2, h3, h4⟩ := h
  have b0 : (m.cmd == 0) = false := by simpa using h0
  have b1 : (m.cmd == 1) = false := by simpa using h1
  have b2 : (m.cmd == 2) = false := by simpa using h2
  have b3 : (m.cmd == 3) = false := by simpa using h3
  have b4 : (m.cmd == 4) = false := by simpa using h4
  have : (Gen.commandChains v).lookup m.cmd = none := by
    cases v <;> simp only [Gen.commandChains, List.lookup, b0, b1, b2, b3, b4]
  unfold dispatch; rw [this]

/-- **The whole receive path of a decoded message**, in the active protocol: registry and protocol
afterwards are `Spec.message` of registry and protocol before — for every message, state (both
buffers, version known or not) and write-fault schedule. -/
theorem dispatch_abs (env : Env) (v : Ver) (m : Msg) (w : W) (hv : w.st.proto = v) :
    (dispatch env v m w).2.st.abs = Spec.message w.st.abs m := by
  unfold Spec.message
  by_cases h0 : m.cmd = Gen.cmdPresentation
  · rw [if_pos h0, dispatch_presentation env v m h0]
    have key : ∀ w : W, (M.seq (prePresentation20 m) (wrapMissingPV (hPresentation env v) m) w).2.st.abs
        = Spec.presentation w.st.abs m := by
      intro w
      obtain ⟨p1, p2⟩ := prePresentation20_abs m w
      simp only [M.seq, M.bind]
      cases hp : prePresentation20 m w with
      | mk r w' =>
        rw [hp] at p1 p2
        simp only [] at p1 p2
        subst p1
        simp only []
        rw [wrapMissingPV_abs, hPresentation_abs, p2]
    split
    · rw [wrapMissingNC_abs]; exact key w
    · rw [wrapMissingPV_abs, hPresentation_abs]
  rw [if_neg h0]
  by_cases h1 : m.cmd = Gen.cmdSet
  · rw [if_pos h1, dispatch_set env v m h1, wrapNC_abs, wrapMissingPV_abs, hSet_abs]
  rw [if_neg h1]
  by_cases h3 : m.cmd = Gen.cmdInternal
  · rw [if_pos h3, dispatch_internal env v m h3, wrapMissingPV_abs, hInternal_abs env v m w hv]
  rw [if_neg h3]
  by_cases h2 : m.cmd = 2
  · rw [dispatch_req env v m h2, wrapNC_abs, wrapMissingPV_abs]
    exact (absKept_inertLeaf env .req14 rfl hReq rfl m).step w
  by_cases h4 : m.cmd = 4
  · rw [dispatch_stream env v m h4, wrapNC_abs, wrapMissingPV_abs]
    exact (absKept_hStream env v m).step w
  rw [dispatch_unknown_command env v m (by
    simp only [not_or]; exact ⟨h0, h1, h2, h3, h4⟩)]
  rfl

end AioMySensors
