/-
A third traversal of the receive path, about outcomes: handling the message `m`
* yields `m` itself when it succeeds (the decoded field values, untouched),
* fails with a missing-node error only for `m.node`, with a missing-child error only for
  `m.child`, and then the registry is exactly as before.
No table facts are needed: unknown layers / bodies end in a foreign exception, which is none of
the outcomes the judgement speaks about.
-/
import AioMySensors.Lemmas.Flushing

namespace AioMySensors
open M

structure Faithful (m : Msg) (x : M Msg) : Prop where
  ret : ∀ w r, (x w).1 = .ok r → r = m
  missNode : ∀ w n, (x w).1 = .error (.lib (.missingNode n)) → n = m.node ∧ (x w).2.st.nodes = w.st.nodes
  missChild : ∀ w c, (x w).1 = .error (.lib (.missingChild c)) → c = m.child ∧ (x w).2.st.nodes = w.st.nodes

theorem transportWrite_frame (line : Str) (w : W) :
    (transportWrite line w).2.st = w.st ∧
    (∀ n, (transportWrite line w).1 ≠ .error (.lib (.missingNode n))) ∧
    (∀ c, (transportWrite line w).1 ≠ .error (.lib (.missingChild c))) := by
  simp only [transportWrite]; split <;> simp

/-- `gateway.send` neither fails with a missing error nor touches the registry. -/
theorem gwSend_frame (sm : Msg) (b : Bool) (w : W) :
    (gwSend sm b w).2.st.nodes = w.st.nodes ∧ (gwSend sm b w).2.st.pv = w.st.pv ∧
    (∀ n, (gwSend sm b w).1 ≠ .error (.lib (.missingNode n))) ∧ (∀ c, (gwSend sm b w).1 ≠ .error (.lib (.missingChild c))) := by
  have hw := transportWrite_frame (encode sm) w
  simp only [gwSend, M.bind, M.getSt]
  cases hl : (Gen.outgoingHandlers w.st.proto).lookup sm.cmd with
  | none => simp [M.raise]
  | some ob =>
    cases ob with
    | none => simp [M.raise]
    | some b' =>
      cases b' with
      | direct => simp only []; rw [hw.1]; exact ⟨rfl, rfl, hw.2.1, hw.2.2⟩
      | set14 =>
        simp only []
        cases hn : w.st.nodes.get? sm.node with
        | none => simp only []; rw [hw.1]; exact ⟨rfl, rfl, hw.2.1, hw.2.2⟩
        | some node =>
          simp only []
          by_cases hc : (b && node.sleeping) = true
          · simp [hc, M.modifySt]
          · simp only [hc]
            have : (false = true) = False := by simp
            simp only [this, if_false]
            rw [hw.1]; exact ⟨rfl, rfl, hw.2.1, hw.2.2⟩

theorem flushList_frame (l : List (Key × Msg)) (w : W) :
    (flushList l w).2.st.nodes = w.st.nodes ∧
    (∀ n, (flushList l w).1 ≠ .error (.lib (.missingNode n))) ∧ (∀ c, (flushList l w).1 ≠ .error (.lib (.missingChild c))) := by
  induction l generalizing w with
  | nil => simp [flushList, M.pure]
  | cons x xs ih =>
    obtain ⟨k, bm⟩ := x
    simp only [flushList, M.seq, M.bind]
    obtain ⟨h1, _, h3, h4⟩ := gwSend_frame bm Gen.bufFlush w
    cases hg : gwSend bm Gen.bufFlush w with
    | mk r w' =>
      rw [hg] at h1 h3 h4
      cases r with
      | error e => exact ⟨h1, fun n => by simpa using h3 n, fun c => by simpa using h4 c⟩
      | ok u =>
        simp only [M.modifySt]
        have := ih { w' with st := if w'.st.sbuf.get? k = some bm then { w'.st with sbuf := w'.st.sbuf.erase k } else w'.st }
        have hn : (if w'.st.sbuf.get? k = some bm then { w'.st with sbuf := w'.st.sbuf.erase k } else w'.st).nodes = w'.st.nodes := by
          split <;> rfl
        simp only [hn] at this
        exact ⟨this.1.trans h1, this.2⟩

theorem flush_faithful (m : Msg) : Faithful m (flush m) := by
  have key : ∀ w, (flush m w).2.st.nodes = w.st.nodes ∧ (∀ r, (flush m w).1 = .ok r → r = m) ∧
      (∀ n, (flush m w).1 ≠ .error (.lib (.missingNode n))) ∧ (∀ c, (flush m w).1 ≠ .error (.lib (.missingChild c))) := by
    intro w
    rw [flush_eq]
    obtain ⟨h1, h2, h3⟩ := flushList_frame (snapshotOf w.st m.node) w
    cases hf : flushList (snapshotOf w.st m.node) w with
    | mk r w' =>
      rw [hf] at h1 h2 h3
      cases r with
      | ok u => exact ⟨h1, fun r hr => by simpa using hr.symm, fun n => by simp, fun c => by simp⟩
      | error e => exact ⟨h1, fun r hr => by simp at hr, fun n => by simpa using h2 n, fun c => by simpa using h3 c⟩
  exact ⟨fun w r h => (key w).2.1 r h, fun w n h => absurd h ((key w).2.2.1 n), fun w c h => absurd h ((key w).2.2.2 c)⟩

/-- An outcome that is neither a success nor a missing error. -/
def Plain (r : Except Exn Msg) : Prop :=
  (∀ x, r ≠ .ok x) ∧ (∀ n, r ≠ .error (.lib (.missingNode n))) ∧ (∀ c, r ≠ .error (.lib (.missingChild c)))

/-- Running a write after a computation: same state, and the outcome is the old one or a plain failure. -/
theorem after_write (r : Except Exn Msg) (w' : W) (line : Str) :
    let res : Except Exn Msg × W := match transportWrite line w' with
      | (.ok (), w'') => (r, w'')
      | (.error e, w'') => (.error e, w'')
    res.2.st = w'.st ∧ (res.1 = r ∨ Plain res.1) := by
  simp only [transportWrite]
  cases hf : w'.faults with
  | nil => simp
  | cons f fs => cases f <;> simp [Plain]

theorem faithful_of_same_or_plain {m : Msg} {x y : M Msg} (hx : Faithful m x)
    (h : ∀ w, (y w).2.st.nodes = (x w).2.st.nodes ∧ ((y w).1 = (x w).1 ∨ Plain (y w).1)) : Faithful m y := by
  refine ⟨fun w r hr => ?_, fun w n hn => ?_, fun w c hc => ?_⟩
  · rcases (h w).2 with he | hp
    · exact hx.ret w r (he ▸ hr)
    · exact absurd hr (hp.1 r)
  · rcases (h w).2 with he | hp
    · have := hx.missNode w n (he ▸ hn); exact ⟨this.1, (h w).1.trans this.2⟩
    · exact absurd hn (hp.2.1 n)
  · rcases (h w).2 with he | hp
    · have := hx.missChild w c (he ▸ hc); exact ⟨this.1, (h w).1.trans this.2⟩
    · exact absurd hc (hp.2.2 c)

/-- The version-query decorator: the inner outcome, or a plain failure (the query's write failed); the
registry is the inner computation's. -/
theorem wrapMissingPV_same_or_plain (inner : Msg → M Msg) (m : Msg) (w : W) :
    (wrapMissingPV inner m w).2.st.nodes = (inner m w).2.st.nodes ∧
    ((wrapMissingPV inner m w).1 = (inner m w).1 ∨ Plain (wrapMissingPV inner m w).1) := by
  rw [wrapMissingPV_eq]
  simp only []
  have aw := after_write (inner m w).1 (inner m w).2 (encode versionQuery)
  simp only [] at aw
  cases hr : (inner m w).1 with
  | ok m' =>
    rw [hr] at aw
    by_cases hc : ((inner m w).2.st.pv.isNone && wantsVersionQuery m') = true
    · simp only [hc, if_true]; exact ⟨congrArg St.nodes aw.1, aw.2⟩
    · simp only [hc]; exact ⟨rfl, Or.inl rfl⟩
  | error e =>
    rw [hr] at aw
    by_cases hc : ((inner m w).2.st.pv.isNone && wantsVersionQuery m) = true
    · simp only [hc, if_true]; exact ⟨congrArg St.nodes aw.1, aw.2⟩
    · simp only [hc]; exact ⟨rfl, Or.inl rfl⟩

theorem faithful_wrapMissingPV {m : Msg} {inner : Msg → M Msg} (hi : Faithful m (inner m)) :
    Faithful m (wrapMissingPV inner m) :=
  faithful_of_same_or_plain hi fun w => wrapMissingPV_same_or_plain inner m w

/-- The missing-node/child decorator: the inner outcome, or a plain failure (the request's write failed);
the registry is the inner computation's. -/
theorem wrapMissingNC_same_or_plain (inner : Msg → M Msg) (m : Msg) (w : W) :
    (wrapMissingNC inner m w).2.st.nodes = (inner m w).2.st.nodes ∧
    ((wrapMissingNC inner m w).1 = (inner m w).1 ∨ Plain (wrapMissingNC inner m w).1) := by
  cases hin : inner m w with
  | mk r w' =>
    cases r with
    | ok r => rw [wrapMissingNC_ok inner m r w w' hin]; exact ⟨rfl, Or.inl rfl⟩
    | error e =>
      by_cases he : missingCaught e = true
      · by_cases hm : w'.st.ibuf.has (presentationRequest m.node).key = true
        · rw [wrapMissingNC_marked inner m e w w' hin he hm]; exact ⟨rfl, Or.inl rfl⟩
        · have hm' : w'.st.ibuf.has (presentationRequest m.node).key = false := by simpa using hm
          rw [wrapMissingNC_unmarked inner m e w w' hin he hm']
          simp only [transportWrite]
          cases hf : w'.faults with
          | nil => simp
          | cons f fs => cases f <;> simp [Plain]
      · have he' : missingCaught e = false := by simpa using he
        rw [wrapMissingNC_other inner m e w w' hin he']; exact ⟨rfl, Or.inl rfl⟩

theorem faithful_wrapMissingNC {m : Msg} {inner : Msg → M Msg} (hi : Faithful m (inner m)) :
    Faithful m (wrapMissingNC inner m) :=
  faithful_of_same_or_plain hi fun w => wrapMissingNC_same_or_plain inner m w

theorem faithful_pure (m : Msg) : Faithful m (pure m) :=
  ⟨fun w r h => by simpa [M.pure] using h.symm, fun w n h => by simp [M.pure] at h, fun w c h => by simp [M.pure] at h⟩

theorem faithful_raise_other (m : Msg) (e : Exn) (h : missingCaught e = false ∨ ∃ c, e = .foreign c) :
    Faithful m (raise e) := by
  refine ⟨fun w r hr => by simp [M.raise] at hr, fun w n hn => ?_, fun w c hc => ?_⟩
  · simp only [M.raise, Except.error.injEq] at hn
    subst hn
    rcases h with h | ⟨c, h⟩
    · have : missingCaught (.lib (.missingNode n)) = true := by simp only [missingCaught]; decide
      rw [this] at h; exact absurd h (by simp)
    · exact absurd h (by simp)
  · simp only [M.raise, Except.error.injEq] at hc
    subst hc
    rcases h with h | ⟨c', h⟩
    · have : missingCaught (.lib (.missingChild c)) = true := by simp only [missingCaught]; decide
      rw [this] at h; exact absurd h (by simp)
    · exact absurd h (by simp)

/-- `x` never fails with a missing-node or missing-child error. -/
structure Quiet (x : M α) : Prop where
  node : ∀ w n, (x w).1 ≠ .error (.lib (.missingNode n))
  child : ∀ w c, (x w).1 ≠ .error (.lib (.missingChild c))

/-- When `x` succeeds it returns `m`. -/
structure Ret (m : Msg) (x : M Msg) : Prop where
  ret : ∀ w r, (x w).1 = .ok r → r = m

namespace Quiet
theorem pure (a : α) : Quiet (M.pure a) := ⟨fun w n => by simp [M.pure], fun w c => by simp [M.pure]⟩
theorem getSt : Quiet M.getSt := ⟨fun w n => by simp [M.getSt], fun w c => by simp [M.getSt]⟩
theorem modifySt (f : St → St) : Quiet (M.modifySt f) := ⟨fun w n => by simp [M.modifySt], fun w c => by simp [M.modifySt]⟩
theorem raiseInvalid : Quiet (M.raise (.lib .invalidMessage) : M α) := ⟨fun w n => by simp [M.raise], fun w c => by simp [M.raise]⟩
theorem raiseUnsupported : Quiet (M.raise (.lib .unsupported) : M α) := ⟨fun w n => by simp [M.raise], fun w c => by simp [M.raise]⟩
theorem raiseTooMany : Quiet (M.raise (.lib .tooManyNodes) : M α) := ⟨fun w n => by simp [M.raise], fun w c => by simp [M.raise]⟩
theorem raiseForeign (c : PyExn) : Quiet (M.raise (.foreign c) : M α) := ⟨fun w n => by simp [M.raise], fun w c => by simp [M.raise]⟩
theorem bind {x : M α} {f : α → M β} (hx : Quiet x) (hf : ∀ a, Quiet (f a)) : Quiet (M.bind x f) := by
  refine ⟨fun w n => ?_, fun w c => ?_⟩ <;>
  · simp only [M.bind]
    cases hxw : x w with
    | mk r w' =>
      cases r with
      | ok a => first | exact (hf a).node w' n | exact (hf a).child w' c
      | error e =>
        first
        | (have := hx.node w n; rw [hxw] at this; simpa using this)
        | (have := hx.child w c; rw [hxw] at this; simpa using this)
theorem seq {x : M Unit} {y : M β} (hx : Quiet x) (hy : Quiet y) : Quiet (M.seq x y) := bind hx fun _ => hy
theorem gwSend (sm : Msg) (b : Bool) : Quiet (AioMySensors.gwSend sm b) :=
  ⟨fun w n => (gwSend_frame sm b w).2.2.1 n, fun w c => (gwSend_frame sm b w).2.2.2 c⟩
theorem convertExn (classes : List PyExn) (x : Except PyExn α) : Quiet (AioMySensors.convertExn classes .invalidMessage x) := by
  unfold AioMySensors.convertExn
  cases x with
  | ok a => exact pure a
  | error c => simp only []; split <;> first | exact raiseInvalid | exact raiseForeign _
theorem flush (m : Msg) : Quiet (AioMySensors.flush m) := by
  refine ⟨fun w n h => ?_, fun w c h => ?_⟩
  · have := (flush_faithful m).missNode w n h
    rw [flush_eq] at h
    have hh := (flushList_frame (snapshotOf w.st m.node) w).2.1 n
    cases hf : flushList (snapshotOf w.st m.node) w with
    | mk r w' => rw [hf] at h hh; cases r <;> simp_all
  · rw [flush_eq] at h
    have hh := (flushList_frame (snapshotOf w.st m.node) w).2.2 c
    cases hf : flushList (snapshotOf w.st m.node) w with
    | mk r w' => rw [hf] at h hh; cases r <;> simp_all
end Quiet

namespace Ret
theorem pure (m : Msg) : Ret m (M.pure m) := ⟨fun w r h => by simpa [M.pure] using h.symm⟩
theorem raise (m : Msg) (e : Exn) : Ret m (M.raise e) := ⟨fun w r h => by simp [M.raise] at h⟩
theorem bind {m : Msg} {x : M α} {f : α → M Msg} (hf : ∀ a, Ret m (f a)) : Ret m (M.bind x f) := ⟨fun w r h => by
  simp only [M.bind] at h
  cases hxw : x w with
  | mk r' w' =>
    rw [hxw] at h
    cases r' with
    | ok a => exact (hf a).ret w' r h
    | error e => simp at h⟩
theorem seq {m : Msg} {x : M Unit} {y : M Msg} (hy : Ret m y) : Ret m (M.seq x y) := bind fun _ => hy
theorem flush (m : Msg) : Ret m (AioMySensors.flush m) := ⟨(flush_faithful m).ret⟩
end Ret

/-- A body that runs after the node check: never a missing error, returns `m`. -/
theorem faithful_require {m : Msg} {body : Node → M Msg} (hq : ∀ node, Quiet (body node)) (hr : ∀ node, Ret m (body node)) :
    Faithful m (M.bind (requireNode m.node) body) := by
  have key : ∀ w, (M.bind (requireNode m.node) body w = (.error (.lib (.missingNode m.node)), w)) ∨
      ∃ node, M.bind (requireNode m.node) body w = body node w := by
    intro w
    simp only [M.bind, requireNode, M.getSt]
    cases hn : w.st.nodes.get? m.node with
    | none => left; simp [M.raise]
    | some node => right; exact ⟨node, by simp [M.pure]⟩
  refine ⟨fun w r h => ?_, fun w n h => ?_, fun w c h => ?_⟩
  · rcases key w with hk | ⟨node, hk⟩
    · rw [hk] at h; simp at h
    · rw [hk] at h; exact (hr node).ret w r h
  · rcases key w with hk | ⟨node, hk⟩
    · rw [hk] at h ⊢; simp only [Except.error.injEq, Exn.lib.injEq, LibErr.missingNode.injEq] at h; exact ⟨h.symm, rfl⟩
    · rw [hk] at h; exact absurd h ((hq node).node w n)
  · rcases key w with hk | ⟨node, hk⟩
    · rw [hk] at h; simp at h
    · rw [hk] at h; exact absurd h ((hq node).child w c)

/-- Like `faithful_require`, with the child check of `handle_set` / `handle_req` after it. -/
theorem faithful_require_child {m : Msg} {body : Node → Child → M Msg}
    (hq : ∀ node child, Quiet (body node child)) (hr : ∀ node child, Ret m (body node child)) :
    Faithful m (M.bind (requireNode m.node) fun node =>
      match node.children.get? m.child with
      | none => M.raise (.lib (.missingChild m.child))
      | some child => body node child) := by
  have key : ∀ w, (M.bind (requireNode m.node) (fun node =>
      match node.children.get? m.child with
      | none => M.raise (.lib (.missingChild m.child))
      | some child => body node child) w = (.error (.lib (.missingNode m.node)), w)) ∨
      (M.bind (requireNode m.node) (fun node =>
      match node.children.get? m.child with
      | none => M.raise (.lib (.missingChild m.child))
      | some child => body node child) w = (.error (.lib (.missingChild m.child)), w)) ∨
      ∃ node child, M.bind (requireNode m.node) (fun node =>
      match node.children.get? m.child with
      | none => M.raise (.lib (.missingChild m.child))
      | some child => body node child) w = body node child w := by
    intro w
    simp only [M.bind, requireNode, M.getSt]
    cases hn : w.st.nodes.get? m.node with
    | none => left; simp [M.raise]
    | some node =>
      right
      cases hc : node.children.get? m.child with
      | none => left; simp [M.pure, hc, M.raise]
      | some child => right; exact ⟨node, child, by simp [M.pure, hc]⟩
  refine ⟨fun w r h => ?_, fun w n h => ?_, fun w c h => ?_⟩
  · rcases key w with hk | hk | ⟨node, child, hk⟩
    · rw [hk] at h; simp at h
    · rw [hk] at h; simp at h
    · rw [hk] at h; exact (hr node child).ret w r h
  · rcases key w with hk | hk | ⟨node, child, hk⟩
    · rw [hk] at h ⊢; simp only [Except.error.injEq, Exn.lib.injEq, LibErr.missingNode.injEq] at h; exact ⟨h.symm, rfl⟩
    · rw [hk] at h; simp at h
    · rw [hk] at h; exact absurd h ((hq node child).node w n)
  · rcases key w with hk | hk | ⟨node, child, hk⟩
    · rw [hk] at h; simp at h
    · rw [hk] at h ⊢; simp only [Except.error.injEq, Exn.lib.injEq, LibErr.missingChild.injEq] at h; exact ⟨h.symm, rfl⟩
    · rw [hk] at h; exact absurd h ((hq node child).child w c)

/-- A computation that is quiet and returns `m` is faithful. -/
theorem faithful_of_quiet {m : Msg} {x : M Msg} (hq : Quiet x) (hr : Ret m x) : Faithful m x :=
  ⟨hr.ret, fun w n h => absurd h (hq.node w n), fun w c h => absurd h (hq.child w c)⟩

/-- Proof search for `Quiet`. -/
macro "quiet_auto" : tactic => `(tactic| repeat' (first
  | exact Quiet.pure _ | exact Quiet.getSt | exact Quiet.modifySt _ | exact Quiet.raiseInvalid
  | exact Quiet.raiseUnsupported | exact Quiet.raiseTooMany | exact Quiet.raiseForeign _
  | exact Quiet.gwSend _ _ | exact Quiet.convertExn _ _ | exact Quiet.flush _
  | refine Quiet.seq ?_ ?_ | refine Quiet.bind ?_ (fun _ => ?_)
  | split | dsimp only))

/-- Proof search for `Ret m`. -/
macro "ret_auto" : tactic => `(tactic| repeat' (first
  | exact Ret.pure _ | exact Ret.raise _ _ | exact Ret.flush _
  | refine Ret.seq ?_ | refine Ret.bind (fun _ => ?_)
  | split | dsimp only))

theorem faithful_runLeaf (env : Env) (b : Body) (f : Msg → M Msg) (hf : runLeaf env b = some f) (m : Msg) :
    Faithful m (f m) := by
  cases b <;> simp only [runLeaf, Option.some.injEq] at hf <;> try (exact absurd hf (by simp))
  all_goals subst hf
  · -- set14
    unfold hSet
    refine faithful_require_child (fun node child => ?_) (fun node child => ?_)
    · unfold setNode; quiet_auto
    · ret_auto
  · -- req14
    unfold hReq
    refine faithful_require_child (fun node child => ?_) (fun node child => ?_)
    · quiet_auto
    · ret_auto
  · exact faithful_of_quiet (by unfold hVersion; quiet_auto) (by unfold hVersion; ret_auto)
  · exact faithful_of_quiet (by unfold hIdRequest allocNode; quiet_auto) (by unfold hIdRequest; ret_auto)
  · exact faithful_of_quiet (by unfold hConfig; quiet_auto) (by unfold hConfig; ret_auto)
  · exact faithful_of_quiet (by unfold hTime; quiet_auto) (by unfold hTime; ret_auto)
  · -- battery
    unfold hBattery
    refine faithful_require (fun node => ?_) (fun node => ?_)
    · unfold setNode; quiet_auto
    · ret_auto
  · unfold hSketchName
    exact faithful_require (fun node => by unfold setNode; quiet_auto) (fun node => by ret_auto)
  · unfold hSketchVersion
    exact faithful_require (fun node => by unfold setNode; quiet_auto) (fun node => by ret_auto)
  · exact faithful_of_quiet (by unfold hGatewayReady; quiet_auto) (by unfold hGatewayReady; ret_auto)
  · unfold hDiscoverResponse
    exact faithful_require (fun node => by quiet_auto) (fun node => by ret_auto)
  · unfold hHeartbeat20
    exact faithful_require (fun node => by unfold heartbeatValue setNode; quiet_auto) (fun node => by ret_auto)
  · unfold hHeartbeat22
    exact faithful_require (fun node => by unfold heartbeatValue setNode; quiet_auto) (fun node => by ret_auto)
  · unfold hPreSleep22
    exact faithful_require (fun node => by unfold setNode; quiet_auto) (fun node => by ret_auto)

theorem prePresentation20_frame (m : Msg) (w : W) :
    (prePresentation20 m w).1 = .ok () ∧ (prePresentation20 m w).2.st.nodes = w.st.nodes := by
  simp only [prePresentation20, M.modifySt]
  split <;> simp

theorem faithful_seq_pre {m : Msg} (p : M Unit) (x : M Msg)
    (hp : ∀ w, ((p w).1 = .ok () ∧ (p w).2.st.nodes = w.st.nodes) ∨ ∃ c, (p w).1 = .error (.foreign c))
    (hx : Faithful m x) : Faithful m (M.seq p x) := by
  refine ⟨fun w r h => ?_, fun w n h => ?_, fun w c h => ?_⟩ <;> simp only [M.seq, M.bind] at h ⊢
  all_goals
    cases hpw : p w with
    | mk r' w' =>
      rw [hpw] at h
      rcases hp w with ⟨h1, h2⟩ | ⟨c', h1⟩
      · rw [hpw] at h1 h2
        simp only at h1 h2
        subst h1
        simp only at h ⊢
        first
        | exact hx.ret w' _ h
        | (have := hx.missNode w' _ h; exact ⟨this.1, this.2.trans h2⟩)
        | (have := hx.missChild w' _ h; exact ⟨this.1, this.2.trans h2⟩)
      · rw [hpw] at h1
        simp only at h1
        subst h1
        simp at h

theorem faithful_applyLayers (ls : List Layer) (base : Msg → M Msg) (m : Msg) (hb : Faithful m (base m)) :
    Faithful m (applyLayers ls base m) := by
  induction ls with
  | nil => simpa [applyLayers] using hb
  | cons l ls ih =>
    cases l with
    | wrap w =>
      cases w with
      | missingPV => simpa [applyLayers] using faithful_wrapMissingPV ih
      | missingNC => simpa [applyLayers] using faithful_wrapMissingNC ih
    | pre b =>
      simp only [applyLayers]
      refine faithful_seq_pre _ _ (fun w => ?_) ih
      cases b <;> first
        | exact Or.inl (prePresentation20_frame m w)
        | exact Or.inr ⟨_, rfl⟩

theorem faithful_runTyped (env : Env) (och : Option Chain) (m : Msg) : Faithful m (runTyped env och m) := by
  cases och with
  | none => exact faithful_pure m
  | some ch =>
    simp only [runTyped, runInner]
    cases hf : runLeaf env ch.base with
    | none => exact faithful_raise_other m _ (Or.inr ⟨_, rfl⟩)
    | some f => exact faithful_applyLayers _ f m (faithful_runLeaf env _ f hf m)

/-- A node presentation never fails with a missing error; a child presentation only for its node,
before anything changed. -/
theorem faithful_hPresentation (env : Env) (v : Ver) (m : Msg) : Faithful m (hPresentation env v m) := by
  unfold hPresentation
  split
  · -- node presentation: create, then (node 0) the version handler
    have hq : Quiet (runTyped env (Gen.versionHandlerChain v) m) ∧ Ret m (runTyped env (Gen.versionHandlerChain v) m) := by
      have hf := faithful_runTyped env (Gen.versionHandlerChain v) m
      refine ⟨⟨fun w n h => ?_, fun w c h => ?_⟩, ⟨hf.ret⟩⟩
      · -- the version handler has no node check: resolve the generated chain
        cases v <;> (simp only [Gen.versionHandlerChain, runTyped, runInner, runLeaf, applyLayers] at h
                     exact absurd h ((by unfold hVersion; quiet_auto : Quiet (hVersion m)).node w n))
      · cases v <;> (simp only [Gen.versionHandlerChain, runTyped, runInner, runLeaf, applyLayers] at h
                     exact absurd h ((by unfold hVersion; quiet_auto : Quiet (hVersion m)).child w c))
    refine faithful_of_quiet ?_ ?_
    · unfold setNode
      refine Quiet.seq (Quiet.modifySt _) ?_
      split
      · exact hq.1
      · exact Quiet.pure _
    · refine Ret.seq ?_
      split
      · exact hq.2
      · exact Ret.pure _
  · exact faithful_require (fun node => by unfold setNode; quiet_auto) (fun node => by ret_auto)

theorem faithful_runBase (env : Env) (v : Ver) (b : Body) (m : Msg) : Faithful m (runBase env v b m) := by
  cases b
  case presentation14 => exact faithful_hPresentation env v m
  case internal14 =>
    simp only [runBase, hInternal]
    split
    · exact faithful_raise_other m _ (Or.inl (by simp [missingCaught]))
    · exact faithful_runTyped env _ m
  case stream14 =>
    simp only [runBase, hStream]
    have : ∀ node : Node, (match (Gen.streamTypes v).lookup m.type with
        | none => (raise (.lib .unsupported) : M Msg)
        | some _ => runTyped env (((Gen.streamChains v).lookup m.type).join) m) =
        (fun _ : Node => match (Gen.streamTypes v).lookup m.type with
        | none => (raise (.lib .unsupported) : M Msg)
        | some _ => runTyped env (((Gen.streamChains v).lookup m.type).join) m) node := fun _ => rfl
    -- after the node check the rest is a typed handler or "unsupported"
    have hrest : Faithful m (match (Gen.streamTypes v).lookup m.type with
        | none => (raise (.lib .unsupported) : M Msg)
        | some _ => runTyped env (((Gen.streamChains v).lookup m.type).join) m) := by
      split
      · exact faithful_raise_other m _ (Or.inl (by simp [missingCaught]))
      · exact faithful_runTyped env _ m
    refine ⟨fun w r h => ?_, fun w n h => ?_, fun w c h => ?_⟩ <;>
      simp only [M.bind, requireNode, M.getSt] at h ⊢ <;>
      cases hn : w.st.nodes.get? m.node with
      | none =>
        simp only [hn, M.raise] at h ⊢
        first
        | (simp at h; done)
        | (simp only [Except.error.injEq, Exn.lib.injEq, LibErr.missingNode.injEq] at h; exact ⟨h.symm, trivial⟩)
        | (simp only [Except.error.injEq, Exn.lib.injEq, LibErr.missingNode.injEq] at h; exact ⟨h.symm, rfl⟩)
      | some node =>
        simp only [hn, M.pure] at h ⊢
        first
        | exact hrest.ret w _ h
        | exact hrest.missNode w _ h
        | exact hrest.missChild w _ h
  case presentation20 => exact faithful_raise_other m _ (Or.inr ⟨_, rfl⟩)
  case set14 => exact faithful_runLeaf env .set14 _ rfl m
  case req14 => exact faithful_runLeaf env .req14 _ rfl m
  case iVersion14 => exact faithful_runLeaf env .iVersion14 _ rfl m
  case iIdRequest14 => exact faithful_runLeaf env .iIdRequest14 _ rfl m
  case iConfig14 => exact faithful_runLeaf env .iConfig14 _ rfl m
  case iTime14 => exact faithful_runLeaf env .iTime14 _ rfl m
  case iBatteryLevel14 => exact faithful_runLeaf env .iBatteryLevel14 _ rfl m
  case iSketchName14 => exact faithful_runLeaf env .iSketchName14 _ rfl m
  case iSketchVersion14 => exact faithful_runLeaf env .iSketchVersion14 _ rfl m
  case iGatewayReady20 => exact faithful_runLeaf env .iGatewayReady20 _ rfl m
  case iDiscoverResponse20 => exact faithful_runLeaf env .iDiscoverResponse20 _ rfl m
  case iHeartbeatResponse20 => exact faithful_runLeaf env .iHeartbeatResponse20 _ rfl m
  case iHeartbeatResponse22 => exact faithful_runLeaf env .iHeartbeatResponse22 _ rfl m
  case iPreSleepNotification22 => exact faithful_runLeaf env .iPreSleepNotification22 _ rfl m

/-- **Dispatch is faithful** for every version and every message. -/
theorem faithful_dispatch (env : Env) (v : Ver) (m : Msg) : Faithful m (dispatch env v m) := by
  unfold dispatch
  split
  · exact faithful_raise_other m _ (Or.inr ⟨_, rfl⟩)
  · exact faithful_applyLayers _ _ m (faithful_runBase env v _ m)

end AioMySensors
