/-
A third instance of the receive traversal (`Lemmas/Rel.lean`), for relations that look at the WRITE LOG together
with the sleep buffer — "an entry leaves the buffer only by being handed to the transport successfully".  Removing a
flushed entry (`eraseMod`) is not a step of such a relation on its own, but the pair "write the entry, then remove it"
is, so here the primitive of the release loop is that pair (`StepRelW.release`).  The upper part of the traversal
(`runTyped`, `runBase`, `dispatch`) is restated once, generically in how the leaf handlers are justified.
-/
import AioMySensors.Lemmas.Rel

namespace AioMySensors
open M

variable {R : W → W → Prop} {m : Msg} {line : Str}

/-- The release of ONE parked command: hand it to the transport, then remove it if it is still the entry. -/
def releaseOne (k : Key) (bm : Msg) : M Unit := seq (gwSend bm Gen.bufFlush) (eraseMod k bm)

structure StepRelW (R : W → W → Prop) (m : Msg) : Prop extends StepRel0 R m where
  release : ∀ k bm, bm.node = m.node → Rel R (releaseOne k bm)

theorem seq_assoc (a b : M Unit) (c : M Unit) : seq a (seq b c) = seq (seq a b) c := by
  funext w
  simp only [M.seq, M.bind]
  cases a w with
  | mk r w' => cases r <;> rfl

theorem flushList_cons_release (k : Key) (bm : Msg) (rest : List (Key × Msg)) :
    flushList ((k, bm) :: rest) = seq (releaseOne k bm) (flushList rest) := by
  simp only [flushList, releaseOne]
  exact seq_assoc _ _ _

theorem rel_flushListW (hR : StepRelW R m) (l : List (Key × Msg)) (hl : ∀ e ∈ l, e.2.node = m.node) :
    Rel R (flushList l) := by
  induction l with
  | nil => exact Rel.pure hR.pre _
  | cons x xs ih =>
    obtain ⟨k, bm⟩ := x
    rw [flushList_cons_release]
    exact Rel.seq hR.pre (hR.release k bm (hl (k, bm) (by simp))) (ih fun e he => hl e (by simp [he]))

theorem rel_flushW (hR : StepRelW R m) : Rel R (flush m) := by
  unfold flush
  refine Rel.bind hR.pre (Rel.getSt hR.pre) fun st => ?_
  refine Rel.seq hR.pre (rel_flushListW hR _ fun e he => ?_) (Rel.pure hR.pre _)
  simpa using (List.mem_filter.mp he).2

theorem rel_runLeafW (hR : StepRelW R m) (hp : ParkOK R) (env : Env) (b : Body) (f : Msg → M Msg)
    (hf : runLeaf env b = some f) : Rel R (f m) := by
  cases hb : flushing b with
  | false => exact rel_runLeaf0 hR.toStepRel0 hp env b f hf hb
  | true =>
    have h0 := hR.toStepRel0
    cases b <;> first
      | (simp [flushing] at hb; done)
      | skip
    all_goals simp only [runLeaf, Option.some.injEq] at hf
    all_goals subst hf
    · unfold hHeartbeat20 heartbeatValue
      refine Rel.bind hR.pre (rel_requireNode h0 _) fun node => ?_
      refine Rel.bind hR.pre (Rel.convertExn hR.pre _ _ _) fun hb => ?_
      exact Rel.seq hR.pre (hR.setNode _) (rel_flushW hR)
    · unfold hPreSleep22
      refine Rel.bind hR.pre (rel_requireNode h0 _) fun node => ?_
      exact Rel.seq hR.pre (hR.setNode _) (rel_flushW hR)

/-! ### The upper part of the traversal, generic in the justification of the leaf handlers -/

theorem rel_runTypedL (hR : StepRel0 R m) (hp : ParkOK R) (env : Env)
    (hleaf : ∀ b f, runLeaf env b = some f → Rel R (f m)) (och : Option Chain) :
    Rel R (runTyped env och m) := by
  cases och with
  | none => exact Rel.pure hR.pre _
  | some ch =>
    simp only [runTyped, runInner]
    cases hf : runLeaf env ch.base with
    | none => exact Rel.raise hR.pre _
    | some f => exact rel_applyLayers hR hp _ f (hleaf _ f hf)

theorem rel_runBaseL (hR : StepRel0 R m) (hp : ParkOK R) (env : Env) (v : Ver)
    (hleaf : ∀ b f, runLeaf env b = some f → Rel R (f m)) (b : Body) :
    Rel R (runBase env v b m) := by
  cases b
  case presentation14 =>
    simp only [runBase, hPresentation]
    split
    · refine Rel.seq hR.pre (hR.setNode _) ?_
      split
      · exact rel_runTypedL hR hp env hleaf _
      · exact Rel.pure hR.pre _
    · rel_auto hR hp
  case internal14 =>
    simp only [runBase, hInternal]
    split
    · exact Rel.raise hR.pre _
    · exact rel_runTypedL hR hp env hleaf _
  case stream14 =>
    simp only [runBase, hStream]
    refine Rel.bind hR.pre (rel_requireNode hR _) fun _ => ?_
    split
    · exact Rel.raise hR.pre _
    · exact rel_runTypedL hR hp env hleaf _
  case presentation20 => exact Rel.raise hR.pre _
  case set14 => exact hleaf .set14 _ rfl
  case req14 => exact hleaf .req14 _ rfl
  case iVersion14 => exact hleaf .iVersion14 _ rfl
  case iIdRequest14 => exact hleaf .iIdRequest14 _ rfl
  case iConfig14 => exact hleaf .iConfig14 _ rfl
  case iTime14 => exact hleaf .iTime14 _ rfl
  case iBatteryLevel14 => exact hleaf .iBatteryLevel14 _ rfl
  case iSketchName14 => exact hleaf .iSketchName14 _ rfl
  case iSketchVersion14 => exact hleaf .iSketchVersion14 _ rfl
  case iGatewayReady20 => exact hleaf .iGatewayReady20 _ rfl
  case iDiscoverResponse20 => exact hleaf .iDiscoverResponse20 _ rfl
  case iHeartbeatResponse20 => exact hleaf .iHeartbeatResponse20 _ rfl
  case iHeartbeatResponse22 => exact hleaf .iHeartbeatResponse22 _ rfl
  case iPreSleepNotification22 => exact hleaf .iPreSleepNotification22 _ rfl

theorem rel_dispatchW (hR : StepRelW R m) (hp : ParkOK R) (env : Env) (v : Ver) : Rel R (dispatch env v m) := by
  unfold dispatch
  split
  · exact Rel.raise hR.pre _
  · exact rel_applyLayers hR.toStepRel0 hp _ _
      (rel_runBaseL hR.toStepRel0 hp env v (fun b f hf => rel_runLeafW hR hp env b f hf) _)

theorem rel_recvW (hpre : PreO R) (hR : ∀ v m, decode v line = some m → StepRelW R m) (hp : ParkOK R) (env : Env) :
    Rel R (recv env line) := by
  unfold recv
  refine Rel.bind hpre (Rel.getSt hpre) fun st => ?_
  split
  · exact Rel.raise hpre _
  · next m hm => exact rel_dispatchW (hR _ m hm) hp env _

end AioMySensors
