/-
Facts about the awesomeversion model (`Model/AwesomeVersion.lean`, `Model/Version.lean`):
the three views of `get_protocol` (`getProtocolX`, `getProtocolE`, `getProtocol?`) and the
agreement with the numeric definition on the release grammar.
-/
import AioMySensors.Model.Version
import AioMySensors.Lemmas.PyNum

namespace AioMySensors

/-! ### The three views of `get_protocol` -/

theorem getProtocolE_ok_iff {s : Str} {v : Ver} : getProtocolE s = .ok v ↔ getProtocol? s = some v := by
  unfold getProtocolE getProtocol?
  cases getProtocolX s <;> simp

theorem getProtocolE_ok_iff_X {s : Str} {v : Ver} : getProtocolE s = .ok v ↔ getProtocolX s = .ok v := by
  unfold getProtocolE
  cases getProtocolX s <;> simp

theorem getProtocol?_eq_none_iff {s : Str} : getProtocol? s = none ↔ ∃ e, getProtocolX s = .error e := by
  unfold getProtocol?
  cases getProtocolX s <;> simp

/-- A rejected string: `get_protocol` raises the Python class of the comparison error. -/
theorem getProtocolE_of_none {s : Str} (h : getProtocol? s = none) :
    ∃ e, getProtocolX s = .error e ∧ getProtocolE s = .error e.toPy := by
  obtain ⟨e, he⟩ := getProtocol?_eq_none_iff.mp h
  exact ⟨e, he, by simp [getProtocolE, he]⟩

/-! ### `splitOn` -/

theorem splitOn_cons_ne (d c : Char) (cs : Str) (h : c ≠ d) :
    ∃ f fs, splitOn d cs = f :: fs ∧ splitOn d (c :: cs) = (c :: f) :: fs := by
  cases hs : splitOn d cs with
  | nil => exact absurd hs (splitOn_ne_nil d cs)
  | cons f fs => exact ⟨f, fs, rfl, by simp [splitOn, h, hs]⟩

theorem splitOn_cons_eq (d : Char) (cs : Str) : splitOn d (d :: cs) = [] :: splitOn d cs := by
  simp [splitOn]

/-- Every character is the separator or lies in a field. -/
theorem mem_splitOn (d : Char) (s : Str) (c : Char) (hc : c ∈ s) : c = d ∨ ∃ f ∈ splitOn d s, c ∈ f := by
  induction s with
  | nil => simp at hc
  | cons x xs ih =>
    by_cases hx : x = d
    · subst hx
      rw [splitOn_cons_eq]
      rcases List.mem_cons.mp hc with rfl | h
      · exact Or.inl rfl
      · rcases ih h with h | ⟨f, hf, hcf⟩
        · exact Or.inl h
        · exact Or.inr ⟨f, List.mem_cons_of_mem _ hf, hcf⟩
    · obtain ⟨f, fs, h1, h2⟩ := splitOn_cons_ne d x xs hx
      rw [h2]
      rcases List.mem_cons.mp hc with rfl | h
      · exact Or.inr ⟨_, List.mem_cons_self, List.mem_cons_self⟩
      · rcases ih h with h | ⟨g, hg, hcg⟩
        · exact Or.inl h
        · rw [h1] at hg
          rcases List.mem_cons.mp hg with rfl | hg
          · exact Or.inr ⟨_, List.mem_cons_self, List.mem_cons_of_mem _ hcg⟩
          · exact Or.inr ⟨g, List.mem_cons_of_mem _ hg, hcg⟩

theorem splitOn_eq_singleton_nil (d : Char) (s : Str) (h : splitOn d s = [[]]) : s = [] := by
  cases s with
  | nil => rfl
  | cons x xs =>
    by_cases hx : x = d
    · subst hx
      rw [splitOn_cons_eq] at h
      simp at h
      exact absurd h (splitOn_ne_nil _ xs)
    · obtain ⟨f, fs, _, h2⟩ := splitOn_cons_ne d x xs hx
      rw [h2] at h; simp at h

/-- A string that ends with the separator has an empty last field. -/
theorem splitOn_getLast_of_sep (d : Char) (s : Str) (h : s.getLast? = some d) : (splitOn d s).getLast? = some [] := by
  induction s with
  | nil => simp at h
  | cons x xs ih =>
    cases xs with
    | nil =>
      simp at h; subst h; simp [splitOn]
    | cons y ys =>
      rw [List.getLast?_cons_cons] at h
      have ih' := ih h
      by_cases hx : x = d
      · subst hx
        rw [splitOn_cons_eq]
        cases hs : splitOn x (y :: ys) with
        | nil => exact absurd hs (splitOn_ne_nil _ _)
        | cons f fs => rw [hs] at ih'; rw [List.getLast?_cons_cons]; exact ih'
      · obtain ⟨f, fs, h1, h2⟩ := splitOn_cons_ne d x (y :: ys) hx
        rw [h2]
        rw [h1] at ih'
        cases fs with
        | nil =>
          simp at ih'; subst ih'
          exact absurd (splitOn_eq_singleton_nil _ _ h1) (by simp)
        | cons g gs => rw [List.getLast?_cons_cons] at ih' ⊢; exact ih'

/-- The first character of a string whose first field is not empty starts that field. -/
theorem splitOn_head_ne_nil (d : Char) (s : Str) (f : Str) (fs : List Str) (h : splitOn d s = f :: fs) (hf : f ≠ []) :
    ∃ c cs, s = c :: cs ∧ c ≠ d ∧ c ∈ f := by
  cases s with
  | nil => simp [splitOn] at h; exact absurd h.1 hf
  | cons x xs =>
    by_cases hx : x = d
    · subst hx; rw [splitOn_cons_eq] at h; simp at h; exact absurd h.1 hf
    · obtain ⟨g, gs, _, h2⟩ := splitOn_cons_ne d x xs hx
      rw [h2] at h
      simp at h
      exact ⟨x, xs, rfl, hx, by rw [← h.1]; exact List.mem_cons_self⟩

/-! ### The release grammar -/

/-- A component of a release version string. -/
def GoodComp (c : Str) : Prop := c ≠ [] ∧ (∀ x ∈ c, x.isDigit = true) ∧ c.length ≤ Gen.pyMaxStrDigits

theorem verComponent?_some {c : Str} {n : Nat} (h : verComponent? c = some n) :
    GoodComp c ∧ n = Nat.ofDigitChars 10 c 0 := by
  unfold verComponent? at h
  split at h
  · next hc =>
    simp only [Option.some.injEq] at h
    refine ⟨⟨hc.1, ?_, hc.2.2⟩, h.symm⟩
    intro x hx
    exact List.all_eq_true.mp hc.2.1 x hx
  · exact absurd h (by simp)

theorem mapM_verComponent (parts : List Str) (p : List Nat) (h : parts.mapM verComponent? = some p) :
    (∀ c ∈ parts, GoodComp c) ∧ p = parts.map fun c => Nat.ofDigitChars 10 c 0 := by
  induction parts generalizing p with
  | nil => simp at h; simp [h]
  | cons c cs ih =>
    rw [List.mapM_cons] at h
    cases hc : verComponent? c with
    | none => simp [hc] at h
    | some n =>
      cases hcs : cs.mapM verComponent? with
      | none => simp [hc, hcs] at h
      | some q =>
        simp [hc, hcs] at h
        obtain ⟨h1, h2⟩ := ih q hcs
        obtain ⟨g, hn⟩ := verComponent?_some hc
        subst h
        refine ⟨?_, by simp [hn, h2]⟩
        intro x hx
        rcases List.mem_cons.mp hx with rfl | hx
        · exact g
        · exact h1 x hx

/-- What `verParse? s = some p` says. -/
theorem verParse?_some {s : Str} {p : List Nat} (h : verParse? s = some p) :
    2 ≤ (splitOn '.' s).length ∧ (splitOn '.' s).length ≤ 4 ∧ (∀ c ∈ splitOn '.' s, GoodComp c) ∧
    p = (splitOn '.' s).map fun c => Nat.ofDigitChars 10 c 0 := by
  unfold verParse? at h
  simp only at h
  split at h
  · next hl => exact ⟨hl.1, hl.2, mapM_verComponent _ _ h⟩
  · exact absurd h (by simp)

theorem isPySpace_of_isDigit {c : Char} (h : c.isDigit = true) : isPySpace c = false := by
  have := isDigit_toNat h
  simp only [isPySpace, Gen.pySpaces]
  simp only [List.contains_eq_mem, List.mem_cons, List.mem_nil_iff, or_false, decide_eq_false_iff_not]
  omega

/-- The facts about a release string the awesomeversion model needs. -/
structure Release (s : Str) : Prop where
  good : ∀ c ∈ splitOn '.' s, GoodComp c
  len2 : 2 ≤ (splitOn '.' s).length
  len4 : (splitOn '.' s).length ≤ 4

namespace Release
variable {s : Str} (r : Release s)
include r

theorem chars : ∀ x ∈ s, x.isDigit = true ∨ x = '.' := by
  intro x hx
  rcases mem_splitOn '.' s x hx with h | ⟨f, hf, hxf⟩
  · exact Or.inr h
  · exact Or.inl ((r.good f hf).2.1 x hxf)

theorem not_space : ∀ x ∈ s, isPySpace x = false := by
  intro x hx
  rcases r.chars x hx with h | rfl
  · exact isPySpace_of_isDigit h
  · decide

theorem last_ne (d : Char) (hd : d.isDigit = false) : s.getLast? ≠ some d := by
  intro h
  have hm : d ∈ s := List.mem_of_getLast? h
  rcases r.chars d hm with h' | rfl
  · simp [hd] at h'
  · have := splitOn_getLast_of_sep '.' s h
    have hmem : ([] : Str) ∈ splitOn '.' s := List.mem_of_getLast? this
    exact (r.good [] hmem).1 rfl

theorem head : ∃ c cs, s = c :: cs ∧ c.isDigit = true := by
  cases hs : splitOn '.' s with
  | nil => exact absurd hs (splitOn_ne_nil _ _)
  | cons f fs =>
    have hf : GoodComp f := r.good f (by simp [hs])
    obtain ⟨c, cs, h1, _, h3⟩ := splitOn_head_ne_nil '.' s f fs hs hf.1
    exact ⟨c, cs, h1, hf.2.1 c h3⟩

theorem avNorm_eq : avNorm s = s := by
  have h1 : strip s = s := by
    unfold strip rstrip
    rw [dropWhile_eq_self_of_all_not _ _ r.not_space, dropTrailing_eq_self_of_all_not _ _ r.not_space]
  unfold avNorm
  simp only [h1]
  rw [if_neg (r.last_ne '.' (by decide))]

theorem avString_eq : avString s = s := by
  obtain ⟨c, cs, rfl, hc⟩ := r.head
  have h1 : c ≠ 'v' := by intro e; subst e; simp [Char.isDigit] at hc
  have h2 : c ≠ 'V' := by intro e; subst e; simp [Char.isDigit] at hc
  simp [avString, h1, h2]

theorem chomp_eq : chomp s = s := by
  unfold chomp
  rw [if_neg (r.last_ne '\n' (by decide))]

end Release

theorem takeWhile_eq_self_of_all {α} (p : α → Bool) (l : List α) (h : ∀ x ∈ l, p x = true) : l.takeWhile p = l := by
  induction l with
  | nil => rfl
  | cons a t ih => simp [List.takeWhile, h a (by simp), ih fun x hx => h x (by simp [hx])]

theorem dropWhile_eq_nil_of_all {α} (p : α → Bool) (l : List α) (h : ∀ x ∈ l, p x = true) : l.dropWhile p = [] := by
  induction l with
  | nil => rfl
  | cons a t ih => simp [List.dropWhile, h a (by simp), ih fun x hx => h x (by simp [hx])]

theorem isPyDigitC_of_isDigit {c : Char} (h : c.isDigit = true) : isPyDigitC c = true := by
  simp [isPyDigitC, pyDigit?_of_isDigit h]

theorem isLowerAz_of_isDigit {c : Char} (h : c.isDigit = true) : isLowerAz c = false := by
  have := isDigit_toNat h
  simp only [isLowerAz, Bool.and_eq_false_imp, decide_eq_true_eq]
  intro h1
  have : (97 : Nat) ≤ c.toNat := by
    have : 'a'.toNat ≤ c.toNat := h1
    simpa using this
  omega

theorem GoodComp.allDigitC {c : Str} (g : GoodComp c) : c.all isPyDigitC = true :=
  List.all_eq_true.mpr fun x hx => isPyDigitC_of_isDigit (g.2.1 x hx)

namespace Release
variable {s : Str} (r : Release s)
include r

theorem notSign : ∀ x ∈ s, notSignC x = true := by
  intro x hx
  rcases r.chars x hx with h | rfl
  · simp only [notSignC, Bool.and_eq_true, bne_iff_ne, ne_eq]
    constructor <;> (intro e; subst e; simp [Char.isDigit] at h)
  · decide

theorem isSimpleVer_eq : isSimpleVer s = true := by
  obtain ⟨c, cs, rfl, hc⟩ := r.head
  have h1 : c ≠ 'v' := by intro e; subst e; simp [Char.isDigit] at hc
  have h2 : c ≠ 'V' := by intro e; subst e; simp [Char.isDigit] at hc
  have h3 : c ≠ '|' := by intro e; subst e; simp [Char.isDigit] at hc
  simp only [isSimpleVer, h1, h2, h3, or_self, if_false, Bool.and_eq_true, decide_eq_true_eq, List.all_eq_true,
    Bool.not_eq_true', List.isEmpty_eq_false_iff]
  refine ⟨r.len2, fun p hp => ⟨(r.good p hp).1, ?_⟩⟩
  exact fun x hx => isPyDigitC_of_isDigit ((r.good p hp).2.1 x hx)

theorem isSpecialContainer_eq : isSpecialContainer s = false := by
  obtain ⟨c, cs, rfl, hc⟩ := r.head
  simp only [isSpecialContainer, Bool.or_eq_false_iff, beq_eq_false_iff_ne, ne_eq]
  refine ⟨⟨⟨?_, ?_⟩, ?_⟩, ?_⟩ <;> (intro e; simp at e; obtain ⟨e, _⟩ := e; subst e; simp [Char.isDigit] at hc)

theorem isHexVer_eq : isHexVer s = false := by
  cases hs : s with
  | nil => rfl
  | cons a t =>
    cases t with
    | nil => simp [isHexVer]
    | cons b u =>
      have hb : b.isDigit = true ∨ b = '.' := r.chars b (by simp [hs])
      have : b ≠ 'x' := by
        intro e; subst e
        rcases hb with h | h
        · simp [Char.isDigit] at h
        · simp at h
      unfold isHexVer
      split
      · next heq => simp at heq; exact absurd heq.2.1 this
      · rfl

/-- SemVer on a release string: three components, no pre-release. -/
theorem semver_some (h : (semverPre? s).isSome = true) : (splitOn '.' s).length = 3 ∧ semverPre? s = some none := by
  have htw : s.takeWhile notSignC = s := takeWhile_eq_self_of_all _ _ r.notSign
  have hdw : s.dropWhile notSignC = [] := dropWhile_eq_nil_of_all _ _ r.notSign
  unfold semverPre? at h ⊢
  simp only [htw, hdw] at h ⊢
  split at h
  · next a b c heq =>
    split at h
    · next hnum => simp only [Bool.and_eq_true] at hnum; simp [heq, hnum]
    · simp at h
  · simp at h

end Release

theorem chomp_of_digits {t : Str} (h : ∀ x ∈ t, x.isDigit = true) : chomp t = t := by
  unfold chomp
  rw [if_neg]
  intro e
  have := h _ (List.mem_of_getLast? e)
  simp [Char.isDigit] at this

theorem reModifier_of_digits {t : Str} (h : ∀ x ∈ t, x.isDigit = true) : reModifier t = none := by
  unfold reModifier
  simp only [chomp_of_digits h]
  have : t.dropWhile (fun c => !isLowerAz c) = [] :=
    dropWhile_eq_nil_of_all _ _ fun x hx => by simp [isLowerAz_of_isDigit (h x hx)]
  simp [this]

theorem digitsVal_foldl (t : Str) (h : ∀ x ∈ t, x.isDigit = true) (acc : Nat) :
    t.foldl (fun acc c => 10 * acc + (pyDigit? c).getD 0) acc = Nat.ofDigitChars 10 t acc := by
  unfold Nat.ofDigitChars
  induction t generalizing acc with
  | nil => rfl
  | cons c cs ih =>
    simp only [List.foldl_cons]
    rw [pyDigit?_of_isDigit (h c (by simp))]
    exact ih (fun x hx => h x (by simp [hx])) _

theorem digitsVal_eq (t : Str) (h : ∀ x ∈ t, x.isDigit = true) : digitsVal t = Nat.ofDigitChars 10 t 0 :=
  digitsVal_foldl t h 0

/-- `section()` of a release component: its value. -/
theorem GoodComp.section {c : Str} (g : GoodComp c) : avSectionOf c = .ok (Nat.ofDigitChars 10 c 0) := by
  have h1 : c.dropWhile isLowerAz = c := dropWhile_eq_self_of_all_not _ _ fun x hx => isLowerAz_of_isDigit (g.2.1 x hx)
  have h2 : c.takeWhile isPyDigitC = c := takeWhile_eq_self_of_all _ _ fun x hx => isPyDigitC_of_isDigit (g.2.1 x hx)
  have h3 : c.isEmpty = false := by simpa using g.1
  simp [avSectionOf, reDigit, h1, h2, h3, g.2.2, digitsVal_eq c g.2.1]

theorem GoodComp.not_all_space {c : Str} (g : GoodComp c) : c.all isPySpace = false := by
  obtain ⟨h0, h1, _⟩ := g
  cases c with
  | nil => exact absurd rfl h0
  | cons x xs => simp [isPySpace_of_isDigit (h1 x (by simp))]

namespace Release
variable {s : Str} (r : Release s)
include r

theorem avModifier_eq (st : AvStrategy) : avModifier st s = none := by
  unfold avModifier
  split
  · rfl
  · split
    · rw [r.chomp_eq]
      cases h : (semverPre? s).isSome with
      | true => rw [(r.semver_some h).2]
      | false =>
        have : semverPre? s = none := by simpa using h
        rw [this]
    · have hl : ∀ x ∈ (splitOn '.' s).getLast?.getD [], x.isDigit = true := by
        cases hg : (splitOn '.' s).getLast? with
        | none => simp
        | some l => exact (r.good l (List.mem_of_getLast? hg)).2.1
      simp only [reModifier_of_digits hl]
      split <;> rfl

theorem avModifierType_eq (st : AvStrategy) : avModifierType st s = none := by
  unfold avModifierType
  rw [r.avModifier_eq]
  split
  · rfl
  · rfl

theorem avCounted_eq (st : AvStrategy) : avCounted st s = splitOn '.' s := by
  unfold avCounted
  rw [r.avModifier_eq]
  apply List.filter_eq_self.mpr
  intro p hp
  have := (r.good p hp).1
  simp [this]

/-- What the strategy of a release string can be. -/
theorem strategy_spec : avStrategy s ≠ .unknown ∧ avStrategy s ≠ .specialContainer ∧ avStrategy s ≠ .hexVer ∧
    (avStrategy s = .semVer → (splitOn '.' s).length = 3) := by
  unfold avStrategy
  simp only [r.chomp_eq, r.isSimpleVer_eq, r.isSpecialContainer_eq, r.isHexVer_eq]
  split
  · simp
  · split
    · simp
    · split
      · simp at *
      · split
        · next h => exact ⟨by simp, by simp, by simp, fun _ => (r.semver_some h).1⟩
        · simp

theorem avSections_eq : avSections (avStrategy s) s = .ok (splitOn '.' s).length := by
  unfold avSections
  split
  · next h => rw [r.strategy_spec.2.2.2 h]
  · rw [r.avModifierType_eq, r.avCounted_eq]
    have : (splitOn '.' s).any (fun p => p.all isPySpace) = false := by
      simp only [List.any_eq_false]
      intro p hp; simp [(r.good p hp).not_all_space]
    simp [this]

end Release

theorem Release.of_parse {s : Str} {p : List Nat} (h : verParse? s = some p) : Release s :=
  let ⟨h1, h2, h3, _⟩ := verParse?_some h
  ⟨h3, h1, h2⟩

/-- **The comparison on the release grammar.**  For a release string `s` with components `p`,
`AwesomeVersion(s) < AwesomeVersion("a.b")` is the numeric comparison of major.minor. -/
theorem avLtKeyOf_release {s : Str} {p : List Nat} (hp : verParse? s = some p) (a b : Nat) (hne : s ≠ keyStr a b) :
    avLtKeyOf s (avStrategy s) a b = .ok (keyLt (verKey p) (a, b)) := by
  have r := Release.of_parse hp
  obtain ⟨h2, h4, hg, hpv⟩ := verParse?_some hp
  obtain ⟨hu, hsc, hhex, _⟩ := r.strategy_spec
  unfold avLtKeyOf
  rw [if_neg hne, if_neg hu, if_neg hsc, r.avSections_eq]
  simp only [r.avModifier_eq]
  match hs : splitOn '.' s, h2, h4 with
  | [c0, c1], _, _ =>
    have g0 := (hg c0 (by simp [hs])).section
    have g1 := (hg c1 (by simp [hs])).section
    simp only [hs] at hpv
    subst hpv
    clear hp
    simp only [List.map_cons, List.map_nil]
    generalize Nat.ofDigitChars 10 c0 0 = v0 at *
    generalize Nat.ofDigitChars 10 c1 0 = v1 at *
    by_cases e0 : a = v0 <;> by_cases e1 : b = v1 <;>
      simp [avBase, avSection, hhex, hs, g0, g1, keySec, keyLt, verKey, e0, e1] <;> first | omega | rfl | grind
  | [c0, c1, c2], _, _ =>
    have g0 := (hg c0 (by simp [hs])).section
    have g1 := (hg c1 (by simp [hs])).section
    have g2 := (hg c2 (by simp [hs])).section
    simp only [hs] at hpv
    subst hpv
    clear hp
    simp only [List.map_cons, List.map_nil]
    generalize Nat.ofDigitChars 10 c0 0 = v0 at *
    generalize Nat.ofDigitChars 10 c1 0 = v1 at *
    generalize Nat.ofDigitChars 10 c2 0 = v2 at *
    by_cases e0 : a = v0 <;> by_cases e1 : b = v1 <;> cases v2 <;>
      simp [avBase, avSection, hhex, hs, g0, g1, g2, keySec, keyLt, verKey, e0, e1] <;> first | omega | rfl | grind
  | [c0, c1, c2, c3], _, _ =>
    have g0 := (hg c0 (by simp [hs])).section
    have g1 := (hg c1 (by simp [hs])).section
    have g2 := (hg c2 (by simp [hs])).section
    have g3 := (hg c3 (by simp [hs])).section
    simp only [hs] at hpv
    subst hpv
    clear hp
    simp only [List.map_cons, List.map_nil]
    generalize Nat.ofDigitChars 10 c0 0 = v0 at *
    generalize Nat.ofDigitChars 10 c1 0 = v1 at *
    generalize Nat.ofDigitChars 10 c2 0 = v2 at *
    generalize Nat.ofDigitChars 10 c3 0 = v3 at *
    by_cases e0 : a = v0 <;> by_cases e1 : b = v1 <;> cases v2 <;> cases v3 <;>
      simp [avBase, avSection, hhex, hs, g0, g1, g2, g3, keySec, keyLt, verKey, e0, e1] <;> first | omega | rfl | grind
  | [], h, _ => simp at h
  | [_], h, _ => simp at h
  | _ :: _ :: _ :: _ :: _ :: _, _, h => simp at h


/-- The keys themselves are release strings (generated table). -/
theorem verParse?_keys : ∀ k ∈ Gen.versionKeys, verParse? (keyStr k.2.1 k.2.2) = some [k.2.1, k.2.2] := by decide

theorem avLtKeyOf_release_key {s : Str} {p : List Nat} (hp : verParse? s = some p) (k : Ver × Nat × Nat)
    (hk : k ∈ keysDesc) :
    avLtKeyOf s (avStrategy s) k.2.1 k.2.2 = .ok (keyLt (verKey p) (k.2.1, k.2.2)) := by
  by_cases hne : s = keyStr k.2.1 k.2.2
  · have hk' : k ∈ Gen.versionKeys := by simpa [keysDesc] using hk
    unfold avLtKeyOf
    rw [if_pos hne]
    subst hne
    have : p = [k.2.1, k.2.2] := Option.some.inj (hp.symm.trans (verParse?_keys k hk'))
    subst this
    simp [verKey, keyLt]
  · exact avLtKeyOf_release hp _ _ hne

theorem getProtocolFrom_of_keyLt (x : Nat × Nat) (str : Str) (st : AvStrategy) (ks : List (Ver × Nat × Nat))
    (h : ∀ k ∈ ks, avLtKeyOf str st k.2.1 k.2.2 = .ok (keyLt x (k.2.1, k.2.2))) :
    getProtocolFrom str st ks =
      .ok (match ks.find? fun k => !keyLt x (k.2.1, k.2.2) with | some k => k.1 | none => Gen.defaultVersion) := by
  induction ks with
  | nil => rfl
  | cons k ks ih =>
    unfold getProtocolFrom
    rw [h k (by simp)]
    cases hk : keyLt x (k.2.1, k.2.2) with
    | false => simp [List.find?, hk]
    | true =>
      simp only [List.find?, hk, Bool.not_true]
      exact ih fun k' hk' => h k' (by simp [hk'])

/-- On the release grammar the awesomeversion model is the numeric major.minor selection. -/
theorem getProtocolX_release {s : Str} {p : List Nat} (hp : verParse? s = some p) :
    getProtocolX s = .ok (selectVer (verKey p)) := by
  have r := Release.of_parse hp
  unfold getProtocolX
  rw [r.avNorm_eq, r.avString_eq, getProtocolFrom_of_keyLt (verKey p) s _ keysDesc fun k hk => avLtKeyOf_release_key hp k hk]
  rfl


/-! ### Which exception, when -/

theorem avSections_error {st : AvStrategy} {str : Str} {e : AvErr} (h : avSections st str = .error e) : e = .index := by
  unfold avSections at h
  split at h
  · exact absurd h (by simp)
  · split at h
    · simpa using h.symm
    · exact absurd h (by simp)

theorem avSectionOf_error {p : Str} {e : AvErr} (h : avSectionOf p = .error e) :
    e = .value ∧ ∃ g, reDigit p = some g ∧ Gen.pyMaxStrDigits < g.length := by
  unfold avSectionOf at h
  split at h
  · next g hg =>
    split at h
    · exact absurd h (by simp)
    · next hl => exact ⟨by simpa using h.symm, g, hg, by omega⟩
  · exact absurd h (by simp)

theorem avSection_error {st : AvStrategy} {str : Str} {n idx : Nat} {e : AvErr} (h : avSection st str n idx = .error e) :
    e = .value ∧ ∃ p ∈ splitOn '.' str, ∃ g, reDigit p = some g ∧ Gen.pyMaxStrDigits < g.length := by
  unfold avSection at h
  split at h
  · exact absurd h (by simp)
  · split at h
    · obtain ⟨he, g, hg, hl⟩ := avSectionOf_error h
      refine ⟨he, (splitOn '.' str).getD idx [], ?_, g, hg, hl⟩
      rw [List.getD_eq_getElem?_getD]
      cases hi : (splitOn '.' str)[idx]? with
      | some p => simpa using List.mem_of_getElem? hi
      | none =>
        rw [List.getD_eq_getElem?_getD, hi] at hg
        simp [reDigit] at hg
    · exact absurd h (by simp)

theorem avBase_error {a b : Nat} {sec : Nat → Except AvErr Nat} {n idx : Nat} {e : AvErr}
    (h : avBase a b sec n idx = .error e) : ∃ i, sec i = .error e := by
  induction n generalizing idx with
  | zero => simp [avBase] at h
  | succ n ih =>
    unfold avBase at h
    split at h
    · next e' he => exact ⟨idx, by simpa [he] using h⟩
    · split at h
      · exact ih h
      · exact absurd h (by simp)

/-- What a single comparison can raise, and why. -/
theorem avLtKeyOf_error {str : Str} {st : AvStrategy} {a b : Nat} {e : AvErr} (h : avLtKeyOf str st a b = .error e) :
    (e = .compare ∧ st = .unknown) ∨
    (e = .index ∧ st ≠ .unknown ∧ st ≠ .specialContainer ∧ avSections st str = .error .index) ∨
    (e = .value ∧ st ≠ .unknown ∧ ∃ p ∈ splitOn '.' str, ∃ g, reDigit p = some g ∧ Gen.pyMaxStrDigits < g.length) := by
  unfold avLtKeyOf at h
  split at h
  · exact absurd h (by simp)
  · split at h
    · next hu => exact Or.inl ⟨by simpa using h.symm, hu⟩
    · next hu =>
      split at h
      · exact absurd h (by simp)
      · next hsc =>
        split at h
        · next e' he =>
          have := avSections_error he
          subst this
          exact Or.inr (Or.inl ⟨by simpa using h.symm, hu, hsc, he⟩)
        · next n hn =>
          split at h
          · next e' he =>
            obtain ⟨i, hi⟩ := avBase_error he
            obtain ⟨hv, hp⟩ := avSection_error hi
            subst hv
            exact Or.inr (Or.inr ⟨by simpa using h.symm, hu, hp⟩)
          · exact absurd h (by simp)
          · exact absurd h (by simp)

theorem getProtocolFrom_error {str : Str} {st : AvStrategy} {ks : List (Ver × Nat × Nat)} {e : AvErr}
    (h : getProtocolFrom str st ks = .error e) : ∃ k ∈ ks, avLtKeyOf str st k.2.1 k.2.2 = .error e := by
  induction ks with
  | nil => simp [getProtocolFrom] at h
  | cons k ks ih =>
    unfold getProtocolFrom at h
    split at h
    · next e' he => exact ⟨k, by simp, by simpa [he] using h⟩
    · exact absurd h (by simp)
    · obtain ⟨k', hk', he⟩ := ih h
      exact ⟨k', by simp [hk'], he⟩


theorem length_dropTrailing_le (p : Char → Bool) (s : Str) : (dropTrailing p s).length ≤ s.length := by
  induction s with
  | nil => simp [dropTrailing]
  | cons c cs ih =>
    rw [dropTrailing_cons]
    split
    · simp
    · simp only [List.length_cons]; omega

theorem length_dropWhile_le' {α} (p : α → Bool) (l : List α) : (l.dropWhile p).length ≤ l.length := by
  induction l with
  | nil => simp
  | cons a t ih =>
    simp only [List.dropWhile]
    split
    · simp only [List.length_cons]; omega
    · simp

theorem length_takeWhile_le' {α} (p : α → Bool) (l : List α) : (l.takeWhile p).length ≤ l.length := by
  induction l with
  | nil => simp
  | cons a t ih =>
    simp only [List.takeWhile]
    split
    · simp only [List.length_cons]; omega
    · simp

theorem length_le_of_mem_splitOn (d : Char) (s : Str) : ∀ f ∈ splitOn d s, f.length ≤ s.length := by
  induction s with
  | nil => simp [splitOn]
  | cons x xs ih =>
    by_cases hx : x = d
    · subst hx
      rw [splitOn_cons_eq]
      intro f hf
      rcases List.mem_cons.mp hf with rfl | hf
      · simp
      · have := ih f hf; simp; omega
    · obtain ⟨g, gs, h1, h2⟩ := splitOn_cons_ne d x xs hx
      rw [h2]
      intro f hf
      rcases List.mem_cons.mp hf with rfl | hf
      · have := ih g (by simp [h1]); simp; omega
      · have := ih f (by simp [h1, hf]); simp; omega

theorem length_avString_avNorm_le (s : Str) : (avString (avNorm s)).length ≤ s.length := by
  have h1 : (avNorm s).length ≤ s.length := by
    have hs : (strip s).length ≤ s.length := by
      unfold strip rstrip
      exact Nat.le_trans (length_dropTrailing_le _ _) (length_dropWhile_le' _ _)
    unfold avNorm
    simp only
    split
    · simp; omega
    · exact hs
  have h2 : ∀ t : Str, (avString t).length ≤ t.length := by
    intro t
    cases t with
    | nil => simp [avString]
    | cons c r => simp only [avString]; split <;> simp
  exact Nat.le_trans (h2 _) h1

theorem length_reDigit_le {p g : Str} (h : reDigit p = some g) : g.length ≤ p.length := by
  unfold reDigit at h
  simp only at h
  split at h
  · exact absurd h (by simp)
  · simp only [Option.some.injEq] at h
    subst h
    exact Nat.le_trans (length_takeWhile_le' _ _) (length_dropWhile_le' _ _)


/-! ### Plain integers -/

theorem splitOn_of_not_mem (d : Char) (s : Str) (h : d ∉ s) : splitOn d s = [s] := by
  induction s with
  | nil => rfl
  | cons x xs ih =>
    have hx : x ≠ d := fun e => h (by simp [e])
    obtain ⟨f, fs, h1, h2⟩ := splitOn_cons_ne d x xs hx
    rw [ih (fun hm => h (by simp [hm]))] at h1
    simp at h1
    rw [h2, ← h1.1, ← h1.2]

/-- **Plain integers** (awesomeversion's BuildVer): a non-empty run of ASCII digits within the digit limit is
compared as `major = n`, `minor = 0`. -/
theorem getProtocolX_plain_integer (s : Str) (g : GoodComp s) :
    getProtocolX s = .ok (selectVer (Nat.ofDigitChars 10 s 0, 0)) := by
  have hdig := g.2.1
  have hnosp : ∀ x ∈ s, isPySpace x = false := fun x hx => isPySpace_of_isDigit (hdig x hx)
  have hlast : ∀ d : Char, d.isDigit = false → s.getLast? ≠ some d := by
    intro d hd e
    have := hdig d (List.mem_of_getLast? e)
    simp [hd] at this
  have hnorm : avNorm s = s := by
    have h1 : strip s = s := by
      unfold strip rstrip
      rw [dropWhile_eq_self_of_all_not _ _ hnosp, dropTrailing_eq_self_of_all_not _ _ hnosp]
    unfold avNorm
    simp only [h1]
    rw [if_neg (hlast '.' (by decide))]
  obtain ⟨c, cs, hs⟩ : ∃ c cs, s = c :: cs := by
    cases hs : s with
    | nil => exact absurd hs g.1
    | cons c cs => exact ⟨c, cs, rfl⟩
  have hc : c.isDigit = true := hdig c (by simp [hs])
  have hstr : avString s = s := by
    have h1 : c ≠ 'v' := by intro e; subst e; simp [Char.isDigit] at hc
    have h2 : c ≠ 'V' := by intro e; subst e; simp [Char.isDigit] at hc
    simp [hs, avString, h1, h2]
  have hchomp : chomp s = s := chomp_of_digits hdig
  have hdot : '.' ∉ s := fun hm => by have := hdig _ hm; simp [Char.isDigit] at this
  have hsplit : splitOn '.' s = [s] := splitOn_of_not_mem _ _ hdot
  have hstrat : avStrategy s = .buildVer := by
    unfold avStrategy
    have : isBuildVer s = true := by
      simp only [isBuildVer, Bool.and_eq_true, Bool.not_eq_true', List.isEmpty_eq_false_iff]
      exact ⟨g.1, g.allDigitC⟩
    simp [hchomp, this]
  have hmod : avModifier .buildVer s = none := by
    simp [avModifier, hsplit, reModifier_of_digits hdig]
  have hsec : avSections .buildVer s = .ok 1 := by
    have hmt : avModifierType .buildVer s = none := by
      unfold avModifierType
      rw [hmod]
      rfl
    have hcnt : avCounted .buildVer s = [s] := by
      unfold avCounted
      rw [hmod, hsplit]
      have : s.isEmpty = false := by simpa using g.1
      simp [this]
    unfold avSections
    simp [hmt, hcnt, g.not_all_space]
  have hlt : ∀ k ∈ keysDesc, avLtKeyOf s .buildVer k.2.1 k.2.2 =
      .ok (keyLt (Nat.ofDigitChars 10 s 0, 0) (k.2.1, k.2.2)) := by
    intro k _
    have hne : s ≠ keyStr k.2.1 k.2.2 := by
      intro e
      apply hdot
      rw [e]
      simp [keyStr]
    unfold avLtKeyOf
    rw [if_neg hne, hsec, hmod]
    have s0 : avSection .buildVer s 1 0 = .ok (Nat.ofDigitChars 10 s 0) := by
      simp [avSection, hsplit, g.section]
    have s1 : avSection .buildVer s 1 1 = .ok 0 := by simp [avSection]
    generalize Nat.ofDigitChars 10 s 0 = n at *
    by_cases e0 : k.2.1 = n <;> cases hb : k.2.2 <;>
      simp [avBase, s0, s1, keySec, keyLt, e0] <;> first | omega | rfl | grind
  unfold getProtocolX
  rw [hnorm, hstr, hstrat, getProtocolFrom_of_keyLt (Nat.ofDigitChars 10 s 0, 0) s _ keysDesc hlt]
  rfl


end AioMySensors
