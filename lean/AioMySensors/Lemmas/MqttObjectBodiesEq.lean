/-
The tie between the generated methods of the MQTT transport object (`Generated/MqttObjectBodies.lean`, written by
`tools/translate_mqttclient.py` from `transport/mqtt.py` of the working tree on every run of C18) and the hand-written
object model of `Model/MqttObject.lean` / `Model/Mqtt.lean` that the C18 theorems speak about: each generated method,
run on any object with any outcome of the awaited client calls, has exactly the outcome and the resulting object of
its hand-written counterpart, and makes the `subscribe` / `publish` calls the model says.
-/
import AioMySensors.Generated.MqttObjectBodies
import AioMySensors.Lemmas.MqttBodiesEq
import AioMySensors.Lemmas.Mqtt

set_option linter.unusedSimpArgs false

namespace AioMySensors.MqttObjectBodiesEq
open AioMySensors AioMySensors.Mqtt

/-! ### The except clauses of the generated methods are the clauses the model reads from the generated tables

Stated semantically (for every exception class: the same verdict), so that clauses merged, split, duplicated or
reordered without a change of effect leave the proofs alone. -/

theorem connect_clauses (c : PyExn) : OM.firstMatch c GenMqttObj.client_connectClauses0 =
    if pyCaught c (clause Gen.excMqttConnect 0) then some .transportError else none := by
  cases c <;> decide

theorem subscribe_clauses (c : PyExn) : OM.firstMatch c GenMqttObj.client_subscribeClauses0 =
    if pyCaught c (clause Gen.excMqttSubscribe 0) then some .transportError else none := by
  cases c <;> decide

theorem publish_clauses (c : PyExn) : OM.firstMatch c GenMqttObj.client_publishClauses0 =
    if pyCaught c (clause Gen.excMqttPublish 0) then some .transportFailed else none := by
  cases c <;> decide

theorem disconnect_suppress0 (c : PyExn) :
    pyCaught c GenMqttObj.client_disconnectSuppress0 = pyCaught c (clause Gen.excMqttDisconnect 0) := by
  cases c <;> decide

theorem disconnect_suppress1 (c : PyExn) :
    pyCaught c GenMqttObj.client_disconnectSuppress1 = pyCaught c (clause Gen.excMqttDisconnect 1) := by
  cases c <;> decide

attribute [local simp] OM.bind OM.seq OM.pure OM.raise OM.catchMap OM.suppress OM.onExcept OM.tryCatch OM.ifNone OM.test
  OM.liftPM LO.hasClient LO.hasTask LO.newClient LO.clearClient LO.aenter LO.aexit LO.subscribe LO.publish LO.createTask
  LO.clearTask LO.taskCancel LO.awaitTask LO.runPending LO.queueGet LO.taskDone LO.putNowait LO.messageEntry LO.errorEntry
  LO.isError LO.errorOf LO.messageOf LO.decodeBytes ofOutcome unitResult misuse

/-! ### `MQTTClient._connect` -/

/-- The outcome of an awaited client call under `except <clause>: raise <e>`, as a method's result. -/
def converted (classes : List PyExn) (e : MqttExn) (x : Outcome) : Except Stop Unit :=
  match convert classes e x with
  | .ok () => .ok ()
  | .error e => .error (.exn e)

theorem client_connect_eq (w : World) (aenter : Outcome) :
    GenMqttObj.client_connect aenter w =
      if w.o.client || w.o.task.isSome then (.error (.exn misuse), w)
      else
        match convert (clause Gen.excMqttConnect 0) .transportError aenter with
        | .ok () => (.ok (), { w with o := { w.o with client := true, task := some .notStarted } })
        | .error e => (.error (.exn e), { w with o := { w.o with client := true } }) := by
  cases hc : w.o.client <;> cases ht : w.o.task <;> simp [GenMqttObj.client_connect, hc, ht]
  cases aenter with
  | ok => simp [convert]
  | raised c => cases h : pyCaught c (clause Gen.excMqttConnect 0) <;> simp [convert, connect_clauses, h]

/-! ### `MQTTClient._disconnect` / `MQTTTransport.disconnect` -/

theorem client_disconnect_eq (w : World) (aexit : Outcome) :
    GenMqttObj.client_disconnect aexit w = (ofOutcome (oDisconnect w.o aexit).2, { w with o := (oDisconnect w.o aexit).1 }) := by
  cases hc : w.o.client <;> cases ht : w.o.task <;> simp [GenMqttObj.client_disconnect, oDisconnect, hc, ht]
  rename_i t
  cases h1 : (cancelTask t).1 with
  | ok =>
    cases aexit with
    | ok => simp [disconnect, Mqtt.suppress, cancelAndAwait, h1, hc]
    | raised c =>
      cases h : pyCaught c (clause Gen.excMqttDisconnect 1) <;>
        simp [disconnect, Mqtt.suppress, cancelAndAwait, h1, hc, disconnect_suppress1, h]
  | raised c0 =>
    cases h0 : pyCaught c0 (clause Gen.excMqttDisconnect 0)
    · simp [disconnect, Mqtt.suppress, cancelAndAwait, h1, hc, disconnect_suppress0, h0]
    · cases aexit with
      | ok => simp [disconnect, Mqtt.suppress, cancelAndAwait, h1, hc, disconnect_suppress0, h0]
      | raised c =>
        cases h : pyCaught c (clause Gen.excMqttDisconnect 1) <;>
          simp [disconnect, Mqtt.suppress, cancelAndAwait, h1, hc, disconnect_suppress0, disconnect_suppress1, h0, h]

/-- **`disconnect`**: the outcome and the resulting object of `oDisconnect`; no call on the client is recorded. -/
theorem disconnect_eq (w : World) (aexit : Outcome) :
    GenMqttObj.disconnect aexit w = (ofOutcome (oDisconnect w.o aexit).2, { w with o := (oDisconnect w.o aexit).1 }) := by
  simp only [GenMqttObj.disconnect, client_disconnect_eq]

/-! ### `MQTTClient._subscribe` -/

/-- The call `_subscribe(topic, qos)` records on a connected client (read off the generated method itself, so that
the keyword arguments it passes besides `qos` are not repeated here). -/
def subCalls (topic : Str) (qos : Int) : List Call :=
  (GenMqttObj.client_subscribe topic qos .ok { o := { client := true } }).2.calls

/-- It is one `subscribe` call, on that topic with that qos. -/
theorem subCalls_seen (topic : Str) (qos : Int) : (subCalls topic qos).map Call.subscribed = [some (topic, qos)] := by
  simp [subCalls, GenMqttObj.client_subscribe, Call.subscribed, List.lookup]

/-- **`_subscribe`**: the outcome of `oSubscribe`, the object untouched, the call recorded when the guard lets it
through. -/
theorem client_subscribe_eq (w : World) (topic : Str) (qos : Int) (sub : Outcome) :
    GenMqttObj.client_subscribe topic qos sub w =
      ((match oSubscribe w.o sub with | .ok () => .ok () | .error e => .error (.exn e)),
       if w.o.client then { w with calls := w.calls ++ subCalls topic qos } else w) := by
  cases hc : w.o.client <;> simp [GenMqttObj.client_subscribe, oSubscribe, subCalls, hc]
  cases sub with
  | ok => simp [convert]
  | raised c => cases h : pyCaught c (clause Gen.excMqttSubscribe 0) <;> simp [convert, subscribe_clauses, h]

/-! ### `MQTTClient._publish` / `MQTTTransport.write` -/

/-- The call `_publish(topic, payload, qos)` records on a connected client. -/
def pubCalls (topic payload : Str) (qos : Int) : List Call :=
  (GenMqttObj.client_publish topic payload qos .ok { o := { client := true } }).2.calls

/-- It is one `publish` call, of that payload on that topic with that qos (an empty payload may be left out: aiomqtt
then publishes an empty payload). -/
theorem pubCalls_seen (topic payload : Str) (qos : Int) :
    (pubCalls topic payload qos).map Call.published = [some (topic, payload, qos)] := by
  cases payload <;> simp [pubCalls, GenMqttObj.client_publish, Call.published, List.lookup, LO.truthy, LO.kwSet]

/-- It never asks the broker to retain the message. -/
theorem pubCalls_not_retained (topic payload : Str) (qos : Int) :
    (pubCalls topic payload qos).all (fun c => !c.retained) = true := by
  cases payload <;> simp [pubCalls, GenMqttObj.client_publish, Call.retained, List.lookup, LO.truthy, LO.kwSet]

theorem client_publish_eq (w : World) (topic payload : Str) (qos : Int) (pub : Outcome) :
    GenMqttObj.client_publish topic payload qos pub w =
      if w.o.client then
        (converted (clause Gen.excMqttPublish 0) .transportFailed pub, { w with calls := w.calls ++ pubCalls topic payload qos })
      else (.error (.exn misuse), w) := by
  cases hc : w.o.client <;> simp [GenMqttObj.client_publish, pubCalls, converted, hc]
  cases pub with
  | ok => simp [convert]
  | raised c => cases h : pyCaught c (clause Gen.excMqttPublish 0) <;> simp [convert, publish_clauses, h]

/-- **`write`**: raises what `oWrite` raises and returns when `oWrite` returns a triple; the object is untouched; when
the line parses and the guard lets it through, exactly one `publish` call is recorded, and it publishes the triple
`toTopic` computes (which is what `oWrite` returns on success). -/
theorem write_eq (w : World) (pre line : Str) (pub : Outcome) :
    GenMqttObj.write pre line pub w =
      ((match oWrite w.o pre line pub with | .ok _ => .ok () | .error e => .error (.exn e)),
       match toTopic pre line with
       | some r => if w.o.client then { w with calls := w.calls ++ pubCalls r.1 r.2.1 r.2.2 } else w
       | none => w) := by
  simp only [GenMqttObj.write, OM.bind, OM.liftPM, MqttBodiesEq.parse_message_to_mqtt_eq, oWrite]
  cases ht : toTopic pre line with
  | none => simp
  | some r =>
    obtain ⟨t, p, q⟩ := r
    cases hc : w.o.client <;> simp [client_publish_eq, hc, Mqtt.write, ht, converted]
    cases convert (clause Gen.excMqttPublish 0) MqttExn.transportFailed pub <;> simp

/-- What a successful `write` published is what `oWrite` returned. -/
theorem write_published (s : OState) (pre line : Str) (pub : Outcome) (r : Str × Str × Int)
    (h : oWrite s pre line pub = .ok r) : toTopic pre line = some r := by
  simp only [oWrite] at h
  cases ht : toTopic pre line with
  | none => simp [ht] at h
  | some r' =>
    simp only [ht] at h
    cases hc : s.client
    · simp [hc, misuse] at h
    · simp only [hc, if_true, Mqtt.write, ht] at h
      cases hcv : convert (clause Gen.excMqttPublish 0) MqttExn.transportFailed pub <;> simp [hcv] at h
      simp [h]

/-! ### `MQTTTransport.connect`: the arguments of the five `_subscribe` calls

The loop body (`connectArgs`: topic and qos for one partial topic) is generated code of unknown shape, so the proof
does not follow its structure: under any prefix it computes what it computes under the empty prefix (the levels it
indexes from the end are those of the partial topic), and under the empty prefix everything is closed and decided
by evaluation — for the generated loop body and for the model's `subQos` alike. -/

theorem indexNeg_append {α} (X Y : List α) (k : Nat) (h0 : 0 < k) (hk : k ≤ Y.length) :
    PM.indexNeg (X ++ Y) k = PM.indexNeg Y k := by
  have e : (X ++ Y).length - k = X.length + (Y.length - k) := by simp only [List.length_append]; omega
  have n1 : ¬ (k = 0 ∨ (X ++ Y).length < k) := by simp only [List.length_append]; omega
  have n2 : ¬ (k = 0 ∨ Y.length < k) := by omega
  simp only [PM.indexNeg, n1, n2, if_false, PM.indexPos, e]
  rw [List.getElem?_append_right (by omega)]
  simp

theorem indexNeg_cons {α} (x : α) (Y : List α) (k : Nat) (h0 : 0 < k) (hk : k ≤ Y.length) :
    PM.indexNeg (x :: Y) k = PM.indexNeg Y k := indexNeg_append [x] Y k h0 hk

theorem splitOn_sep_cons (d : Char) (rest : Str) : splitOn d (d :: rest) = [] :: splitOn d rest := by
  simp [splitOn]

theorem pm_map_bind {α β γ} (x : LMq.PM α) (f : α → LMq.PM β) (g : β → γ) :
    Except.map g (LMq.bind x f) = LMq.bind x fun a => Except.map g (f a) := by
  cases x <;> rfl

theorem pm_map_ite {β γ} (c : Prop) [Decidable c] (a b : LMq.PM β) (g : β → γ) :
    Except.map g (if c then a else b) = if c then Except.map g a else Except.map g b := by
  split <;> rfl

theorem pm_map_catchDefault {β γ} (x : LMq.PM β) (cl : List PyExn) (d : β) (g : β → γ) :
    Except.map g (PM.catchDefault x cl d) = PM.catchDefault (Except.map g x) cl (g d) := by
  cases x with
  | ok a => rfl
  | error c => cases h : pyCaught c cl <;> simp [PM.catchDefault, Except.map, h]

theorem pm_map_ok {β γ} (b : β) (g : β → γ) : Except.map g (.ok b : LMq.PM β) = .ok (g b) := rfl
theorem pm_map_error {β γ} (c : PyExn) (g : β → γ) : Except.map g (.error c : LMq.PM β) = .error c := rfl

/-- Under a prefix the loop body computes what it computes without one, with the prefix in front of the topic: for a
partial topic `/rest` with at least five levels after the slash. -/
theorem connectArgs_transfer (pre rest : Str) (h : 5 ≤ (splitOn (Char.ofNat 47) rest).length) :
    GenMqttObj.connectArgs pre (Char.ofNat 47 :: rest) =
      Except.map (fun r => (pre ++ r.1, r.2)) (GenMqttObj.connectArgs [] (Char.ofNat 47 :: rest)) := by
  simp (disch := omega) only [GenMqttObj.connectArgs, splitOn_append_sep, List.nil_append, splitOn_sep_cons,
    indexNeg_append, indexNeg_cons, pm_map_bind, pm_map_ite, pm_map_catchDefault, pm_map_ok, pm_map_error]

theorem secondLast_append {α} (X L : List α) (h : 2 ≤ L.length) : secondLast (X ++ L) = secondLast L := by
  simp only [secondLast, List.reverse_append]
  match hL : L.reverse with
  | [] => have := congrArg List.length hL; simp only [List.length_reverse, List.length_nil] at this; omega
  | [_] => have := congrArg List.length hL; simp only [List.length_reverse, List.length_cons, List.length_nil] at this; omega
  | a :: b :: r => simp

theorem subQos_transfer (pre rest : Str) (h : 5 ≤ (splitOn (Char.ofNat 47) rest).length) :
    subQos (pre ++ Char.ofNat 47 :: rest) = subQos (Char.ofNat 47 :: rest) := by
  have e : (Char.ofNat 47 : Char) = '/' := rfl
  simp only [e] at h ⊢
  simp only [subQos, splitOn_append_sep, splitOn_sep_cons]
  rw [secondLast_append _ _ (by omega), show ([] :: splitOn '/' rest) = [[]] ++ splitOn '/' rest from rfl,
    secondLast_append _ _ (by omega)]

/-- The topic list of the generated `connect` is the table the model's `filters` reads. -/
theorem connectTopics_table : GenMqttObj.connectTopics = Gen.mqttPartialTopics.map String.toList := by decide

/-- Every partial topic is `/` followed by at least five levels. -/
def topicShape (t : Str) : Bool :=
  match t with
  | c :: rest => c == Char.ofNat 47 && decide (5 ≤ (splitOn (Char.ofNat 47) rest).length)
  | [] => false

theorem connectTopics_shape : GenMqttObj.connectTopics.all topicShape = true := by decide

deriving instance DecidableEq for Except

/-- Without a prefix: the loop body computes the topic itself and the qos of the model's `subQos` (`IndexError` where
`subQos` has none), for each partial topic. -/
theorem connectArgs_closed : ∀ t ∈ GenMqttObj.connectTopics,
    GenMqttObj.connectArgs [] t = (match subQos t with | some q => .ok (t, q) | none => .error .IndexError) := by
  decide

/-- No partial topic lacks a second-last level. -/
theorem subQos_closed : ∀ t ∈ GenMqttObj.connectTopics, (subQos t).isSome = true := by decide

/-- The arguments of the `_subscribe` calls the model describes: `subscriptions` with its qos read out. -/
def subArgs (pre : Str) : List (Str × Int) := (subscriptions pre).map fun a => (a.1, a.2.getD 0)

theorem pm_mapM_of_forall {α β} (f : α → LMq.PM β) (g : α → β) :
    ∀ l : List α, (∀ a ∈ l, f a = .ok (g a)) → PM.mapM f l = .ok (l.map g) := by
  intro l
  induction l with
  | nil => intro _; rfl
  | cons a as ih =>
    intro h
    simp [PM.mapM, h a (by simp), ih (fun b hb => h b (by simp [hb]))]

theorem connectArgs_one (pre t : Str) (ht : t ∈ GenMqttObj.connectTopics) :
    GenMqttObj.connectArgs pre t = .ok (pre ++ t, (subQos (pre ++ t)).getD 0) := by
  have hs := List.all_eq_true.mp connectTopics_shape t ht
  match t, hs with
  | c :: rest, hs =>
    simp only [topicShape, Bool.and_eq_true, beq_iff_eq, decide_eq_true_eq] at hs
    obtain ⟨rfl, hlen⟩ := hs
    have hc := connectArgs_closed _ ht
    have hq := subQos_closed _ ht
    rw [connectArgs_transfer pre rest hlen, subQos_transfer pre rest hlen, hc]
    cases hq' : subQos (Char.ofNat 47 :: rest) with
    | none => simp [hq'] at hq
    | some q => rfl

/-- **The loop of `connect`** computes, in order, the topic filters and qos levels of the model's `subscriptions`
(C18 `connect_subscriptions` says what they are), for every in-prefix. -/
theorem connectArgs_eq (pre : Str) :
    PM.mapM (GenMqttObj.connectArgs pre) GenMqttObj.connectTopics = .ok (subArgs pre) := by
  rw [pm_mapM_of_forall _ (fun t => (pre ++ t, (subQos (pre ++ t)).getD 0)) _ (fun t ht => connectArgs_one pre t ht)]
  simp [subArgs, subscriptions, filters, connectTopics_table, List.map_map, Function.comp_def]

theorem subArgs_length (pre : Str) : (subArgs pre).length = GenMqttObj.connectTopics.length := by
  simp [subArgs, subscriptions, filters, connectTopics_table]

/-! ### `MQTTTransport.connect` -/

/-- The outcomes of the `n` subscribe calls: the i-th child of the `gather` gets the i-th of `outs`, `ok` where the
list is too short; a longer list is cut (there is no sixth call). -/
def pad : Nat → List Outcome → List Outcome
  | 0, _ => []
  | n + 1, outs => outs.headD .ok :: pad n outs.tail

theorem pad_of_length : ∀ (n : Nat) (outs : List Outcome), outs.length = n → pad n outs = outs
  | 0, [], _ => rfl
  | n + 1, o :: os, h => by simp [pad, pad_of_length n os (by simpa using h)]

/-- The children of the `gather` on a connected client: the first failing subscription in call order decides, as in
the model's `mapM`, and every call is made. -/
theorem gatherGo_subscribe (args : List (Str × Int)) :
    ∀ (outs : List Outcome) (first : Option Stop) (w : World), w.o.client = true →
      LO.gatherGo (args.map fun a => GenMqttObj.client_subscribe a.1 a.2) outs first w =
        ((match first with
          | some e => .error e
          | none =>
            match (pad args.length outs).mapM (convert (clause Gen.excMqttSubscribe 0) MqttExn.transportError) with
            | .ok _ => .ok ()
            | .error e => .error (.exn e)),
         { w with calls := w.calls ++ args.flatMap fun a => subCalls a.1 a.2 }) := by
  induction args with
  | nil => intro outs first w _; cases first <;> simp [LO.gatherGo, pad, pure, Except.pure]
  | cons a as ih =>
    intro outs first w hw
    simp only [List.map_cons, LO.gatherGo, client_subscribe_eq, oSubscribe, hw, if_true, List.length_cons, pad]
    cases hcv : convert (clause Gen.excMqttSubscribe 0) MqttExn.transportError (outs.headD .ok) with
    | ok u =>
      have hh := hcv
      simp only [List.headD_eq_head?_getD] at hh
      simp only []
      rw [ih outs.tail first { o := w.o, calls := w.calls ++ subCalls a.1 a.2 } hw]
      cases first with
      | some e => simp
      | none =>
        cases hm : (pad as.length outs.tail).mapM (convert (clause Gen.excMqttSubscribe 0) MqttExn.transportError) <;>
          simp [List.mapM_cons, hh, hcv, hm, bind, Except.bind, pure, Except.pure]
    | error e =>
      have hh := hcv
      simp only [List.headD_eq_head?_getD] at hh
      simp only []
      rw [ih outs.tail _ { o := w.o, calls := w.calls ++ subCalls a.1 a.2 } hw]
      cases first with
      | some e0 => simp
      | none => simp [List.mapM_cons, hh, hcv, bind, Except.bind]

theorem gather_ne_nil (cs : List (Outcome → OM Unit)) (outs : List Outcome) (h : cs ≠ []) :
    LO.gather cs outs = OM.seq LO.runPending (LO.gatherGo cs outs none) := by
  cases cs with
  | nil => exact absurd rfl h
  | cons c cs => rfl

/-- Did `_connect` get through (its guard passed and `__aenter__` returned)? -/
def connected (s : OState) (aenter : Outcome) : Bool :=
  !(s.client || s.task.isSome) &&
    (match convert (clause Gen.excMqttConnect 0) MqttExn.transportError aenter with | .ok () => true | .error _ => false)

/-- **`connect`** on an `MQTTClient`: the outcome and the resulting object of `oConnect` (with the outcomes of the
subscribe calls matched to the calls made), and — when `_connect` got through — one `subscribe` call per entry of the
model's `subscriptions`, in order, with its topic filter and qos, whatever the outcome of the calls. -/
theorem connect_eq (w : World) (pre : Str) (aenter : Outcome) (subs : List Outcome) (aexit : Outcome) :
    GenMqttObj.connect pre aenter subs aexit w =
      ((match (oConnect w.o aenter (pad GenMqttObj.connectTopics.length subs) aexit).2 with
        | .ok () => .ok ()
        | .error e => .error (.exn e)),
       { o := (oConnect w.o aenter (pad GenMqttObj.connectTopics.length subs) aexit).1,
         calls := w.calls ++ if connected w.o aenter then (subArgs pre).flatMap fun a => subCalls a.1 a.2 else [] }) := by
  simp only [GenMqttObj.connect, connectArgs_eq, OM.liftPM, OM.seq, OM.bind, client_connect_eq, oConnect, connected]
  rcases Bool.eq_false_or_eq_true (w.o.client || w.o.task.isSome) with hg | hg
  rotate_left
  · simp only [hg, Bool.false_eq_true, if_false, Mqtt.connect, Bool.not_false, Bool.true_and]
    cases hcv : convert (clause Gen.excMqttConnect 0) MqttExn.transportError aenter with
    | error e => simp
    | ok u =>
      have hne : subArgs pre ≠ [] := by
        intro h; have := subArgs_length pre; rw [h] at this; revert this; decide
      have hne' : (subArgs pre).map (fun a => GenMqttObj.client_subscribe a.1 a.2) ≠ [] := by simpa using hne
      simp only [connectArgs_eq, OM.liftPM, gather_ne_nil _ _ hne', OM.seq, OM.bind, LO.runPending, OM.onExcept]
      rw [gatherGo_subscribe _ _ _ _ rfl, subArgs_length]
      · cases hm : (pad GenMqttObj.connectTopics.length subs).mapM
            (convert (clause Gen.excMqttSubscribe 0) MqttExn.transportError) with
        | ok l => simp
        | error e =>
          simp only [client_disconnect_eq]
          cases hd : (oDisconnect { client := true, task := some .waiting, q := w.o.q } aexit).2 <;> simp [hd]
  · simp [hg]

/-- The same with one outcome per subscribe call. -/
theorem connect_eq_exact (w : World) (pre : Str) (aenter : Outcome) (subs : List Outcome) (aexit : Outcome)
    (h : subs.length = GenMqttObj.connectTopics.length) :
    (GenMqttObj.connect pre aenter subs aexit w).1 =
        (match (oConnect w.o aenter subs aexit).2 with | .ok () => .ok () | .error e => .error (.exn e)) ∧
      (GenMqttObj.connect pre aenter subs aexit w).2.o = (oConnect w.o aenter subs aexit).1 := by
  rw [connect_eq, pad_of_length _ _ h]
  exact ⟨rfl, rfl⟩

/-! ### `read`, `_receive`, `_receive_error` -/

/-- **`read`**: the queue moves as `qStep _ .read` says (the head is handed out, or one more read waits); with an
entry at the head the call returns / raises what `readResult` says of it, with an empty queue it is suspended. -/
theorem read_eq (w : World) :
    GenMqttObj.read w =
      ((match w.o.q.queue with
        | x :: _ =>
          (match readResult x with
           | .line l => .ok l
           | .transportFailed => .error (.exn .transportFailed))
        | [] => .error .wait),
       { w with o := { w.o with q := qStep w.o.q .read } }) := by
  cases hq : w.o.q.queue with
  | nil => simp [GenMqttObj.read, hq]
  | cons x xs => cases x <;> simp [GenMqttObj.read, hq, readResult]

/-- **`_receive`** puts the line `toLine` computes on the queue. -/
theorem receive_eq (w : World) (topic payload : Str) :
    GenMqttObj.receive topic payload w =
      (.ok (), { w with o := { w.o with q := qStep w.o.q (.arrive (.msg (toLine topic payload))) } }) := by
  simp [GenMqttObj.receive, MqttBodiesEq.parse_mqtt_to_message_eq]

/-- **`_receive_error`** puts an error entry on the queue. -/
theorem receive_error_eq (w : World) :
    GenMqttObj.receive_error w = (.ok (), { w with o := { w.o with q := qStep w.o.q (.arrive .err) } }) := by
  simp [GenMqttObj.receive_error]

/-! ### `MQTTClient._handle_incoming` -/

theorem incoming_catch0 (c : PyExn) : pyCaught c GenMqttObj.handle_incomingCatch0 = pyCaught c innerClause := by
  cases c <;> decide

/-- An exception in the `try` around the loop: what the model's `raiseInLoop` says (task finished that way, that
queued), for every exception class and whatever the arrangement of the clauses. -/
theorem incoming_raise (c : PyExn) (w : World) :
    GenMqttObj.handle_incoming.raiseInLoop c w =
      (.ok (), { w with o := { w.o with task := some (.finished (raiseInLoop c).1), q := enqueue w.o.q (raiseInLoop c).2 } }) := by
  cases c <;>
    simp (config := { decide := true }) [LO.Incoming.raiseInLoop, GenMqttObj.handle_incoming, raiseInLoop, receive_error_eq,
      enqueue, qRun, List.find?]

/-- **The receive task**: one broker event reaching the object through the generated loop body and clauses is the
model's `oStep _ (.broker e)` (`taskStep` on the task the object holds, what it queues put on the queue). -/
theorem handle_incoming_eq (w : World) (e : Evt) :
    GenMqttObj.handle_incoming.event e w = (.ok (), { w with o := (oStep w.o (.broker e)).1 }) := by
  cases ht : w.o.task with
  | none => simp [LO.Incoming.event, oStep, ht]
  | some t =>
    cases t with
    | finished r => cases e <;> simp [LO.Incoming.event, oStep, ht, taskStep, cancelTask, enqueue, qRun] <;> rw [← ht]
    | notStarted =>
      cases e with
      | cancel => simp [LO.Incoming.event, oStep, ht, taskStep, cancelTask, enqueue, qRun]
      | mqttError => simp [LO.Incoming.event, oStep, ht, taskStep, incoming_raise]
      | message topic payload =>
        cases hd : utf8Decode payload with
        | some s =>
          simp [LO.Incoming.event, oStep, ht, taskStep, onMessage, hd, GenMqttObj.handle_incoming,
            GenMqttObj.handle_incomingBody, receive_eq, enqueue, qRun]
        | none =>
          cases hc : pyCaught .UnicodeDecodeError innerClause <;>
            simp [LO.Incoming.event, oStep, ht, taskStep, onMessage, hd, hc, incoming_catch0, incoming_raise,
              GenMqttObj.handle_incomingBody, receive_error_eq, enqueue, qRun,
              show GenMqttObj.handle_incoming.body = GenMqttObj.handle_incomingBody from rfl]
    | waiting =>
      cases e with
      | cancel => simp [LO.Incoming.event, oStep, ht, taskStep, cancelTask, incoming_raise]
      | mqttError => simp [LO.Incoming.event, oStep, ht, taskStep, incoming_raise]
      | message topic payload =>
        cases hd : utf8Decode payload with
        | some s =>
          simp [LO.Incoming.event, oStep, ht, taskStep, onMessage, hd, GenMqttObj.handle_incoming,
            GenMqttObj.handle_incomingBody, receive_eq, enqueue, qRun]
        | none =>
          cases hc : pyCaught .UnicodeDecodeError innerClause <;>
            simp [LO.Incoming.event, oStep, ht, taskStep, onMessage, hd, hc, incoming_catch0, incoming_raise,
              GenMqttObj.handle_incomingBody, receive_error_eq, enqueue, qRun,
              show GenMqttObj.handle_incoming.body = GenMqttObj.handle_incomingBody from rfl]

/-! ### Histories of the object through the generated methods -/

/-- One operation of the model's alphabet (`OOp`), carried out by the generated methods (`_subscribe` called
directly: the model's operation does not say on which topic). -/
def genStep (inPre : Str) (w : World) : OOp → World
  | .connect aenter subs aexit => (GenMqttObj.connect inPre aenter subs aexit w).2
  | .disconnect aexit => (GenMqttObj.disconnect aexit w).2
  | .broker e => (GenMqttObj.handle_incoming.event e w).2
  | .read => (GenMqttObj.read w).2
  | .write p l pub => (GenMqttObj.write p l pub w).2
  | .subscribe sub => (GenMqttObj.client_subscribe [] 0 sub w).2

/-- The outcomes of the subscribe calls of a `connect` matched to the calls the code makes. -/
def padOp : OOp → OOp
  | .connect aenter subs aexit => .connect aenter (pad GenMqttObj.connectTopics.length subs) aexit
  | op => op

/-- **Every operation** leaves the object in the state the model's `oStep` says. -/
theorem genStep_state (inPre : Str) (w : World) (op : OOp) : (genStep inPre w op).o = (oStep w.o (padOp op)).1 := by
  cases op with
  | connect aenter subs aexit => simp only [genStep, padOp, connect_eq, oStep]
  | disconnect aexit => simp only [genStep, padOp, disconnect_eq, oStep]
  | broker e => simp only [genStep, padOp, handle_incoming_eq]
  | read => simp only [genStep, padOp, read_eq, oStep]
  | write p l pub =>
    simp only [genStep, padOp, write_eq, oStep]
    cases toTopic p l <;> simp only []
    split <;> rfl
  | subscribe sub =>
    simp only [genStep, padOp, client_subscribe_eq, oStep]
    split <;> rfl

/-- **Every history**: the object after any sequence of operations carried out by the generated methods is the
model's `oRun` (so what C18 proves of `oRun` — the object invariant, delivery in arrival order exactly once across
sessions, a clean object after `disconnect` — holds of the methods as translated on this run). -/
theorem genRun_state (inPre : Str) (ops : List OOp) (w : World) :
    (ops.foldl (genStep inPre) w).o = oRun w.o (ops.map padOp) := by
  induction ops generalizing w with
  | nil => rfl
  | cons op ops ih => simp only [List.foldl_cons, List.map_cons, oRun, ih, genStep_state]

end AioMySensors.MqttObjectBodiesEq
