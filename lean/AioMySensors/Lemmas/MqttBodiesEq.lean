/-
The tie between the generated MQTT mapping functions (`Generated/MqttBodies.lean`, written by `tools/translate.py`
from `transport/mqtt.py` of the working tree on every run of C18) and the hand-written `Mqtt.toTopic` / `Mqtt.toLine`
that the C18 round-trip theorems speak about.
-/
import AioMySensors.Generated.MqttBodies
import AioMySensors.Lemmas.Text

namespace AioMySensors.MqttBodiesEq
open AioMySensors

/-- `_parse_mqtt_to_message` is `toLine`. -/
theorem parse_mqtt_to_message_eq : GenMqtt.parse_mqtt_to_message = Mqtt.toLine := by
  funext topic payload
  rfl

/-- `_parse_message_to_mqtt` is `toTopic`: the same triple, and `ValueError` exactly where `toTopic` is `none`. -/
theorem parse_message_to_mqtt_eq (p line : Str) :
    GenMqtt.parse_message_to_mqtt p line =
      match Mqtt.toTopic p line with
      | some r => .ok r
      | none => .error .ValueError := by
  have hlen : (splitN (Char.ofNat 59) 5 (rstrip line)).length ≤ 6 := by rw [splitN_length]; omega
  simp only [GenMqtt.parse_message_to_mqtt, Mqtt.toTopic]
  generalize splitN (Char.ofNat 59) 5 (rstrip line) = l at hlen
  match l, hlen with
  | [], _ => simp [LMq.bind, LMq.unpackInitLast]
  | [a], _ => simp [LMq.bind, LMq.unpackInitLast, LMq.unpack5]
  | [a, b], _ => simp [LMq.bind, LMq.unpackInitLast, LMq.unpack5]
  | [a, b, c], _ => simp [LMq.bind, LMq.unpackInitLast, LMq.unpack5]
  | [a, b, c, d], _ => simp [LMq.bind, LMq.unpackInitLast, LMq.unpack5]
  | [a, b, c, d, e], _ => simp [LMq.bind, LMq.unpackInitLast, LMq.unpack5]
  | [a, b, c, d, e, f], _ =>
    cases h : pyInt? d <;> simp [LMq.bind, LMq.unpackInitLast, LMq.unpack5, LMq.pyInt, h]

end AioMySensors.MqttBodiesEq
