/- Lemmas about the text functions of `Model/Text.lean`. -/
import AioMySensors.Model.Text

namespace AioMySensors

theorem splitN_zero (d : Char) (s : Str) : splitN d 0 s = [s] := by
  cases s <;> rfl

theorem splitN_ne_nil (d : Char) (n : Nat) (s : Str) : splitN d n s ≠ [] := by
  induction s generalizing n with
  | nil => cases n <;> simp [splitN]
  | cons c cs ih =>
    cases n with
    | zero => simp [splitN]
    | succ n =>
      simp only [splitN]
      split
      · simp
      · split <;> simp

/-- Splitting after a field that is free of the delimiter. -/
theorem splitN_field (d : Char) (n : Nat) (f rest : Str) (h : d ∉ f) :
    splitN d (n + 1) (f ++ d :: rest) = f :: splitN d n rest := by
  induction f with
  | nil => simp [splitN]
  | cons c cs ih =>
    have hc : c ≠ d := by intro e; apply h; simp [e]
    have hcs : d ∉ cs := by intro e; apply h; simp [e]
    simp only [List.cons_append, splitN, hc, if_false, ih hcs]

theorem joinWith_cons_cons (d : Char) (f g : Str) (fs : List Str) :
    joinWith d (f :: g :: fs) = f ++ d :: joinWith d (g :: fs) := rfl

/-- `d.join(s.split(d, n)) == s`. -/
theorem joinWith_splitN (d : Char) (n : Nat) (s : Str) : joinWith d (splitN d n s) = s := by
  induction s generalizing n with
  | nil => cases n <;> simp [splitN, joinWith]
  | cons c cs ih =>
    cases n with
    | zero => simp [splitN, joinWith]
    | succ n =>
      simp only [splitN]
      split
      · next h =>
        subst h
        have := ih n
        cases hs : splitN c n cs with
        | nil => exact absurd hs (splitN_ne_nil _ _ _)
        | cons g gs => rw [hs] at this; simp [joinWith, this]
      · next h =>
        have := ih (n + 1)
        cases hs : splitN d (n + 1) cs with
        | nil => exact absurd hs (splitN_ne_nil _ _ _)
        | cons g gs =>
          rw [hs] at this
          cases gs with
          | nil => simpa [joinWith] using this
          | cons g' gs' => simp only [joinWith_cons_cons] at this ⊢; simp [this]

theorem splitOn_ne_nil (d : Char) (s : Str) : splitOn d s ≠ [] := by
  induction s with
  | nil => simp [splitOn]
  | cons c cs ih =>
    simp only [splitOn]
    split
    · simp
    · split <;> simp

/-- `s.split(d, n)` has `min (n+1) (number of fields)` entries. -/
theorem splitN_length (d : Char) (n : Nat) (s : Str) :
    (splitN d n s).length = min (n + 1) (splitOn d s).length := by
  induction s generalizing n with
  | nil => cases n <;> simp [splitN, splitOn]
  | cons c cs ih =>
    cases n with
    | zero =>
      have := splitOn_ne_nil d (c :: cs)
      have : 0 < (splitOn d (c :: cs)).length := List.length_pos_iff.mpr this
      simp [splitN]; omega
    | succ n =>
      simp only [splitN, splitOn]
      split
      · simp [ih n]
      · have h1 := ih (n + 1)
        cases hs : splitN d (n + 1) cs with
        | nil => exact absurd hs (splitN_ne_nil _ _ _)
        | cons g gs =>
          cases ho : splitOn d cs with
          | nil => exact absurd ho (splitOn_ne_nil _ _)
          | cons g' gs' =>
            rw [hs, ho] at h1
            simpa using h1

theorem dropTrailing_cons (p : Char → Bool) (c : Char) (cs : Str) :
    dropTrailing p (c :: cs) =
      if dropTrailing p cs = [] ∧ p c = true then [] else c :: dropTrailing p cs := by
  simp only [dropTrailing]
  cases h : dropTrailing p cs with
  | nil => cases hp : p c <;> simp
  | cons r rs => simp

theorem dropTrailing_snoc_of (p : Char → Bool) (s : Str) (c : Char) (hc : p c = true) :
    dropTrailing p (s ++ [c]) = dropTrailing p s := by
  induction s with
  | nil => simp [dropTrailing, hc]
  | cons x xs ih => simp only [List.cons_append, dropTrailing_cons, ih]

/-- A character that is kept fixes everything before it. -/
theorem dropTrailing_append_keep (p : Char → Bool) (a : Str) (c : Char) (b : Str) (hc : p c = false) :
    dropTrailing p (a ++ c :: b) = a ++ c :: dropTrailing p b := by
  have hne : dropTrailing p (c :: b) = c :: dropTrailing p b := by
    simp [dropTrailing_cons, hc]
  induction a with
  | nil => simpa using hne
  | cons x xs ih => simp only [List.cons_append, dropTrailing_cons, ih]; simp

theorem dropTrailing_eq_self_of_all_not (p : Char → Bool) (s : Str) (h : ∀ c ∈ s, p c = false) :
    dropTrailing p s = s := by
  induction s with
  | nil => rfl
  | cons x xs ih =>
    have hx : p x = false := h x (by simp)
    have := ih (fun c hc => h c (by simp [hc]))
    simp [dropTrailing_cons, this, hx]

theorem dropWhile_eq_self_of_all_not (p : Char → Bool) (s : Str) (h : ∀ c ∈ s, p c = false) :
    s.dropWhile p = s := by
  cases s with
  | nil => rfl
  | cons x xs => simp [List.dropWhile, h x (by simp)]

theorem dropTrailing_idem (p : Char → Bool) (s : Str) :
    dropTrailing p (dropTrailing p s) = dropTrailing p s := by
  induction s with
  | nil => rfl
  | cons x xs ih =>
    rw [dropTrailing_cons]
    split
    · rfl
    · next h =>
      rw [dropTrailing_cons, ih]
      split
      · next h2 => exact absurd h2 h
      · rfl

end AioMySensors
