/-
A load that fails touches nothing (C16): an invariant of `Lifecycle.step` for fault records with `loadFails`.

"A failing load propagates before anything was started" (`C16.load_failure_starts_nothing`) speaks about the end of the
statement.  The persistence file is the only copy of the registry between two sessions, so the stronger fact matters:
at NO moment of any schedule does a context statement whose load fails create the saver, begin a save, perform a final
save, change the file, or get as far as connect/disconnect.  Used by Properties/C16.lean (`load_failure_touches_nothing`)
and, through `LL.generated_runs_model`, about the control skeleton translated from `Gateway.__aenter__`
(`LL.load_failure_touches_nothing_generated`, for both kinds of exception class at the load: an ordinary error, and the
cancellation of the task delivered while it is inside `load`).
-/
import AioMySensors.Lemmas.Lifecycle

namespace AioMySensors.Lifecycle
open AioMySensors

/-- The load of this statement fails: the main coroutine is still in `load` or has finished with the load's error
and nothing else has happened - no saver, no save begun, no final save, file and registry as at the beginning. -/
def LoadFailInv (v : Nat) (s : Sys) : Prop :=
  s.faults.loadFails = true →
    (s.main = .load ∧ s.outcome = none ∨ s.main = .finished ∧ s.outcome = some .loadErr) ∧
    s.saver = .absent ∧ s.cancelReq = false ∧ s.file = .holds v ∧ s.saveStarts = [] ∧ s.finalSaveDone = false ∧
    s.started = false ∧ s.loaded = false ∧ s.entered = false ∧ s.disconnectTried = false ∧ s.reg = 0

theorem loadFail_init (f : Faults) (t v : Nat) : LoadFailInv v (init f t v) := by
  simp [LoadFailInv, init]

theorem loadFail_step (v : Nat) (s : Sys) (c : Choice) (h : LoadFailInv v s) : LoadFailInv v (step s c) := by
  intro hf
  have hf' : s.faults.loadFails = true := by rw [← faults_step s c]; exact hf
  obtain ⟨hm, hsv, hcr, hfile, hss, hfd, hst, hld, hen, hdt, hreg⟩ := h hf'
  obtain ⟨f, main, saver, cancelReq, now, t0, reg, snap, fsnap, file, saveStarts, loaded, started, entered,
    disconnectTried, finalSaveDone, pending, outcome⟩ := s
  simp only at hf' hm hsv hcr hfile hss hfd hst hld hen hdt hreg
  subst hsv hcr hfile hss hfd hst hld hen hdt hreg
  cases c with
  | tick d => rcases hm with ⟨rfl, rfl⟩ | ⟨rfl, rfl⟩ <;> simp [step, saverRunnable, tickStep]
  | mutate => rcases hm with ⟨rfl, rfl⟩ | ⟨rfl, rfl⟩ <;> simp [step]
  | saver lands => rcases hm with ⟨rfl, rfl⟩ | ⟨rfl, rfl⟩ <;> simp [step, saverRunnable]
  | main => rcases hm with ⟨rfl, rfl⟩ | ⟨rfl, rfl⟩ <;> simp [step, mainRunnable, mainStep, hf']

theorem loadFail_run (v : Nat) (s : Sys) (cs : List Choice) (h : LoadFailInv v s) : LoadFailInv v (run s cs) := by
  induction cs generalizing s with
  | nil => exact h
  | cons c cs ih => exact ih _ (loadFail_step v s c h)

end AioMySensors.Lifecycle
