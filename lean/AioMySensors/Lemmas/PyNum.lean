/- `int(str(n)) == n`, and facts about the characters `str(n)` is made of. -/
import AioMySensors.Lemmas.Text
import AioMySensors.Model.PyNum

namespace AioMySensors

theorem isDigit_toNat {c : Char} (h : c.isDigit = true) : 48 ≤ c.toNat ∧ c.toNat ≤ 57 := by
  simp only [Char.isDigit, Bool.and_eq_true, decide_eq_true_eq] at h
  have h1 : (48 : UInt32) ≤ c.val := h.1
  have h2 : c.val ≤ (57 : UInt32) := h.2
  simp only [Char.toNat]
  rw [UInt32.le_iff_toNat_le] at h1 h2
  simpa using And.intro h1 h2

theorem pyDigit?_of_isDigit {c : Char} (h : c.isDigit = true) : pyDigit? c = some (c.toNat - 48) := by
  have := isDigit_toNat h
  simp [pyDigit?, this.1, this.2]

theorem ne_underscore_of_isDigit {c : Char} (h : c.isDigit = true) : c ≠ '_' := by
  intro e; subst e; simp [Char.isDigit] at h

/-- ASCII digit strings parse to their value, counting every digit. -/
theorem parseDigits_digits (ds : Str) (h : ∀ c ∈ ds, c.isDigit = true) (acc cnt : Nat) (b : Bool)
    (hne : ds ≠ [] ∨ b = true) :
    parseDigits ds acc cnt b = some (Nat.ofDigitChars 10 ds acc, cnt + ds.length) := by
  induction ds generalizing acc cnt b with
  | nil => simp at hne; simp [parseDigits, hne]
  | cons c cs ih =>
    have hc := h c (by simp)
    simp only [parseDigits, ne_underscore_of_isDigit hc, if_false, pyDigit?_of_isDigit hc]
    rw [ih (fun x hx => h x (by simp [hx])) _ _ true (Or.inr rfl)]
    simp [Nat.ofDigitChars_cons]; omega

theorem toDigits_isDigit (k : Nat) : ∀ c ∈ Nat.toDigits 10 k, c.isDigit = true :=
  fun _ hc => Nat.isDigit_of_mem_toDigits (by decide) (by decide) hc

theorem pyNat?_toDigits (k : Nat) (hk : (Nat.toDigits 10 k).length ≤ Gen.pyMaxStrDigits) :
    pyNat? (Nat.toDigits 10 k) = some k := by
  simp only [pyNat?]
  rw [parseDigits_digits _ (toDigits_isDigit k) 0 0 false (Or.inl Nat.toDigits_ne_nil)]
  simp [hk]

theorem intSpace_of_isDigit {c : Char} (h : c.isDigit = true) : intSpace c = false := by
  have := isDigit_toNat h
  simp only [intSpace, isCSpace]
  have h1 : c.toNat < 127 := by omega
  simp [h1]; omega

theorem intSpace_minus : intSpace '-' = false := by decide

/-- Number of decimal digits of `|n|`. -/
def digitCount (n : Int) : Nat := (Nat.toDigits 10 n.natAbs).length

/-- `int(str(n)) == n` (within the interpreter's digit limit). -/
theorem pyInt?_dec (n : Int) (h : digitCount n ≤ Gen.pyMaxStrDigits) : pyInt? (dec n) = some n := by
  cases n with
  | ofNat k =>
    have hall : ∀ c ∈ Nat.toDigits 10 k, intSpace c = false :=
      fun c hc => intSpace_of_isDigit (toDigits_isDigit k c hc)
    simp only [pyInt?, dec, dropWhile_eq_self_of_all_not _ _ hall, dropTrailing_eq_self_of_all_not _ _ hall]
    have hk : (Nat.toDigits 10 k).length ≤ Gen.pyMaxStrDigits := by simpa [digitCount] using h
    cases hd : Nat.toDigits 10 k with
    | nil => exact absurd hd Nat.toDigits_ne_nil
    | cons c cs =>
      have hc : c.isDigit = true := toDigits_isDigit k c (by simp [hd])
      have h1 : c ≠ '-' := by intro e; subst e; simp [Char.isDigit] at hc
      have h2 : c ≠ '+' := by intro e; subst e; simp [Char.isDigit] at hc
      have := pyNat?_toDigits k hk
      rw [hd] at this
      split
      · next heq => simp at heq; exact absurd heq.1 h1
      · next heq => simp at heq; exact absurd heq.1 h2
      · next r _ _ => simp [this]
  | negSucc k =>
    have hall : ∀ c ∈ ('-' :: Nat.toDigits 10 (k + 1)), intSpace c = false := by
      intro c hc
      simp at hc
      rcases hc with rfl | hc
      · exact intSpace_minus
      · exact intSpace_of_isDigit (toDigits_isDigit _ c hc)
    simp only [pyInt?, dec, dropWhile_eq_self_of_all_not _ _ hall, dropTrailing_eq_self_of_all_not _ _ hall]
    have hk : (Nat.toDigits 10 (k + 1)).length ≤ Gen.pyMaxStrDigits := by
      simpa [digitCount, Int.natAbs] using h
    simp [pyNat?_toDigits (k + 1) hk, Int.negSucc_eq]

/-- `str(n)` contains only digits and possibly a leading minus. -/
theorem mem_dec {n : Int} {c : Char} (h : c ∈ dec n) : c.isDigit = true ∨ c = '-' := by
  cases n with
  | ofNat k => exact Or.inl (toDigits_isDigit k c (by simpa [dec] using h))
  | negSucc k =>
    simp [dec] at h
    rcases h with rfl | h
    · exact Or.inr rfl
    · exact Or.inl (toDigits_isDigit _ c h)

theorem digitCount_le_of_lt {n : Int} {k : Nat} (hk : 0 < k) (h : n.natAbs < 10 ^ k) : digitCount n ≤ k :=
  (Nat.length_toDigits_le_iff (by decide) hk).mpr h

end AioMySensors
