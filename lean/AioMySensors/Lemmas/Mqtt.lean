/- Lemmas for the MQTT transport model: `split("/")` of a prefixed topic, the last five levels,
level-wise filter matching, the queue invariant, and the receive task under the generated clauses. -/
import AioMySensors.Lemmas.Codec
import AioMySensors.Model.Mqtt

namespace AioMySensors.Mqtt
open AioMySensors

/-! ### split -/

theorem splitOn_of_not_mem (d : Char) (f : Str) (h : d ∉ f) : splitOn d f = [f] := by
  induction f with
  | nil => rfl
  | cons c cs ih =>
    have hc : c ≠ d := by intro e; apply h; simp [e]
    have hcs : d ∉ cs := by intro e; apply h; simp [e]
    simp [splitOn, hc, ih hcs]

/-- `(a + d + b).split(d) == a.split(d) + b.split(d)`. -/
theorem splitOn_append_sep (d : Char) (a b : Str) :
    splitOn d (a ++ d :: b) = splitOn d a ++ splitOn d b := by
  induction a with
  | nil => simp [splitOn]
  | cons c cs ih =>
    simp only [List.cons_append, splitOn]
    split
    · simp [ih]
    · rw [ih]
      cases hs : splitOn d cs with
      | nil => exact absurd hs (splitOn_ne_nil _ _)
      | cons g gs => simp

/-- Splitting a join of separator-free fields gives the fields back. -/
theorem splitOn_joinWith (d : Char) (f : Str) (fs : List Str) (h : ∀ g ∈ f :: fs, d ∉ g) :
    splitOn d (joinWith d (f :: fs)) = f :: fs := by
  induction fs generalizing f with
  | nil => simpa [joinWith] using splitOn_of_not_mem d f (h f (by simp))
  | cons g gs ih =>
    rw [joinWith_cons_cons, splitOn_append_sep, splitOn_of_not_mem d f (h f (by simp)),
      ih g (fun x hx => h x (by simp [hx]))]
    rfl

theorem slash_not_mem_dec (n : Int) : '/' ∉ dec n := by
  intro h
  rcases mem_dec h with h | h
  · revert h; decide
  · revert h; decide

theorem lastN_append_of_length (n : Nat) (xs ys : List α) (h : ys.length = n) :
    lastN n (xs ++ ys) = ys := by
  simp [lastN, h]

/-! ### filters -/

theorem levelsMatch_append_same (a fs ts : List Str) :
    levelsMatch (a ++ fs) (a ++ ts) = levelsMatch fs ts := by
  induction a with
  | nil => rfl
  | cons x xs ih => simp [levelsMatch, ih]

/-- The levels of `prefix + partial` for a partial topic that starts with `/`. -/
theorem splitOn_prefix_partial (p rest : Str) :
    splitOn '/' (p ++ '/' :: rest) = splitOn '/' p ++ splitOn '/' rest :=
  splitOn_append_sep '/' p rest

/-- `"/".join(s.split("/")) == s`: a text is determined by its levels (zero-length levels included). -/
theorem joinWith_splitOn (d : Char) (s : Str) : joinWith d (splitOn d s) = s := by
  induction s with
  | nil => rfl
  | cons c cs ih =>
    simp only [splitOn]
    split
    · next h =>
      subst h
      cases hs : splitOn c cs with
      | nil => exact absurd hs (splitOn_ne_nil _ _)
      | cons g gs => rw [hs] at ih; simp [joinWith_cons_cons, ih]
    · cases hs : splitOn d cs with
      | nil => exact absurd hs (splitOn_ne_nil _ _)
      | cons g gs =>
        rw [hs] at ih
        cases gs with
        | nil => simpa [joinWith] using ih
        | cons g' gs' => simp only [joinWith_cons_cons] at ih ⊢; simp [ih]

/-- Two texts with the same levels are the same text: `/a`, `a`, `a/` and `a//b`, `a/b` all differ. -/
theorem splitOn_injective (d : Char) (a b : Str) (h : splitOn d a = splitOn d b) : a = b := by
  rw [← joinWith_splitOn d a, ← joinWith_splitOn d b, h]

theorem levelsMatch_length (fs ts : List Str) (h : levelsMatch fs ts = true) : fs.length = ts.length := by
  induction fs generalizing ts with
  | nil => cases ts with
    | nil => rfl
    | cons t ts => simp [levelsMatch] at h
  | cons f fs ih => cases ts with
    | nil => simp [levelsMatch] at h
    | cons t ts =>
      simp only [levelsMatch, Bool.and_eq_true] at h
      simp [ih ts h.2]

/-- Levels that are not the wildcard match only themselves. -/
theorem levelsMatch_literal (a b fs ts : List Str) (ha : ['+'] ∉ a) (hl : a.length = b.length)
    (h : levelsMatch (a ++ fs) (b ++ ts) = true) : a = b ∧ levelsMatch fs ts = true := by
  induction a generalizing b with
  | nil => cases b with
    | nil => exact ⟨rfl, h⟩
    | cons y ys => simp at hl
  | cons x xs ih => cases b with
    | nil => simp at hl
    | cons y ys =>
      simp only [List.cons_append, levelsMatch, Bool.and_eq_true, Bool.or_eq_true, beq_iff_eq] at h
      have hx : x ≠ ['+'] := by intro e; apply ha; simp [e]
      have hxs : ['+'] ∉ xs := by intro e; apply ha; simp [e]
      have hxy : x = y := by rcases h.1 with e | e; exact absurd e hx; exact e
      obtain ⟨e, r⟩ := ih ys hxs (by simpa using hl) h.2
      exact ⟨by rw [hxy, e], r⟩

/-- Matching one generated filter `p/+/+/k/+/+` against `p/ln/lc/lk/la/lt`: decided by the command
level alone. -/
theorem matches_partial (p : Str) (k : Str) (ln lc lk la lt : Str)
    (hk : '/' ∉ k) (hn : '/' ∉ ln) (hc : '/' ∉ lc) (hlk : '/' ∉ lk) (ha : '/' ∉ la) (ht : '/' ∉ lt) :
    matchesFilter (p ++ '/' :: joinWith '/' [['+'], ['+'], k, ['+'], ['+']])
      (p ++ '/' :: joinWith '/' [ln, lc, lk, la, lt]) = (k == ['+'] || k == lk) := by
  have hplus : '/' ∉ (['+'] : Str) := by decide
  simp only [matchesFilter, splitOn_prefix_partial, levelsMatch_append_same]
  rw [splitOn_joinWith '/' _ _ (by intro g hg; simp at hg; rcases hg with rfl | rfl | rfl | rfl | rfl <;> assumption),
    splitOn_joinWith '/' _ _ (by intro g hg; simp at hg; rcases hg with rfl | rfl | rfl | rfl | rfl <;> assumption)]
  simp [levelsMatch]

/-! ### `str(int)` is injective -/

theorem dec_injective {a b : Int} (h : dec a = dec b) : a = b := by
  have hd : ∀ k : Nat, '-' ∉ Nat.toDigits 10 k := by
    intro k hm
    have := toDigits_isDigit k _ hm
    revert this; decide
  have hinj : ∀ j k : Nat, Nat.toDigits 10 j = Nat.toDigits 10 k → j = k := by
    intro j k e
    have h1 := @Nat.ofDigitChars_ten_toDigits j
    rw [e, Nat.ofDigitChars_ten_toDigits] at h1
    exact h1.symm
  cases a with
  | ofNat j =>
    cases b with
    | ofNat k => simp only [dec] at h; rw [hinj j k h]
    | negSucc k =>
      simp only [dec] at h
      exact absurd (by rw [h]; simp) (hd j)
  | negSucc j =>
    cases b with
    | ofNat k =>
      simp only [dec] at h
      exact absurd (by rw [← h]; simp) (hd k)
    | negSucc k =>
      simp only [dec, List.cons.injEq, true_and] at h
      have := hinj _ _ h
      simp at this
      rw [this]

/-! ### the queue -/

/-- The queue invariant: everything that arrived is either delivered or still queued, in order; a
read only waits while the queue is empty; every read issued is either served or waiting. -/
structure QInv (s : QState) (arrivals : List Item) (reads : Nat) : Prop where
  all : s.delivered ++ s.queue = arrivals
  idle : 0 < s.waiting → s.queue = []
  served : s.delivered.length + s.waiting = reads

theorem QInv.init : QInv {} [] 0 := ⟨rfl, fun _ => rfl, rfl⟩

theorem qStep_inv {s : QState} {a : List Item} {r : Nat} (h : QInv s a r) (op : QOp) :
    QInv (qStep s op) (a ++ arrivalsOf [op]) (r + readsOf [op]) := by
  obtain ⟨h1, h2, h3⟩ := h
  cases op with
  | arrive x =>
    simp only [qStep, arrivalsOf, readsOf]
    split
    · next n hw hq =>
      refine ⟨?_, fun _ => hq, ?_⟩
      · simp [← h1, hq]
      · simp; omega
    · next hne =>
      cases hw : s.waiting with
      | zero =>
        refine ⟨?_, fun hp => by simp at hp, ?_⟩
        · simp [← h1]
        · simpa [hw] using h3
      | succ n =>
        have hq := h2 (by omega)
        exact absurd hq (fun hq => hne n hw hq)
  | read =>
    simp only [qStep, arrivalsOf, readsOf]
    split
    · next x q hq =>
      have hw : s.waiting = 0 := by
        cases hw : s.waiting with
        | zero => rfl
        | succ n => have := h2 (by omega); rw [hq] at this; exact absurd this (by simp)
      refine ⟨?_, fun hp => by simp [hw] at hp, ?_⟩
      · simp [← h1, hq]
      · simp [hw] at h3 ⊢; omega
    · next hq =>
      refine ⟨?_, fun _ => hq, ?_⟩
      · simpa using h1
      · simp; omega

theorem arrivalsOf_cons (op : QOp) (ops : List QOp) :
    arrivalsOf (op :: ops) = arrivalsOf [op] ++ arrivalsOf ops := by
  cases op <;> simp [arrivalsOf]

theorem readsOf_cons (op : QOp) (ops : List QOp) :
    readsOf (op :: ops) = readsOf [op] + readsOf ops := by
  cases op <;> simp [readsOf]; omega

theorem qRun_inv {s : QState} {a : List Item} {r : Nat} (h : QInv s a r) (ops : List QOp) :
    QInv (qRun s ops) (a ++ arrivalsOf ops) (r + readsOf ops) := by
  induction ops generalizing s a r with
  | nil => simpa [qRun, arrivalsOf, readsOf] using h
  | cons op ops ih =>
    have := ih (qStep_inv h op)
    rw [arrivalsOf_cons, readsOf_cons]
    simpa [qRun, List.append_assoc, Nat.add_assoc] using this

theorem arrivalsOf_map_arrive (l : List Item) : arrivalsOf (l.map .arrive) = l := by
  induction l with
  | nil => rfl
  | cons x xs ih => simp [arrivalsOf, ih]

theorem readsOf_map_arrive (l : List Item) : readsOf (l.map .arrive) = 0 := by
  induction l with
  | nil => rfl
  | cons x xs ih => simp [readsOf, ih]

/-- What the invariant says about the number of results handed out. -/
theorem QInv.delivered_length {s : QState} {a : List Item} {r : Nat} (h : QInv s a r) :
    s.delivered.length = min r a.length ∧ s.waiting = r - a.length := by
  obtain ⟨h1, h2, h3⟩ := h
  have hl : s.delivered.length + s.queue.length = a.length := by rw [← h1]; simp
  cases hw : s.waiting with
  | zero => simp [hw] at h3; omega
  | succ n =>
    have := h2 (by omega)
    simp [this] at hl
    omega

/-- Results already handed out never change: a step only appends to `delivered`. -/
theorem qStep_delivered_prefix (s : QState) (op : QOp) : s.delivered <+: (qStep s op).delivered := by
  cases op with
  | arrive x => simp only [qStep]; split <;> simp
  | read => simp only [qStep]; split <;> simp

theorem qRun_delivered_prefix (s : QState) (ops : List QOp) : s.delivered <+: (qRun s ops).delivered := by
  induction ops generalizing s with
  | nil => exact List.prefix_refl _
  | cons op ops ih => exact List.IsPrefix.trans (qStep_delivered_prefix s op) (ih _)

/-! ### the receive task under the generated except clauses -/

/-- What the theorems need from the two `except` clauses of `_handle_incoming` (established from the
generated table in `Properties/C18.lean`, so that a changed clause fails there and nowhere else). -/
structure Clauses : Prop where
  /-- the inner clause catches the decode error -/
  inner_decode : pyCaught .UnicodeDecodeError innerClause = true
  /-- the outer clause catches `MqttError` -/
  outer_mqtt : pyCaught .MqttError outerClause = true
  /-- the outer clause does not swallow cancellation -/
  outer_cancel : pyCaught .CancelledError outerClause = false

/-- What the receive task queues for one broker message. -/
def itemOf (m : Str × List Nat) : Item :=
  match utf8Decode m.2 with
  | some s => .msg (toLine m.1 s)
  | none => .err

/-- The task is (or will be, once first scheduled) listening. -/
def Alive (t : TaskState) : Prop := t = .waiting ∨ t = .notStarted

theorem taskStep_message (cl : Clauses) {t : TaskState} (h : Alive t) (m : Str × List Nat) :
    taskStep t (.message m.1 m.2) = (.waiting, [itemOf m]) := by
  rcases h with rfl | rfl <;>
  · simp only [taskStep, onMessage, itemOf, cl.inner_decode, if_true]
    cases utf8Decode m.2 <;> rfl

theorem taskRun_finished (r : Outcome) (es : List Evt) : taskRun (.finished r) es = (.finished r, []) := by
  induction es with
  | nil => rfl
  | cons e es ih => cases e <;> simp [taskRun, taskStep, cancelTask, ih]

theorem taskRun_append (t : TaskState) (a b : List Evt) :
    taskRun t (a ++ b) = ((taskRun (taskRun t a).1 b).1, (taskRun t a).2 ++ (taskRun (taskRun t a).1 b).2) := by
  induction a generalizing t with
  | nil => simp [taskRun]
  | cons e es ih => simp [taskRun, ih, List.append_assoc]

theorem taskRun_messages (cl : Clauses) {t : TaskState} (h : Alive t) (ms : List (Str × List Nat)) :
    Alive (taskRun t (ms.map fun m => .message m.1 m.2)).1 ∧
    (taskRun t (ms.map fun m => .message m.1 m.2)).2 = ms.map itemOf := by
  induction ms generalizing t with
  | nil => exact ⟨h, rfl⟩
  | cons m ms ih =>
    simp only [List.map_cons, taskRun, taskStep_message cl h m]
    have := ih (t := .waiting) (Or.inl rfl)
    exact ⟨this.1, by simp [this.2]⟩

/-- The states the receive task can be in, given that aiomqtt raises nothing but `MqttError`. -/
def Reach (t : TaskState) : Prop :=
  t = .notStarted ∨ t = .waiting ∨ t = .finished .ok ∨ t = .finished (.raised .CancelledError)

theorem taskStep_reach (cl : Clauses) {t : TaskState} (h : Reach t) (e : Evt) : Reach (taskStep t e).1 := by
  rcases h with rfl | rfl | rfl | rfl <;> cases e <;>
    simp [Reach, taskStep, cancelTask, raiseInLoop, onMessage, cl.inner_decode, cl.outer_mqtt,
      cl.outer_cancel] <;>
    split <;> simp

theorem taskRun_reach (cl : Clauses) {t : TaskState} (h : Reach t) (es : List Evt) : Reach (taskRun t es).1 := by
  induction es generalizing t with
  | nil => exact h
  | cons e es ih => exact ih (taskStep_reach cl h e)

/-! ### the transport: receive task and queue together -/

/-- The queue invariant along any interleaving of broker events and reads; the task state is that of
the task run over the events alone. -/
theorem tRun_inv {s : TState} {a : List Item} {r : Nat} (h : QInv s.q a r) (ops : List TOp) :
    QInv (tRun s ops).q (a ++ (taskRun s.task (eventsOf ops)).2) (r + treadsOf ops) ∧
    (tRun s ops).task = (taskRun s.task (eventsOf ops)).1 := by
  induction ops generalizing s a r with
  | nil => simpa [tRun, eventsOf, treadsOf, taskRun] using h
  | cons op ops ih =>
    cases op with
    | broker e =>
      have hq := qRun_inv h ((taskStep s.task e).2.map .arrive)
      rw [arrivalsOf_map_arrive, readsOf_map_arrive] at hq
      have := ih (s := tStep s (.broker e)) hq
      simpa [tRun, tStep, eventsOf, treadsOf, taskRun, List.append_assoc] using this
    | read =>
      have hq := qStep_inv h .read
      have := ih (s := tStep s .read) hq
      simpa [tRun, tStep, eventsOf, treadsOf, arrivalsOf, readsOf, Nat.add_assoc, Nat.add_comm] using this

end AioMySensors.Mqtt
