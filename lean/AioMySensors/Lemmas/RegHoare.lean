/-
A small Hoare logic over the handler monad `M` for an invariant `I` of the node registry
(`HRetI I x Q`: `x` keeps `I` whatever its outcome, and a value it returns satisfies `Q`): one lemma per
combinator, for everything that only writes to the transport or to the buffers, for both decorators and for
the layers of a resolved handler chain - proved once for every `I`.  What depends on the invariant are the
handlers that read or store a node record; the instances: `RegOK` and `IntsOK` (`Lemmas/PersistReach.lean`:
what the handlers build can be saved and loaded) and `SleepsIn k` (`Lemmas/StaysSleeping.lean`: a node flagged
as sleeping stays flagged).  Moved here unchanged from `PersistReach` so that an instance does not need the
persistence lemmas.
-/
import AioMySensors.Model.Gateway
import AioMySensors.Model.Handlers

namespace AioMySensors
open M

/-! ### A small Hoare logic for a registry invariant

The logic is generic in the invariant `I` of the registry: the combinators, everything that only writes
to the transport or to the buffers, both decorators, the layers and the dispatch structure are proved
once for every `I`; what depends on the invariant are the handlers that read or store a node record.
Two instances: `RegOK` (`HRet` / `HPres`, C13's value-level hypothesis) and `regIntsOK` (the integers
`json.dumps` has to print, further down). -/

/-- `x` keeps the registry invariant `I` whatever its outcome, and a value it returns satisfies `Q`. -/
structure HRetI (I : PDict Int Node → Prop) {α : Type} (x : M α) (Q : α → Prop) : Prop where
  inv : ∀ w, I w.st.nodes → I (x w).2.st.nodes
  ret : ∀ w a, I w.st.nodes → (x w).1 = .ok a → Q a

/-- `x` keeps the invariant `I`. -/
abbrev HPresI (I : PDict Int Node → Prop) {α : Type} (x : M α) : Prop := HRetI I x fun _ => True

section generic
variable {I : PDict Int Node → Prop}

theorem ret_pure {α : Type} {Q : α → Prop} (a : α) (h : Q a) : HRetI I (pure a) Q :=
  ⟨fun _ hw => hw, fun _ _ _ he => by cases he; exact h⟩

theorem ret_raise {α : Type} {Q : α → Prop} (e : Exn) : HRetI I (raise e : M α) Q :=
  ⟨fun _ hw => hw, fun _ _ _ he => by cases he⟩

theorem ret_weaken {α : Type} {Q R : α → Prop} {x : M α} (h : HRetI I x Q) (hq : ∀ a, Q a → R a) : HRetI I x R :=
  ⟨h.inv, fun w a hw he => hq a (h.ret w a hw he)⟩

theorem ret_bind {α β : Type} {Q : α → Prop} {R : β → Prop} {x : M α} {f : α → M β}
    (hx : HRetI I x Q) (hf : ∀ a, Q a → HRetI I (f a) R) : HRetI I (bind x f) R := by
  constructor
  · intro w hw
    have h1 := hx.inv w hw
    have h2 := hx.ret w
    simp only [M.bind]
    cases hxw : x w with
    | mk r w' =>
      rw [hxw] at h1 h2
      cases r with
      | error e => exact h1
      | ok a => exact (hf a (h2 a hw rfl)).inv w' h1
  · intro w b hw
    have h1 := hx.inv w hw
    have h2 := hx.ret w
    simp only [M.bind]
    cases hxw : x w with
    | mk r w' =>
      rw [hxw] at h1 h2
      cases r with
      | error e => intro he; cases he
      | ok a => exact (hf a (h2 a hw rfl)).ret w' b h1

theorem ret_seq {β : Type} {R : β → Prop} {x : M Unit} {y : M β} (hx : HPresI I x) (hy : HRetI I y R) :
    HRetI I (seq x y) R :=
  ret_bind hx fun _ _ => hy

theorem ret_getSt : HRetI I getSt fun st => I st.nodes :=
  ⟨fun _ hw => hw, fun w a hw he => by cases he; exact hw⟩

theorem pres_modifySt (f : St → St) (h : ∀ s, I s.nodes → I (f s).nodes) : HPresI I (modifySt f) :=
  ⟨fun w hw => h w.st hw, fun _ _ _ _ => trivial⟩

theorem pres_transportWrite (line : Str) : HPresI I (transportWrite line) := by
  constructor
  · intro w hw
    simp only [M.transportWrite]
    split <;> exact hw
  · intros; trivial

theorem ret_convertExn {α : Type} {Q : α → Prop} (classes : List PyExn) (e : LibErr) (x : Except PyExn α)
    (h : ∀ a, x = .ok a → Q a) : HRetI I (convertExn classes e x) Q := by
  cases x with
  | ok a => exact ret_pure a (h a rfl)
  | error c => simp only [convertExn]; split <;> exact ret_raise _

theorem pres_tryFinally {α : Type} {x : M α} {fin : Except Exn α → M Unit} (hx : HPresI I x) (hf : ∀ r, HPresI I (fin r)) :
    HPresI I (tryFinally x fin) := by
  constructor
  · intro w hw
    simp only [M.tryFinally]
    cases hxw : x w with
    | mk r w' =>
      have h1 := hx.inv w hw
      rw [hxw] at h1
      have h2 := (hf r).inv w' h1
      simp only []
      cases hfw : fin r w' with
      | mk r' w'' =>
        rw [hfw] at h2
        cases r' with
        | ok u => exact h2
        | error e => exact h2
  · intros; trivial

theorem pres_tryCatch {α : Type} {x : M α} {h : Exn → Option (M α)} (hx : HPresI I x) (hh : ∀ e k, h e = some k → HPresI I k) :
    HPresI I (tryCatch x h) := by
  constructor
  · intro w hw
    simp only [M.tryCatch]
    cases hxw : x w with
    | mk r w' =>
      have h1 := hx.inv w hw
      rw [hxw] at h1
      cases r with
      | ok a => exact h1
      | error e =>
        simp only []
        cases hk : h e with
        | none => exact h1
        | some k => exact (hh e k hk).inv w' h1
  · intros; trivial

theorem pres_pure {α : Type} (a : α) : HPresI I (pure a : M α) := ret_pure a trivial

theorem pres_of_ret {α : Type} {Q : α → Prop} {x : M α} (h : HRetI I x Q) : HPresI I x := ret_weaken h fun _ _ => trivial

/-! ### What does not touch the registry keeps every invariant -/

theorem pres_gwSend (m : Msg) (b : Bool) : HPresI I (gwSend m b) := by
  refine ret_bind ret_getSt fun st _ => ?_
  split
  · exact ret_raise _
  · exact ret_raise _
  · exact pres_transportWrite _
  · split
    · split
      · exact pres_modifySt _ fun s hs => hs
      · exact pres_transportWrite _
    · exact pres_transportWrite _

theorem pres_apiSend (obj : Option Msg) (b : Bool) : HPresI I (apiSend obj b) := by
  cases obj with
  | none => exact ret_raise _
  | some m => exact pres_gwSend m b

/-- Looking a node up changes nothing. -/
theorem pres_requireNode (id : Int) : HPresI I (requireNode id) := by
  refine ret_bind ret_getSt fun st _ => ?_
  split
  · exact pres_pure _
  · exact ret_raise _

theorem pres_flushList (l : List (Key × Msg)) : HPresI I (flushList l) := by
  induction l with
  | nil => exact pres_pure _
  | cons p rest ih =>
    obtain ⟨k, bm⟩ := p
    refine ret_seq (pres_gwSend _ _) (ret_seq (pres_modifySt _ fun s hs => ?_) ih)
    split <;> exact hs

theorem pres_flush (m : Msg) : HPresI I (flush m) :=
  ret_bind ret_getSt fun _ _ => ret_seq (pres_flushList _) (pres_pure _)

theorem pres_hVersion (m : Msg) : HPresI I (hVersion m) :=
  ret_bind (ret_convertExn (Q := fun _ => True) _ _ _ fun _ _ => trivial) fun _ _ =>
    ret_seq (pres_modifySt _ fun _ hs => hs) (pres_pure _)

theorem pres_heartbeatValue (classes : List PyExn) (m : Msg) : HPresI I (heartbeatValue classes m) :=
  ret_convertExn _ _ _ fun _ _ => trivial

theorem pres_hConfig (env : Env) (m : Msg) : HPresI I (hConfig env m) := ret_seq (pres_gwSend _ _) (pres_pure _)
theorem pres_hTime (env : Env) (m : Msg) : HPresI I (hTime env m) := ret_seq (pres_gwSend _ _) (pres_pure _)
theorem pres_hGatewayReady (m : Msg) : HPresI I (hGatewayReady m) := ret_seq (pres_gwSend _ _) (pres_pure _)
theorem pres_hDiscoverResponse (m : Msg) : HPresI I (hDiscoverResponse m) :=
  ret_bind (pres_requireNode _) fun _ _ => pres_pure _

theorem pres_hReq (m : Msg) : HPresI I (hReq m) := by
  refine ret_bind (pres_requireNode _) fun node _ => ?_
  split
  · exact ret_raise _
  · split
    · exact ret_seq (pres_gwSend _ _) (pres_pure _)
    · exact pres_pure _

theorem pres_wrapMissingPV (inner : Msg → M Msg) (m : Msg) (h : HPresI I (inner m)) : HPresI I (wrapMissingPV inner m) :=
  pres_tryFinally h fun r => by
    cases r <;> exact ret_bind ret_getSt fun _ _ => by
      simp only []
      split
      · exact pres_gwSend _ _
      · exact pres_pure _

theorem pres_wrapMissingNC (inner : Msg → M Msg) (m : Msg) (h : HPresI I (inner m)) : HPresI I (wrapMissingNC inner m) := by
  refine pres_tryCatch h fun e k hk => ?_
  split at hk
  · cases hk
    refine ret_bind ret_getSt fun _ _ => ?_
    split
    · exact ret_raise _
    · exact ret_seq (pres_gwSend _ _) (ret_seq (pres_modifySt _ fun _ hs => hs) (ret_raise _))
  · cases hk

theorem pres_runPre (b : Body) (m : Msg) : HPresI I (runPre b m) := by
  cases b <;> simp only [runPre] <;> first
    | exact ret_raise _
    | (refine pres_modifySt _ fun s hs => ?_; split <;> exact hs)

theorem pres_applyLayers (layers : List Layer) (base : Msg → M Msg) (m : Msg) (hb : HPresI I (base m)) :
    HPresI I (applyLayers layers base m) := by
  induction layers with
  | nil => exact hb
  | cons l ls ih =>
    cases l with
    | wrap w =>
      cases w with
      | missingPV => exact pres_wrapMissingPV _ m ih
      | missingNC => exact pres_wrapMissingNC _ m ih
    | pre b => exact ret_seq (pres_runPre b m) ih

end generic

end AioMySensors
