/-
Helper lemmas for C09: `PDict` facts, `lastFor`, the invariant of the flush/send interleaving and
its preservation by every atomic block, the undisturbed wake, and two counting facts about lists.
-/
import AioMySensors.Model.Flush
namespace AioMySensors.Flush
open AioMySensors PDict

section pd
variable {κ α : Type} [DecidableEq κ]

theorem pd_mem_keys_set {d : PDict κ α} {k : κ} {v : α} {a : κ} :
    a ∈ keys (set d k v) ↔ a = k ∨ a ∈ keys d := by
  induction d with
  | nil => simp [PDict.set, keys]
  | cons x rest ih =>
    obtain ⟨k', v'⟩ := x
    simp only [PDict.set]
    split
    · simp_all [keys]
    · simp only [keys, List.map_cons, List.mem_cons] at ih ⊢
      rw [ih]; grind

theorem pd_wf_set {d : PDict κ α} (h : WF d) (k : κ) (v : α) : WF (set d k v) := by
  induction d with
  | nil => simp [PDict.set, WF, keys]
  | cons x rest ih =>
    obtain ⟨k', v'⟩ := x
    simp only [WF, keys, List.map_cons, List.nodup_cons] at h
    simp only [PDict.set]
    split
    · simpa [WF, keys] using h
    · have := ih h.2
      simp only [WF, keys, List.map_cons, List.nodup_cons]
      refine ⟨?_, this⟩
      intro hc
      rcases pd_mem_keys_set.mp hc with h1 | h1
      · simp_all
      · exact h.1 h1

theorem pd_mem_set_self (d : PDict κ α) (k : κ) (v : α) : (k, v) ∈ set d k v := by
  induction d with
  | nil => simp [PDict.set]
  | cons x rest ih =>
    obtain ⟨k', v'⟩ := x
    simp only [PDict.set]
    split <;> simp_all

theorem pd_mem_set_of_ne {d : PDict κ α} {x : κ × α} {k : κ} (v : α) (hx : x ∈ d) (hk : x.1 ≠ k) :
    x ∈ set d k v := by
  induction d with
  | nil => simp at hx
  | cons y rest ih =>
    obtain ⟨k', v'⟩ := y
    simp only [PDict.set]
    split
    · rcases List.mem_cons.mp hx with h | h
      · subst h; simp_all
      · exact List.mem_cons_of_mem _ h
    · rcases List.mem_cons.mp hx with h | h
      · subst h; simp
      · exact List.mem_cons_of_mem _ (ih h)

theorem pd_mem_set {d : PDict κ α} (hd : WF d) {x : κ × α} {k : κ} {v : α} (hx : x ∈ set d k v) :
    x = (k, v) ∨ (x ∈ d ∧ x.1 ≠ k) := by
  induction d with
  | nil => simp [PDict.set] at hx; exact Or.inl hx
  | cons y rest ih =>
    obtain ⟨k', v'⟩ := y
    simp only [WF, keys, List.map_cons, List.nodup_cons] at hd
    simp only [PDict.set] at hx
    split at hx
    · rename_i hk
      subst hk
      rcases List.mem_cons.mp hx with h | h
      · exact Or.inl h
      · refine Or.inr ⟨List.mem_cons_of_mem _ h, ?_⟩
        intro hc
        exact hd.1 (hc ▸ List.mem_map_of_mem (f := (·.1)) h)
    · rename_i hk
      rcases List.mem_cons.mp hx with h | h
      · subst h; exact Or.inr ⟨List.mem_cons_self, hk⟩
      · rcases ih hd.2 h with h1 | h1
        · exact Or.inl h1
        · exact Or.inr ⟨List.mem_cons_of_mem _ h1.1, h1.2⟩

theorem pd_mem_of_mem_erase {d : PDict κ α} {x : κ × α} {k : κ} (hx : x ∈ erase d k) : x ∈ d := by
  induction d with
  | nil => simp [PDict.erase] at hx
  | cons y rest ih =>
    obtain ⟨k', v'⟩ := y
    simp only [PDict.erase] at hx
    split at hx
    · exact List.mem_cons_of_mem _ hx
    · rcases List.mem_cons.mp hx with h | h
      · subst h; exact List.mem_cons_self
      · exact List.mem_cons_of_mem _ (ih h)

theorem pd_mem_erase_of_ne {d : PDict κ α} {x : κ × α} {k : κ} (hx : x ∈ d) (hk : x.1 ≠ k) : x ∈ erase d k := by
  induction d with
  | nil => simp at hx
  | cons y rest ih =>
    obtain ⟨k', v'⟩ := y
    simp only [PDict.erase]
    split
    · rcases List.mem_cons.mp hx with h | h
      · subst h; simp_all
      · exact h
    · rcases List.mem_cons.mp hx with h | h
      · subst h; exact List.mem_cons_self
      · exact List.mem_cons_of_mem _ (ih h)

theorem pd_keys_erase_sublist (d : PDict κ α) (k : κ) : (keys (erase d k)).Sublist (keys d) := by
  induction d with
  | nil => simp [PDict.erase, keys]
  | cons y rest ih =>
    obtain ⟨k', v'⟩ := y
    simp only [PDict.erase]
    split
    · simp [keys]
    · simpa [keys] using ih

theorem pd_wf_erase {d : PDict κ α} (h : WF d) (k : κ) : WF (erase d k) :=
  List.Nodup.sublist (pd_keys_erase_sublist d k) h

theorem pd_key_ne_of_mem_erase {d : PDict κ α} (hd : WF d) {x : κ × α} {k : κ} (hx : x ∈ erase d k) : x.1 ≠ k := by
  induction d with
  | nil => simp [PDict.erase] at hx
  | cons y rest ih =>
    obtain ⟨k', v'⟩ := y
    simp only [WF, keys, List.map_cons, List.nodup_cons] at hd
    simp only [PDict.erase] at hx
    split at hx
    · rename_i hk
      subst hk
      intro hc
      exact hd.1 (hc ▸ List.mem_map_of_mem (f := (·.1)) hx)
    · rename_i hk
      rcases List.mem_cons.mp hx with h | h
      · subst h; exact hk
      · exact ih hd.2 h

theorem pd_get?_of_mem {d : PDict κ α} (hd : WF d) {k : κ} {v : α} (hx : (k, v) ∈ d) : get? d k = some v := by
  induction d with
  | nil => simp at hx
  | cons y rest ih =>
    obtain ⟨k', v'⟩ := y
    simp only [WF, keys, List.map_cons, List.nodup_cons] at hd
    simp only [PDict.get?]
    rcases List.mem_cons.mp hx with h | h
    · simp_all
    · split
      · rename_i hk
        subst hk
        exact absurd (List.mem_map_of_mem (f := (·.1)) h) hd.1
      · exact ih hd.2 h

theorem pd_mem_of_get? {d : PDict κ α} {k : κ} {v : α} (h : get? d k = some v) : (k, v) ∈ d := by
  induction d with
  | nil => simp [PDict.get?] at h
  | cons y rest ih =>
    obtain ⟨k', v'⟩ := y
    simp only [PDict.get?] at h
    split at h
    · simp_all
    · exact List.mem_cons_of_mem _ (ih h)

end pd

theorem lastFor_concat (k : Key) (l : List Entry) (e : Entry) :
    lastFor k (l ++ [e]) = if e.1 = k then some e else lastFor k l := by
  simp only [lastFor, List.filter_append, List.filter_cons, List.filter_nil]
  split <;> simp_all

theorem lastFor_some {k : Key} {l : List Entry} {e : Entry} (h : lastFor k l = some e) : e ∈ l ∧ e.1 = k := by
  have := List.mem_of_getLast? h
  simpa using this

theorem lastFor_of_getLast? {l : List Entry} {e : Entry} (h : l.getLast? = some e) : lastFor e.1 l = some e := by
  obtain ⟨ys, rfl⟩ := List.getLast?_eq_some_iff.mp h
  simp [lastFor_concat]

theorem lastFor_isSome_of_mem {k : Key} {l : List Entry} {e : Entry} (h : e ∈ l) (hk : e.1 = k) :
    ∃ e', lastFor k l = some e' := by
  have hm : e ∈ l.filter fun e => e.1 = k := by simp [h, hk]
  have hne : (l.filter fun e => decide (e.1 = k)) ≠ [] := List.ne_nil_of_mem hm
  have := List.getLast?_isSome.mpr hne
  exact Option.isSome_iff_exists.mp this


/-! ### The invariant -/

/-- The snapshot of the flush in progress (head = current iteration). -/
def Pc.snap : Pc → List Entry
  | .idle => []
  | .flushing l _ => l

/-- Snapshot entries whose bytes are not on the wire yet. -/
def Pc.pending : Pc → List Entry
  | .idle => []
  | .flushing l (some true) => l.tail
  | .flushing l _ => l

/-- The entry whose bytes are on the wire while its `write` has not returned yet. -/
def Pc.inFlight : Pc → Option Entry
  | .flushing (e :: _) (some true) => some e
  | _ => none

structure Inv (s : State) : Prop where
  logIds : ∀ e ∈ s.log, e.2.2 < s.next
  logNodup : (s.log.map (·.2.2)).Nodup
  bufWF : PDict.WF s.buf
  bufLast : ∀ e ∈ s.buf, lastFor e.1 s.log = some e
  lastKept : ∀ k e, lastFor k s.log = some e → e ∈ s.buf ∨ lastFor k s.wire = some e
  snapBuf : ∀ e ∈ s.pc.snap, ∃ x ∈ s.buf, x.1 = e.1
  snapKeys : (s.pc.snap.map (·.1)).Nodup
  snapLog : ∀ e ∈ s.pc.snap, e ∈ s.log
  wireLog : ∀ e ∈ s.wire, e ∈ s.log
  wireNodup : s.wire.Nodup
  pendingFresh : ∀ e ∈ s.pc.pending, e ∉ s.wire
  bufFresh : ∀ e ∈ s.buf, e ∈ s.wire → s.pc.inFlight = some e
  inFlightLast : ∀ e, s.pc.inFlight = some e → s.wire.getLast? = some e

theorem snap_nextPc (r : List Entry) : (nextPc r).snap = r := by cases r <;> rfl
theorem pending_nextPc (r : List Entry) : (nextPc r).pending = r := by cases r <;> rfl
theorem inFlight_nextPc (r : List Entry) : (nextPc r).inFlight = none := by cases r <;> rfl

theorem inv_empty (senders : List (List (Key × Val))) : Inv { senders := senders } := by
  constructor <;> simp [PDict.WF, PDict.keys, lastFor, Pc.snap, Pc.pending, Pc.inFlight]

theorem inv_park {s : State} (h : Inv s) (kv : Key × Val) : Inv (park s kv) := by
  obtain ⟨k, v⟩ := kv
  have hfresh : ∀ e ∈ s.log, e ≠ (k, v, s.next) := by
    intro e he hc; have := h.logIds e he; rw [hc] at this; exact Nat.lt_irrefl _ this
  constructor
  · intro e he
    simp only [park, List.mem_append, List.mem_singleton] at he ⊢
    rcases he with he | he
    · exact Nat.lt_succ_of_lt (h.logIds e he)
    · subst he; exact Nat.lt_succ_self _
  · simp only [park, List.map_append, List.map_cons, List.map_nil]
    refine List.nodup_append.mpr ⟨h.logNodup, by simp, ?_⟩
    intro a ha b hb
    simp only [List.mem_singleton] at hb
    obtain ⟨e, he, rfl⟩ := List.mem_map.mp ha
    subst hb
    exact Nat.ne_of_lt (h.logIds e he)
  · exact pd_wf_set h.bufWF _ _
  · intro e he
    simp only [park] at he ⊢
    rw [lastFor_concat]
    rcases pd_mem_set h.bufWF he with he | ⟨he, hk⟩
    · subst he; simp
    · simp only [Ne.symm hk, if_false]; exact h.bufLast e he
  · intro k' e he
    simp only [park] at he ⊢
    rw [lastFor_concat] at he
    split at he
    · rename_i hk
      simp only [Option.some.injEq] at he
      subst he
      exact Or.inl (pd_mem_set_self _ _ _)
    · rename_i hk
      rcases h.lastKept k' e he with h1 | h1
      · exact Or.inl (pd_mem_set_of_ne _ h1 (by rw [(lastFor_some he).2]; exact fun hc => hk hc.symm))
      · exact Or.inr h1
  · intro e he
    obtain ⟨x, hx, hxe⟩ := h.snapBuf e he
    by_cases hk : x.1 = k
    · exact ⟨(k, v, s.next), pd_mem_set_self _ _ _, by rw [← hxe, hk]⟩
    · exact ⟨x, pd_mem_set_of_ne _ hx hk, hxe⟩
  · exact h.snapKeys
  · intro e he; exact List.mem_append_left _ (h.snapLog e he)
  · intro e he; exact List.mem_append_left _ (h.wireLog e he)
  · exact h.wireNodup
  · exact h.pendingFresh
  · intro e he hw
    rcases pd_mem_set h.bufWF he with he | ⟨he, _⟩
    · exact absurd he (hfresh e (h.wireLog e hw))
    · exact h.bufFresh e he hw
  · exact h.inFlightLast


theorem inv_senders {s : State} (h : Inv s) (x : List (List (Key × Val))) : Inv { s with senders := x } :=
  ⟨h.logIds, h.logNodup, h.bufWF, h.bufLast, h.lastKept, h.snapBuf, h.snapKeys, h.snapLog, h.wireLog,
    h.wireNodup, h.pendingFresh, h.bufFresh, h.inFlightLast⟩

theorem inv_wakeStart {s : State} (h : Inv s) (hpc : s.pc = .idle) : Inv { s with pc := nextPc s.buf } := by
  have hbf : ∀ e ∈ s.buf, e ∉ s.wire := by
    intro e he hw
    have := h.bufFresh e he hw
    simp [hpc, Pc.inFlight] at this
  refine ⟨h.logIds, h.logNodup, h.bufWF, h.bufLast, h.lastKept, ?_, ?_, ?_, h.wireLog, h.wireNodup, ?_, ?_, ?_⟩
  · simp only [snap_nextPc]
    intro e he; exact ⟨e, he, rfl⟩
  · simp only [snap_nextPc]; exact h.bufWF
  · simp only [snap_nextPc]
    intro e he; exact (lastFor_some (h.bufLast e he)).1
  · simp only [pending_nextPc]; exact hbf
  · intro e he hw; exact absurd hw (hbf e he)
  · simp [inFlight_nextPc]

theorem inv_writeBegin {s : State} {e : Entry} {r : List Entry} (h : Inv s) (hpc : s.pc = .flushing (e :: r) none) :
    Inv { s with pc := .flushing (e :: r) (some false) } := by
  have h1 := h.snapBuf; have h2 := h.snapKeys; have h3 := h.snapLog
  have h4 := h.pendingFresh; have h5 := h.bufFresh; have h6 := h.inFlightLast
  simp only [hpc, Pc.snap, Pc.pending, Pc.inFlight] at h1 h2 h3 h4 h5 h6
  exact ⟨h.logIds, h.logNodup, h.bufWF, h.bufLast, h.lastKept, h1, h2, h3, h.wireLog, h.wireNodup, h4, h5, h6⟩

theorem inv_wireAppend {s : State} {e : Entry} {r : List Entry} (h : Inv s)
    (hpc : s.pc = .flushing (e :: r) (some false)) :
    Inv { s with wire := s.wire ++ [e], pc := .flushing (e :: r) (some true) } := by
  have h1 := h.snapBuf; have h2 := h.snapKeys; have h3 := h.snapLog
  have h4 := h.pendingFresh; have h5 := h.bufFresh
  simp only [hpc, Pc.snap, Pc.pending, Pc.inFlight] at h1 h2 h3 h4 h5
  refine ⟨h.logIds, h.logNodup, h.bufWF, h.bufLast, ?_, h1, h2, h3, ?_, ?_, ?_, ?_, ?_⟩
  · intro k e' he'
    simp only [lastFor_concat]
    split
    · rename_i hk
      obtain ⟨x, hx, hxe⟩ := h1 e List.mem_cons_self
      have := h.bufLast x hx
      rw [hxe, hk, he'] at this
      simp only [Option.some.injEq] at this
      exact Or.inl (this ▸ hx)
    · exact h.lastKept k e' he'
  · intro e' he'
    rcases List.mem_append.mp he' with hw | hw
    · exact h.wireLog e' hw
    · simp only [List.mem_singleton] at hw; subst hw; exact h3 _ List.mem_cons_self
  · exact List.nodup_append.mpr ⟨h.wireNodup, by simp, by
      intro a ha b hb
      simp only [List.mem_singleton] at hb
      subst hb
      intro hab
      exact h4 b List.mem_cons_self (hab ▸ ha)⟩
  · simp only [Pc.pending, List.tail_cons]
    intro e' he' hw
    rcases List.mem_append.mp hw with hw | hw
    · exact h4 e' (List.mem_cons_of_mem _ he') hw
    · simp only [List.mem_singleton] at hw
      subst hw
      simp only [List.map_cons, List.nodup_cons] at h2
      exact h2.1 (List.mem_map_of_mem (f := (·.1)) he')
  · simp only [Pc.inFlight]
    intro e' he' hw
    rcases List.mem_append.mp hw with hw | hw
    · exact absurd (h5 e' he' hw) (by simp)
    · simp only [List.mem_singleton] at hw; rw [hw]
  · simp only [Pc.inFlight]
    intro e' he'
    simp only [Option.some.injEq] at he'
    subst he'
    simp

theorem inv_writeEnd {s : State} {e : Entry} {r : List Entry} (h : Inv s)
    (hpc : s.pc = .flushing (e :: r) (some true)) :
    Inv { s with buf := popIfSame s.buf e, pc := nextPc r } := by
  have h1 := h.snapBuf; have h2 := h.snapKeys; have h3 := h.snapLog
  have h4 := h.pendingFresh; have h5 := h.bufFresh; have h6 := h.inFlightLast
  simp only [hpc, Pc.snap, Pc.pending, Pc.inFlight, List.tail_cons] at h1 h2 h3 h4 h5 h6
  simp only [List.map_cons, List.nodup_cons] at h2
  have hlast : lastFor e.1 s.wire = some e := lastFor_of_getLast? (h6 e rfl)
  have hsub : ∀ x ∈ popIfSame s.buf e, x ∈ s.buf := by
    intro x hx
    simp only [popIfSame] at hx
    split at hx
    · exact pd_mem_of_mem_erase hx
    · exact hx
  have hkeep : ∀ x ∈ s.buf, x.1 ≠ e.1 → x ∈ popIfSame s.buf e := by
    intro x hx hk
    simp only [popIfSame]
    split
    · exact pd_mem_erase_of_ne hx hk
    · exact hx
  have hgone : e ∉ popIfSame s.buf e := by
    intro hx
    simp only [popIfSame] at hx
    split at hx
    · exact pd_key_ne_of_mem_erase h.bufWF hx rfl
    · rename_i hne
      exact hne (pd_get?_of_mem h.bufWF hx)
  refine ⟨h.logIds, h.logNodup, ?_, ?_, ?_, ?_, ?_, ?_, h.wireLog, h.wireNodup, ?_, ?_, ?_⟩
  · simp only [popIfSame]
    split
    · exact pd_wf_erase h.bufWF _
    · exact h.bufWF
  · intro x hx; exact h.bufLast x (hsub x hx)
  · intro k e' he'
    rcases h.lastKept k e' he' with hb | hw
    · by_cases hk : e'.1 = e.1
      · -- the entry under the written key: either it stays, or it is the written object
        by_cases hstay : e' ∈ popIfSame s.buf e
        · exact Or.inl hstay
        · have hee : e' = e := by
            simp only [popIfSame] at hstay
            split at hstay
            · rename_i hget
              have := pd_get?_of_mem h.bufWF (k := e'.1) (v := e'.2) hb
              rw [hk, hget] at this
              simp only [Option.some.injEq] at this
              exact Prod.ext hk this.symm
            · exact absurd hb hstay
          subst hee
          rw [← (lastFor_some he').2]
          exact Or.inr hlast
      · exact Or.inl (hkeep e' hb hk)
    · exact Or.inr hw
  · simp only [snap_nextPc]
    intro e' he'
    obtain ⟨x, hx, hxe⟩ := h1 e' (List.mem_cons_of_mem _ he')
    refine ⟨x, hkeep x hx ?_, hxe⟩
    rw [hxe]
    intro hc
    exact h2.1 (hc ▸ List.mem_map_of_mem (f := (·.1)) he')
  · simp only [snap_nextPc]; exact h2.2
  · simp only [snap_nextPc]
    intro e' he'; exact h3 e' (List.mem_cons_of_mem _ he')
  · simp only [pending_nextPc]; exact h4
  · intro x hx hw
    have := h5 x (hsub x hx) hw
    simp only [Option.some.injEq] at this
    subst this
    exact absurd hx hgone
  · simp [inFlight_nextPc]


/-! ### Every scheduler choice keeps the invariant -/

theorem inv_stepG {s s' : State} {c : Choice} (h : Inv s) (hs : step s c = some s') : Inv s' := by
  cases c with
  | send i =>
    simp only [step, stepG] at hs
    split at hs
    · simp only [Option.some.injEq] at hs
      subst hs
      exact inv_park (inv_senders h _) _
    · exact absurd hs (by simp)
  | wakeStart =>
    simp only [step, stepG] at hs
    split at hs
    · rename_i hpc
      simp only [Option.some.injEq] at hs
      subst hs
      exact inv_wakeStart h hpc
    · exact absurd hs (by simp)
  | writeBegin =>
    simp only [step, stepG] at hs
    split at hs
    · rename_i hpc
      simp only [Option.some.injEq] at hs
      subst hs
      exact inv_writeBegin h hpc
    · exact absurd hs (by simp)
  | wireAppend =>
    simp only [step, stepG] at hs
    split at hs
    · rename_i hpc
      simp only [Option.some.injEq] at hs
      subst hs
      exact inv_wireAppend h hpc
    · exact absurd hs (by simp)
  | writeEnd =>
    simp only [step, stepG] at hs
    split at hs
    · rename_i hpc
      simp only [Option.some.injEq] at hs
      subst hs
      exact inv_writeEnd h hpc
    · exact absurd hs (by simp)

theorem execG_append (pop : PDict Key (Val × Id) → Entry → PDict Key (Val × Id)) (s : State) (a b : List Choice) :
    execG pop s (a ++ b) = execG pop (execG pop s a) b := by
  induction a generalizing s with
  | nil => rfl
  | cons c cs ih => simp only [List.cons_append, execG, ih]

theorem inv_execG {s : State} (h : Inv s) (sched : List Choice) : Inv (exec s sched) := by
  induction sched generalizing s with
  | nil => exact h
  | cons c cs ih =>
    simp only [exec, execG]
    cases hs : stepG popIfSame s c with
    | none => exact ih h
    | some s' => exact ih (inv_stepG h hs)

theorem inv_initG (cfg : Config) : Inv (init cfg) := by
  have : ∀ (l : List (Key × Val)) (s : State), Inv s → Inv (l.foldl park s) := by
    intro l
    induction l with
    | nil => intro s h; exact h
    | cons kv t ih => intro s h; exact ih _ (inv_park h kv)
  exact this _ _ (inv_empty _)

/-! ### The undisturbed wake -/

/-- An undisturbed flush whose snapshot is the whole buffer writes every entry once, in dict
order, and leaves the buffer empty. -/
theorem wake_rounds (snap : List Entry) :
    ∀ s : State, s.pc = nextPc snap → s.buf = snap →
      let s' := exec s (wakeSchedule snap.length)
      s'.buf = [] ∧ s'.pc = .idle ∧ s'.wire = s.wire ++ snap ∧ s'.log = s.log ∧ s'.senders = s.senders ∧
        s'.next = s.next := by
  induction snap with
  | nil =>
    intro s hpc hbuf
    simp [wakeSchedule, exec, execG, hpc, hbuf, nextPc]
  | cons e r ih =>
    intro s hpc hbuf
    have hget : PDict.get? (e :: r : PDict Key (Val × Id)) e.1 = some e.2 := by
      obtain ⟨k, v⟩ := e; simp [PDict.get?]
    have herase : PDict.erase (e :: r : PDict Key (Val × Id)) e.1 = r := by
      obtain ⟨k, v⟩ := e; simp [PDict.erase]
    simp only [nextPc] at hpc
    simp only [List.length_cons, wakeSchedule, exec, execG, stepG, hpc, hbuf, Option.getD_some, popIfSame,
      hget, herase, if_true]
    have := ih { s with buf := r, wire := s.wire ++ [e], pc := nextPc r } rfl rfl
    simp only [exec, List.append_assoc, List.cons_append, List.nil_append] at this
    exact this

theorem finalWake_spec {s : State} (hpc : s.pc = .idle) :
    (finalWake s).buf = [] ∧ (finalWake s).pc = .idle ∧ (finalWake s).wire = s.wire ++ s.buf ∧
      (finalWake s).log = s.log ∧ (finalWake s).senders = s.senders := by
  have := wake_rounds s.buf { s with pc := nextPc s.buf } rfl rfl
  simp only [finalWake, finalSchedule, exec, execG, stepG, hpc, Option.getD_some]
  simp only [exec] at this
  exact ⟨this.1, this.2.1, this.2.2.1, this.2.2.2.1, this.2.2.2.2.1⟩

/-! ### List facts used by the counting clause -/

theorem inj_on_of_nodup_map {α β : Type} (f : α → β) : ∀ {l : List α}, (l.map f).Nodup →
    ∀ a ∈ l, ∀ b ∈ l, f a = f b → a = b := by
  intro l
  induction l with
  | nil => intro _ a ha; simp at ha
  | cons x t ih =>
    intro hn a ha b hb hab
    simp only [List.map_cons, List.nodup_cons] at hn
    rcases List.mem_cons.mp ha with ha' | ha' <;> rcases List.mem_cons.mp hb with hb' | hb'
    · rw [ha', hb']
    · rw [ha'] at hab; exact absurd (hab ▸ List.mem_map_of_mem (f := f) hb') hn.1
    · rw [hb'] at hab; exact absurd (hab ▸ List.mem_map_of_mem (f := f) ha') hn.1
    · exact ih hn.2 a ha' b hb' hab

theorem nodup_map_of_inj_on {α β : Type} (f : α → β) : ∀ {l : List α}, l.Nodup →
    (∀ a ∈ l, ∀ b ∈ l, f a = f b → a = b) → (l.map f).Nodup := by
  intro l
  induction l with
  | nil => intro _ _; simp
  | cons x t ih =>
    intro hn hinj
    simp only [List.nodup_cons] at hn
    simp only [List.map_cons, List.nodup_cons]
    refine ⟨?_, ih hn.2 fun a ha b hb => hinj a (List.mem_cons_of_mem _ ha) b (List.mem_cons_of_mem _ hb)⟩
    intro hc
    obtain ⟨y, hy, hxy⟩ := List.mem_map.mp hc
    have := hinj y (List.mem_cons_of_mem _ hy) x List.mem_cons_self hxy
    exact hn.1 (this ▸ hy)

/-- A duplicate-free list contained in another one has at most as many elements with any given
property: each element of the first is matched by its own occurrence in the second. -/
theorem countP_le_of_nodup_subset {α : Type} [DecidableEq α] (p : α → Bool) :
    ∀ (l₁ l₂ : List α), l₁.Nodup → (∀ a ∈ l₁, a ∈ l₂) → l₁.countP p ≤ l₂.countP p := by
  intro l₁
  induction l₁ with
  | nil => intro _ _ _; simp
  | cons a t ih =>
    intro l₂ hn hsub
    simp only [List.nodup_cons] at hn
    have ha : a ∈ l₂ := hsub a List.mem_cons_self
    have hperm := List.perm_cons_erase ha
    have hsub' : ∀ b ∈ t, b ∈ l₂.erase a := by
      intro b hb
      have hne : b ≠ a := fun hc => hn.1 (hc ▸ hb)
      exact (List.mem_erase_of_ne hne).mpr (hsub b (List.mem_cons_of_mem _ hb))
    have := ih (l₂.erase a) hn.2 hsub'
    rw [hperm.countP_eq p, List.countP_cons, List.countP_cons]
    omega

end AioMySensors.Flush
