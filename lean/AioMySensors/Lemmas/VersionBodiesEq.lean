/-
`get_protocol` as translated from the code on this run (`Generated/VersionBodies.lean`) is `getProtocolX`, the
function every C05 theorem about version selection speaks about.  Proved for any iteration direction / default the
translation may contain: the final equality holds exactly when the code iterates newest first and falls back to the
default protocol, which is what `lake build` re-checks.
-/
import AioMySensors.Generated.VersionBodies

namespace AioMySensors.GenVersion
open AioMySensors

/-- The lazy `next(...)` with the `not … < …` condition is the model's generator loop. -/
theorem nextOr_notLt (s : Str) (ks : List LV.Key) :
    LV.nextOr ks (fun k => LV.notB (LV.avLt s k)) (fun k => LV.moduleOf k) Gen.defaultVersion
      = getProtocolFrom (avString (avNorm s)) (avStrategy (avString (avNorm s))) ks := by
  induction ks with
  | nil => rfl
  | cons k ks ih =>
    simp only [LV.nextOr, getProtocolFrom, LV.avLt, LV.notB, LV.moduleOf]
    cases h : avLtKeyOf (avString (avNorm s)) (avStrategy (avString (avNorm s))) k.2.1 k.2.2 with
    | error e => rfl
    | ok b =>
      cases b
      · rfl
      · simpa [LV.avLt, LV.notB, LV.moduleOf] using ih

/-- **The tie**: the generated `get_protocol` is the model's, for every Python `str`. -/
theorem getProtocol_eq (s : Str) : getProtocol s = getProtocolX s := by
  have h := nextOr_notLt s keysDesc
  simpa [getProtocol, getProtocolX, LV.sortedKeys, keysDesc, Gen.defaultVersion] using h

/-- With the exception class, as the version handler sees it. -/
theorem getProtocol_eqE (s : Str) :
    (match getProtocol s with | .ok v => Except.ok v | .error e => .error e.toPy) = getProtocolE s := by
  rw [getProtocol_eq]; rfl

end AioMySensors.GenVersion
