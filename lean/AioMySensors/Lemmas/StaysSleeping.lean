/-
A node flagged as sleeping stays flagged: an instance of the registry Hoare logic of `RegHoare`
(`HRetI I x Q`; the other instances are in `PersistReach`), with the invariant "the registry holds a record
for `k` whose `sleeping` flag is set".

Every leaf handler keeps it — each of them stores the record it read with other attributes changed, or
sets the flag; the placeholder of an id request goes under an id above every registered one — and so does
the presentation handler unless the message is the presentation of node `k` itself (a fresh record).
C07 turns this into: a destination known to be sleeping stays one until it presents itself again.
-/
import AioMySensors.Lemmas.PDict
import AioMySensors.Lemmas.RegHoare

namespace AioMySensors
open M

/-- The registry holds a record for `k` whose `sleeping` flag is set. -/
def SleepsIn (k : Int) (r : PDict Int Node) : Prop := ∃ node, r.get? k = some node ∧ node.sleeping = true

/-- Storing a record keeps it, provided the record stored under `k` itself has the flag set. -/
theorem sleepsIn_set {k : Int} (r : PDict Int Node) (id : Int) (n : Node) (h : SleepsIn k r)
    (hn : id = k → n.sleeping = true) : SleepsIn k (r.set id n) := by
  by_cases hid : id = k
  · subst hid
    exact ⟨n, PDict.get?_set_self _ _ _, hn rfl⟩
  · obtain ⟨node, hg, hs⟩ := h
    refine ⟨node, ?_, hs⟩
    rw [PDict.get?_set_ne r n (fun h => hid h.symm)]
    exact hg

theorem sleeps_requireNode (k id : Int) :
    HRetI (SleepsIn k) (requireNode id) fun n => id = k → n.sleeping = true := by
  refine ret_bind ret_getSt fun st hst => ?_
  split
  · next n hn =>
    refine ret_pure n fun hid => ?_
    obtain ⟨node, hg, hs⟩ := hst
    subst hid
    rw [hn] at hg
    cases hg
    exact hs
  · exact ret_raise _

theorem sleeps_setNode (k id : Int) (n : Node) (h : id = k → n.sleeping = true) : HPresI (SleepsIn k) (setNode id n) :=
  pres_modifySt _ fun s hs => sleepsIn_set s.nodes id n hs h

theorem le_foldl_max_mem (l : List Int) (a : Int) : a ≤ l.foldl max a ∧ ∀ x ∈ l, x ≤ l.foldl max a := by
  induction l generalizing a with
  | nil => simp
  | cons x xs ih =>
    obtain ⟨h1, h2⟩ := ih (max a x)
    simp only [List.foldl_cons, List.mem_cons]
    refine ⟨by omega, ?_⟩
    rintro y (rfl | hy)
    · omega
    · exact h2 y hy

/-- The id an id request hands out is above every registered id. -/
theorem lt_nextId_of_get? (nodes : PDict Int Node) (k : Int) (node : Node) (h : nodes.get? k = some node) :
    k < nextId nodes := by
  have hk : k ∈ nodes.keys := (PDict.has_iff_mem_keys _ _).mp (by simp [PDict.has, h])
  unfold nextId
  cases hks : nodes.keys with
  | nil => simp [hks] at hk
  | cons a l =>
    rw [hks] at hk
    obtain ⟨h1, h2⟩ := le_foldl_max_mem l a
    simp only [List.mem_cons] at hk
    rcases hk with rfl | hk
    · simp; omega
    · have := h2 k hk; simp; omega

theorem sleeps_hIdRequest (k : Int) (m : Msg) : HPresI (SleepsIn k) (hIdRequest m) := by
  constructor
  · intro w hw
    simp only [hIdRequest, M.bind, M.getSt]
    split
    · exact hw
    · have hreg : SleepsIn k (w.st.nodes.set (nextId w.st.nodes) placeholderNode) :=
        sleepsIn_set w.st.nodes _ _ hw fun hid => by
          obtain ⟨node, hg, _⟩ := hw
          have := lt_nextId_of_get? _ _ _ hg
          omega
      simp only [M.seq, M.bind, allocNode, M.modifySt]
      exact (ret_seq (I := SleepsIn k) (pres_gwSend ⟨m.node, m.child, m.cmd, 0, Gen.iIdResponse, dec (nextId w.st.nodes)⟩ Gen.bufIdResponse)
        (pres_pure m)).inv { w with st := { w.st with nodes := w.st.nodes.set (nextId w.st.nodes) placeholderNode } } hreg
  · intros; trivial

theorem sleeps_hBattery (k : Int) (m : Msg) : HPresI (SleepsIn k) (hBattery m) := by
  refine ret_bind (sleeps_requireNode k _) fun node hnode => ?_
  refine ret_bind (ret_convertExn (Q := fun _ => True) _ _ _ fun _ _ => trivial) fun level _ => ?_
  split
  · exact ret_seq (sleeps_setNode k _ _ fun h => hnode h) (pres_pure _)
  · exact ret_raise _

theorem sleeps_hSketchName (k : Int) (m : Msg) : HPresI (SleepsIn k) (hSketchName m) :=
  ret_bind (sleeps_requireNode k _) fun _ hn => ret_seq (sleeps_setNode k _ _ fun h => hn h) (pres_pure _)

theorem sleeps_hSketchVersion (k : Int) (m : Msg) : HPresI (SleepsIn k) (hSketchVersion m) :=
  ret_bind (sleeps_requireNode k _) fun _ hn => ret_seq (sleeps_setNode k _ _ fun h => hn h) (pres_pure _)

theorem sleeps_hHeartbeat20 (k : Int) (m : Msg) : HPresI (SleepsIn k) (hHeartbeat20 m) :=
  ret_bind (sleeps_requireNode k _) fun _ _ =>
    ret_bind (pres_heartbeatValue _ _) fun _ _ => ret_seq (sleeps_setNode k _ _ fun _ => rfl) (pres_flush _)

theorem sleeps_hHeartbeat22 (k : Int) (m : Msg) : HPresI (SleepsIn k) (hHeartbeat22 m) :=
  ret_bind (sleeps_requireNode k _) fun _ hn =>
    ret_bind (pres_heartbeatValue _ _) fun _ _ => ret_seq (sleeps_setNode k _ _ fun h => hn h) (pres_pure _)

theorem sleeps_hPreSleep22 (k : Int) (m : Msg) : HPresI (SleepsIn k) (hPreSleep22 m) :=
  ret_bind (sleeps_requireNode k _) fun _ _ => ret_seq (sleeps_setNode k _ _ fun _ => rfl) (pres_flush _)

theorem sleeps_hSet (k : Int) (m : Msg) : HPresI (SleepsIn k) (hSet m) := by
  refine ret_bind (sleeps_requireNode k _) fun node hn => ?_
  split
  · exact ret_raise _
  · refine ret_seq (sleeps_setNode k _ _ fun h => hn h) ?_
    split
    · exact ret_seq (pres_gwSend _ _) (pres_pure _)
    · exact pres_pure _

/-- **No leaf handler clears the flag**: whatever message reaches whatever leaf handler, a node flagged as sleeping
is flagged as sleeping afterwards (whatever the outcome and the fault schedule). -/
theorem sleeps_runLeaf (k : Int) (env : Env) (b : Body) (f : Msg → M Msg) (h : runLeaf env b = some f) (m : Msg) :
    HPresI (SleepsIn k) (f m) := by
  cases b <;> simp only [runLeaf, Option.some.injEq, reduceCtorEq] at h <;> subst h
  · exact sleeps_hSet k m
  · exact pres_hReq m
  · exact pres_hVersion m
  · exact sleeps_hIdRequest k m
  · exact pres_hConfig env m
  · exact pres_hTime env m
  · exact sleeps_hBattery k m
  · exact sleeps_hSketchName k m
  · exact sleeps_hSketchVersion k m
  · exact pres_hGatewayReady m
  · exact pres_hDiscoverResponse m
  · exact sleeps_hHeartbeat20 k m
  · exact sleeps_hHeartbeat22 k m
  · exact sleeps_hPreSleep22 k m

/-! ### The dispatch structure (no fact about the generated chain tables is needed) -/

theorem sleeps_runInner (k : Int) (env : Env) (ch : Chain) (m : Msg) : HPresI (SleepsIn k) (runInner env ch m) := by
  cases hr : runLeaf env ch.base with
  | some f => simp only [runInner, hr]; exact pres_applyLayers _ _ m (sleeps_runLeaf k env _ f hr m)
  | none => simp only [runInner, hr]; exact ret_raise _

theorem sleeps_runTyped (k : Int) (env : Env) (ch : Option Chain) (m : Msg) : HPresI (SleepsIn k) (runTyped env ch m) := by
  cases ch with
  | none => exact pres_pure _
  | some ch => exact sleeps_runInner k env ch m

/-- Every internal type of every version: whatever handler the type name resolves to (or none, or a refusal). -/
theorem sleeps_hInternal (k : Int) (env : Env) (v : Ver) (m : Msg) : HPresI (SleepsIn k) (hInternal env v m) := by
  simp only [hInternal]
  split
  · exact ret_raise _
  · exact sleeps_runTyped k env _ m

theorem sleeps_hStream (k : Int) (env : Env) (v : Ver) (m : Msg) : HPresI (SleepsIn k) (hStream env v m) := by
  refine ret_bind (pres_requireNode _) fun _ _ => ?_
  split
  · exact ret_raise _
  · exact sleeps_runTyped k env _ m

/-- The presentation handler keeps the flag of `k` unless the message is the presentation of node `k` itself:
another node's presentation stores a fresh record under ITS id, a child presentation stores the record it read. -/
theorem sleeps_hPresentation (k : Int) (env : Env) (v : Ver) (m : Msg)
    (h : ¬ (m.child = Gen.systemChildId ∧ m.node = k)) : HPresI (SleepsIn k) (hPresentation env v m) := by
  simp only [hPresentation]
  split
  · next hc =>
    have hne : m.node ≠ k := fun hk => h ⟨by simpa using hc, hk⟩
    refine ret_seq (sleeps_setNode k _ _ fun hk => absurd hk hne) ?_
    split
    · exact sleeps_runTyped k env _ m
    · exact pres_pure _
  · refine ret_bind (sleeps_requireNode k _) fun node hn => ?_
    exact ret_seq (sleeps_setNode k _ _ fun h => hn h) (pres_pure _)

/-- The command-level handlers, given the presentation handler's case for THIS message. -/
theorem sleeps_runBase (k : Int) (env : Env) (v : Ver) (b : Body) (m : Msg)
    (hp : b = .presentation14 → HPresI (SleepsIn k) (hPresentation env v m)) :
    HPresI (SleepsIn k) (runBase env v b m) := by
  cases hb : runLeaf env b with
  | some f =>
    have hf := sleeps_runLeaf k env b f hb m
    cases b <;> simp only [runLeaf, reduceCtorEq] at hb <;> simp only [runBase, runLeaf] <;> first
      | exact hp rfl
      | exact sleeps_hInternal k env v m
      | exact sleeps_hStream k env v m
      | (cases hb; exact hf)
  | none =>
    cases b <;> simp only [runLeaf, reduceCtorEq] at hb <;> simp only [runBase, runLeaf] <;> first
      | exact hp rfl
      | exact sleeps_hInternal k env v m
      | exact sleeps_hStream k env v m
      | exact ret_raise _

end AioMySensors
