/- Lemmas about the codec model: the validators in the property's words, and `rstrip` of an encoded line. -/
import AioMySensors.Lemmas.PyNum
import AioMySensors.Model.Codec

namespace AioMySensors

/-- The well-formedness conditions of C01/C02 in the property's own words. -/
def WellFormedFields (node child cmd ack type : Int) : Prop :=
  0 ≤ node ∧ node ≤ 255 ∧ 0 ≤ child ∧ child ≤ 255 ∧ 0 ≤ cmd ∧ cmd ≤ 4 ∧ (ack = 0 ∨ ack = 1) ∧
  ((cmd = 3 ∨ cmd = 4) → child = 255 ∨ (cmd = 3 ∧ (type = 3 ∨ type = 4))) ∧
  (child = 255 → cmd ≠ 1 ∧ cmd ≠ 2)

instance (a b c d e : Int) : Decidable (WellFormedFields a b c d e) := by
  unfold WellFormedFields; infer_instance

/-- The validators of `MessageSchema`, instantiated with the generated protocol constants, accept
exactly the field combinations the property describes — for every protocol version. -/
theorem fieldsOK_iff (v : Ver) (node child cmd ack type : Int) :
    fieldsOK v node child cmd ack type = true ↔ WellFormedFields node child cmd ack type := by
  cases v <;>
  simp [fieldsOK, childIdOK, commandOK, WellFormedFields, Gen.nodeIdMin, Gen.nodeIdMax, Gen.systemChildId,
    Gen.internalCommand, Gen.nodeIdRequestTypes, Gen.strictSystemCommands, Gen.validSystemCommands,
    Gen.commandValues, Gen.ackValues] <;> grind

theorem delimiter_not_space : isPySpace Gen.delimiter = false := by decide
theorem terminator_space : isPySpace Gen.terminator = true := by decide

theorem delimiter_not_mem_dec (n : Int) : Gen.delimiter ∉ dec n := by
  intro h
  rcases mem_dec h with h | h
  · revert h; decide
  · revert h; decide

end AioMySensors
