/-
Registries the gateway can reach from received messages satisfy C13's hypothesis `RegOK`, and the
text layer's additional hypothesis `regIntsOK` (every stored integer is printable).

A small Hoare logic over the handler monad `M`, generic in the registry invariant `I`, from `Lemmas/RegHoare.lean`
(`HRetI I x Q`: `x` keeps `I` whatever its outcome, and a value it returns satisfies `Q`;
`HRet` = the instance `I := RegOK`), one lemma per combinator, per handler body and
per decorator, induction over the layers of a resolved handler chain, then over the history.
Nothing here depends on WHICH chain the translator resolved for a command or type: every body and
every decorator keeps the invariant, so every chain does.  What the proof does depend on: the range
check in `hBattery` (F9), `decode`'s node-id range, `int()`'s digit limit, and
`Gen.maxNodeId ≤ Gen.nodeIdMax`.
-/
import AioMySensors.Lemmas.Persist
import AioMySensors.Lemmas.RegHoare
import AioMySensors.Model.Gateway
import AioMySensors.Model.Handlers
import AioMySensors.Model.JsonText

namespace AioMySensors
open M Persist

namespace PDict
variable {κ α : Type} [DecidableEq κ]

theorem mem_of_get? (d : PDict κ α) (k : κ) (v : α) (h : d.get? k = some v) : (k, v) ∈ d := by
  induction d with
  | nil => cases h
  | cons p rest ih =>
    obtain ⟨k', v'⟩ := p
    simp only [get?] at h
    split at h
    · next e => cases h; simp [e]
    · exact List.mem_cons_of_mem _ (ih h)

theorem mem_set_or (d : PDict κ α) (k : κ) (v : α) (p : κ × α) (h : p ∈ d.set k v) : p = (k, v) ∨ p ∈ d := by
  induction d with
  | nil => simp [set] at h; exact Or.inl h
  | cons q rest ih =>
    obtain ⟨k', v'⟩ := q
    simp only [set] at h
    split at h
    · next e =>
      rcases List.mem_cons.mp h with h | h
      · left; rw [h, e]
      · right; exact List.mem_cons_of_mem _ h
    · rcases List.mem_cons.mp h with h | h
      · right; rw [h]; exact List.mem_cons_self
      · rcases ih h with h | h
        · exact Or.inl h
        · exact Or.inr (List.mem_cons_of_mem _ h)

theorem keys_set_of_mem (d : PDict κ α) (k : κ) (v : α) (h : k ∈ d.keys) : (d.set k v).keys = d.keys := by
  induction d with
  | nil => cases h
  | cons q rest ih =>
    obtain ⟨k', v'⟩ := q
    simp only [set]
    split
    · simp [keys]
    · next hne =>
      have : k ∈ keys rest := by
        simp only [keys, List.map_cons, List.mem_cons] at h
        rcases h with h | h
        · exact absurd h.symm hne
        · exact h
      simp only [keys, List.map_cons] at ih ⊢
      rw [ih this]

theorem nodup_set (d : PDict κ α) (k : κ) (v : α) (h : d.keys.Nodup) : (d.set k v).keys.Nodup := by
  by_cases hk : k ∈ d.keys
  · rw [keys_set_of_mem d k v hk]; exact h
  · rw [set_fresh d k v hk, keys_append]
    simp only [keys, List.map_cons, List.map_nil]
    exact List.nodup_append.mpr ⟨h, by simp, by intro a ha b hb; simp at hb; subst hb; intro e; subst e; exact hk ha⟩

end PDict

/-! ### The registry invariant is kept by every update the handlers make -/

theorem regOK_set (r : PDict Int Node) (id : Int) (n : Node) (h : RegOK r) (hn : NodeOK id n) : RegOK (r.set id n) :=
  ⟨PDict.nodup_set r id n h.nodup, fun kn hkn => by
    rcases PDict.mem_set_or r id n kn hkn with rfl | hm
    · exact hn
    · exact h.nodes kn hm⟩

theorem valuesOK_set (vs : PDict Int Str) (t : Int) (v : Str) (h : ValuesOK vs) (ht : KeyOK t) : ValuesOK (vs.set t v) :=
  ⟨PDict.nodup_set vs t v h.nodup, fun k hk => by
    obtain ⟨kv, hkv, rfl⟩ := List.mem_map.mp hk
    rcases PDict.mem_set_or vs t v kv hkv with rfl | hm
    · exact ht
    · exact h.keys _ (List.mem_map.mpr ⟨kv, hm, rfl⟩)⟩

/-- Replacing or adding a child keeps the node loadable. -/
theorem nodeOK_setChild (id : Int) (n : Node) (key : Int) (c : Child) (h : NodeOK id n) (hc : ChildOK key c) :
    NodeOK id { n with children := n.children.set key c } :=
  { h with
    children_nodup := PDict.nodup_set _ _ _ h.children_nodup
    children := fun kc hkc => by
      rcases PDict.mem_set_or _ _ _ kc hkc with rfl | hm
      · exact hc
      · exact h.children kc hm }

/-! ### Integers read from the wire can be printed and read back -/

theorem pyDigit?_lt (c : Char) (d : Nat) (h : pyDigit? c = some d) : d < 10 := by
  simp only [pyDigit?] at h
  split at h
  · cases h; omega
  · simp only [Option.map_eq_some_iff] at h
    obtain ⟨z, hz, rfl⟩ := h
    have := List.find?_some hz
    simp only [decide_eq_true_eq] at this
    omega

theorem parseDigits_lt (s : Str) (acc cnt : Nat) (b : Bool) (v c : Nat)
    (h : parseDigits s acc cnt b = some (v, c)) (hacc : acc < 10 ^ cnt) : v < 10 ^ c := by
  induction s generalizing acc cnt b with
  | nil =>
    simp only [parseDigits] at h
    split at h
    · cases h; exact hacc
    · cases h
  | cons ch rest ih =>
    simp only [parseDigits] at h
    split at h
    · split at h
      · exact ih _ _ _ h hacc
      · cases h
    · split at h
      · next d hd =>
        refine ih _ _ _ h ?_
        have := pyDigit?_lt ch d hd
        rw [Nat.pow_succ]; omega
      · cases h

theorem pyNat?_lt (s : Str) (v : Nat) (h : pyNat? s = some v) : v < 10 ^ Gen.pyMaxStrDigits := by
  simp only [pyNat?] at h
  split at h
  · next v' c hp =>
    split at h
    · next hc =>
      cases h
      exact Nat.lt_of_lt_of_le (parseDigits_lt s 0 0 false _ _ hp (by simp)) (Nat.pow_le_pow_right (by decide) hc)
    · cases h
  · cases h

/-- `int(s)` succeeded, so `str()` of the result stays within the digit limit. -/
theorem pyInt?_keyOK (s : Str) (n : Int) (h : pyInt? s = some n) : KeyOK n := by
  have hpos : 0 < Gen.pyMaxStrDigits := by decide
  have key : ∀ (r : Str) (g : Int → Int), (∀ k : Nat, (g k).natAbs = k) →
      Option.map g (do let a ← pyNat? r; pure (a : Int)) = some n → KeyOK n := by
    intro r g hg hr
    cases hv : pyNat? r with
    | none => rw [hv] at hr; cases hr
    | some v =>
      rw [hv] at hr
      simp only [Option.bind_eq_bind, Option.bind_some, Option.map_some, Option.some.injEq, Option.pure_def] at hr
      subst hr
      exact digitCount_le_of_lt hpos (by rw [hg]; exact pyNat?_lt _ v hv)
  simp only [pyInt?] at h
  split at h
  · exact key _ (fun k => -k) (by intro k; omega) h
  · exact key _ (fun k => k) (by intro k; omega) h
  · exact key _ (fun k => k) (by intro k; omega) h

/-- What `decode` guarantees about a message, as far as the registry is concerned. -/
structure MsgOK (m : Msg) : Prop where
  node_lo : Gen.nodeIdMin ≤ m.node
  node_hi : m.node ≤ Gen.nodeIdMax
  child : KeyOK m.child
  type : KeyOK m.type

theorem decode_msgOK (v : Ver) (line : Str) (m : Msg) (h : decode v line = some m) : MsgOK m := by
  simp only [decode] at h
  split at h
  · split at h
    · next node child cmd ack type h0 h1 _ _ h4 =>
      split at h
      · next hf =>
        cases h
        simp only [fieldsOK, childIdOK, Bool.and_eq_true, decide_eq_true_eq] at hf
        refine ⟨hf.1.1.1.1, hf.1.1.1.2, pyInt?_keyOK _ _ h1, pyInt?_keyOK _ _ h4⟩
      · cases h
    · cases h
  · cases h

/-! ### The Hoare logic for a registry invariant (`Lemmas/RegHoare.lean`), instance `RegOK` -/

/-- `x` keeps the registry loadable whatever its outcome, and a value it returns satisfies `Q`. -/
abbrev HRet {α : Type} (x : M α) (Q : α → Prop) : Prop := HRetI RegOK x Q

/-- `x` keeps the registry loadable. -/
abbrev HPres {α : Type} (x : M α) : Prop := HRet x fun _ => True

section generic
variable {I : PDict Int Node → Prop}

/-! ### The dispatch structure, for any invariant the leaf handlers and the presentation handler keep -/

/-- Every leaf handler keeps `I` on a message `decode` produced. -/
def LeavesKeep (I : PDict Int Node → Prop) : Prop :=
  ∀ (env : Env) (b : Body) (f : Msg → M Msg), runLeaf env b = some f → ∀ m, MsgOK m → HPresI I (f m)

theorem presI_runInner (hl : LeavesKeep I) (env : Env) (ch : Chain) (m : Msg) (hm : MsgOK m) : HPresI I (runInner env ch m) := by
  cases hr : runLeaf env ch.base with
  | some f => simp only [runInner, hr]; exact pres_applyLayers _ _ m (hl env _ f hr m hm)
  | none => simp only [runInner, hr]; exact ret_raise _

theorem presI_runTyped (hl : LeavesKeep I) (env : Env) (ch : Option Chain) (m : Msg) (hm : MsgOK m) :
    HPresI I (runTyped env ch m) := by
  cases ch with
  | none => exact pres_pure _
  | some ch => exact presI_runInner hl env ch m hm

theorem presI_hInternal (hl : LeavesKeep I) (env : Env) (v : Ver) (m : Msg) (hm : MsgOK m) : HPresI I (hInternal env v m) := by
  simp only [hInternal]
  split
  · exact ret_raise _
  · exact presI_runTyped hl env _ m hm

theorem presI_hStream (hl : LeavesKeep I) (env : Env) (v : Ver) (m : Msg) (hm : MsgOK m) : HPresI I (hStream env v m) := by
  refine ret_bind (pres_requireNode _) fun _ _ => ?_
  split
  · exact ret_raise _
  · exact presI_runTyped hl env _ m hm

theorem presI_runBase (hl : LeavesKeep I) (hp : ∀ env v m, MsgOK m → HPresI I (hPresentation env v m))
    (env : Env) (v : Ver) (b : Body) (m : Msg) (hm : MsgOK m) : HPresI I (runBase env v b m) := by
  cases hb : runLeaf env b with
  | some f =>
    have hf := hl env b f hb m hm
    cases b <;> simp only [runLeaf, reduceCtorEq] at hb <;> simp only [runBase, runLeaf] <;> first
      | exact hp env v m hm
      | exact presI_hInternal hl env v m hm
      | exact presI_hStream hl env v m hm
      | (cases hb; exact hf)
  | none =>
    cases b <;> simp only [runLeaf, reduceCtorEq] at hb <;> simp only [runBase, runLeaf] <;> first
      | exact hp env v m hm
      | exact presI_hInternal hl env v m hm
      | exact presI_hStream hl env v m hm
      | exact ret_raise _

theorem presI_dispatch (hl : LeavesKeep I) (hp : ∀ env v m, MsgOK m → HPresI I (hPresentation env v m))
    (env : Env) (v : Ver) (m : Msg) (hm : MsgOK m) : HPresI I (dispatch env v m) := by
  simp only [dispatch]
  split
  · exact ret_raise _
  · next ch _ => exact pres_applyLayers _ _ m (presI_runBase hl hp env v ch.base m hm)

theorem presI_recv (hl : LeavesKeep I) (hp : ∀ env v m, MsgOK m → HPresI I (hPresentation env v m))
    (env : Env) (line : Str) : HPresI I (recv env line) := by
  refine ret_bind ret_getSt fun st _ => ?_
  split
  · exact ret_raise _
  · next m hd => exact presI_dispatch hl hp env st.proto m (decode_msgOK _ _ m hd)

/-- An invariant every received line and every send keeps holds after every history. -/
theorem stateAfter_inv (hr : ∀ env line, HPresI I (recv env line)) (st : St) (ops : List Op) (h : I st.nodes) :
    I (stateAfter st ops).nodes := by
  induction ops generalizing st with
  | nil => simpa [stateAfter, run] using h
  | cons op rest ih =>
    have hstep : I (stepOp st op).1.nodes := by
      cases op with
      | recv env line faults =>
        have := (hr env line).inv { st := st, faults := faults } h
        simp only [stepOp]; split <;> simp_all
      | send obj buffer faults =>
        have := (pres_apiSend (I := I) obj buffer).inv { st := st, faults := faults } h
        simp only [stepOp]; split <;> simp_all
    simpa [stateAfter, run] using ih _ hstep

end generic

/-! ### Every handler keeps the registry loadable -/

theorem ret_requireNode (id : Int) : HRet (requireNode id) fun n => NodeOK id n := by
  refine ret_bind ret_getSt fun st hst => ?_
  split
  · next n hn => exact ret_pure n (hst.nodes (id, n) (PDict.mem_of_get? _ _ _ hn))
  · exact ret_raise _

theorem pres_setNode (id : Int) (n : Node) (h : NodeOK id n) : HPres (setNode id n) :=
  pres_modifySt _ fun s hs => regOK_set s.nodes id n hs h

theorem foldl_max_ge (ks : List Int) (k : Int) : k ≤ ks.foldl max k := by
  induction ks generalizing k with
  | nil => exact Int.le_refl _
  | cons a rest ih => exact Int.le_trans (Int.le_max_left k a) (ih _)

/-- A freshly created node: battery level 0, no children. -/
theorem nodeOK_fresh (id ntype : Int) (pv : Str) (h0 : Gen.nodeIdMin ≤ id) (h1 : id ≤ Gen.nodeIdMax) :
    NodeOK id { ntype := ntype, pv := pv } :=
  ⟨h0, h1, by show Gen.minBattery ≤ (0 : Int); decide, by show (0 : Int) ≤ Gen.maxBattery; decide,
    by simp [PDict.keys], by simp⟩

theorem nextId_ge_min (nodes : PDict Int Node) (h : RegOK nodes) : Gen.nodeIdMin ≤ nextId nodes := by
  unfold nextId
  cases hk : nodes.keys with
  | nil => simp only []; decide
  | cons k ks =>
    simp only []
    have hmem : k ∈ nodes.keys := by rw [hk]; simp
    obtain ⟨kn, hkn, rfl⟩ := List.mem_map.mp hmem
    have := (h.nodes kn hkn).id_lo
    have := foldl_max_ge ks kn.1
    have h0 : Gen.nodeIdMin = 0 := rfl
    omega

theorem pres_hIdRequest (m : Msg) : HPres (hIdRequest m) := by
  constructor
  · intro w hw
    simp only [hIdRequest, M.bind, M.getSt]
    split
    · exact hw
    · next hle =>
      have h1 : Gen.maxNodeId ≤ Gen.nodeIdMax := by decide
      have hfresh : NodeOK (nextId w.st.nodes) placeholderNode :=
        nodeOK_fresh _ _ _ (nextId_ge_min _ hw) (by omega)
      have hreg : RegOK (w.st.nodes.set (nextId w.st.nodes) placeholderNode) := regOK_set w.st.nodes _ _ hw hfresh
      simp only [M.seq, M.bind, allocNode, M.modifySt]
      exact (ret_seq (I := RegOK) (pres_gwSend ⟨m.node, m.child, m.cmd, 0, Gen.iIdResponse, dec (nextId w.st.nodes)⟩ Gen.bufIdResponse)
        (pres_pure m)).inv { w with st := { w.st with nodes := w.st.nodes.set (nextId w.st.nodes) placeholderNode } } hreg
  · intros; trivial

theorem pres_hBattery (m : Msg) : HPres (hBattery m) := by
  refine ret_bind (ret_requireNode _) fun node hnode => ?_
  refine ret_bind (ret_convertExn (Q := fun _ => True) _ _ _ fun _ _ => trivial) fun level _ => ?_
  split
  · next hl => exact ret_seq (pres_setNode _ _ { hnode with bat_lo := hl.1, bat_hi := hl.2 }) (pres_pure _)
  · exact ret_raise _

/-- Changing attributes other than the battery level and the children keeps a node loadable. -/
theorem nodeOK_congr (id : Int) (n n' : Node) (h : NodeOK id n) (hb : n'.battery = n.battery) (hc : n'.children = n.children) :
    NodeOK id n' :=
  ⟨h.id_lo, h.id_hi, hb ▸ h.bat_lo, hb ▸ h.bat_hi, hc ▸ h.children_nodup, hc ▸ h.children⟩

theorem pres_hSketchName (m : Msg) : HPres (hSketchName m) :=
  ret_bind (ret_requireNode _) fun node hn =>
    ret_seq (pres_setNode _ _ (nodeOK_congr _ node _ hn rfl rfl)) (pres_pure _)

theorem pres_hSketchVersion (m : Msg) : HPres (hSketchVersion m) :=
  ret_bind (ret_requireNode _) fun node hn =>
    ret_seq (pres_setNode _ _ (nodeOK_congr _ node _ hn rfl rfl)) (pres_pure _)

theorem pres_hHeartbeat20 (m : Msg) : HPres (hHeartbeat20 m) :=
  ret_bind (ret_requireNode _) fun node hn =>
    ret_bind (pres_heartbeatValue _ _) fun _ _ =>
      ret_seq (pres_setNode _ _ (nodeOK_congr _ node _ hn rfl rfl)) (pres_flush _)

theorem pres_hHeartbeat22 (m : Msg) : HPres (hHeartbeat22 m) :=
  ret_bind (ret_requireNode _) fun node hn =>
    ret_bind (pres_heartbeatValue _ _) fun _ _ =>
      ret_seq (pres_setNode _ _ (nodeOK_congr _ node _ hn rfl rfl)) (pres_pure _)

theorem pres_hPreSleep22 (m : Msg) : HPres (hPreSleep22 m) :=
  ret_bind (ret_requireNode _) fun node hn =>
    ret_seq (pres_setNode _ _ (nodeOK_congr _ node _ hn rfl rfl)) (pres_flush _)

theorem pres_hSet (m : Msg) (hm : MsgOK m) : HPres (hSet m) := by
  refine ret_bind (ret_requireNode _) fun node hn => ?_
  split
  · exact ret_raise _
  · next child hc =>
    have hcok := hn.children (m.child, child) (PDict.mem_of_get? _ _ _ hc)
    refine ret_seq (pres_setNode _ _ (nodeOK_setChild _ node _ _ hn ⟨hcok.key_ok, valuesOK_set _ _ _ hcok.values hm.type⟩)) ?_
    split
    · exact ret_seq (pres_gwSend _ _) (pres_pure _)
    · exact pres_pure _

theorem pres_runLeaf (env : Env) (b : Body) (f : Msg → M Msg) (h : runLeaf env b = some f) (m : Msg) (hm : MsgOK m) :
    HPres (f m) := by
  cases b <;> simp only [runLeaf, Option.some.injEq, reduceCtorEq] at h <;> subst h
  · exact pres_hSet m hm
  · exact pres_hReq m
  · exact pres_hVersion m
  · exact pres_hIdRequest m
  · exact pres_hConfig env m
  · exact pres_hTime env m
  · exact pres_hBattery m
  · exact pres_hSketchName m
  · exact pres_hSketchVersion m
  · exact pres_hGatewayReady m
  · exact pres_hDiscoverResponse m
  · exact pres_hHeartbeat20 m
  · exact pres_hHeartbeat22 m
  · exact pres_hPreSleep22 m

theorem regOK_leaves : LeavesKeep RegOK := pres_runLeaf

theorem pres_runInner (env : Env) (ch : Chain) (m : Msg) (hm : MsgOK m) : HPres (runInner env ch m) :=
  presI_runInner regOK_leaves env ch m hm

theorem pres_runTyped (env : Env) (ch : Option Chain) (m : Msg) (hm : MsgOK m) : HPres (runTyped env ch m) :=
  presI_runTyped regOK_leaves env ch m hm

theorem pres_hPresentation (env : Env) (v : Ver) (m : Msg) (hm : MsgOK m) : HPres (hPresentation env v m) := by
  simp only [hPresentation]
  split
  · refine ret_seq (pres_setNode _ _ (nodeOK_fresh _ _ _ hm.node_lo hm.node_hi)) ?_
    split
    · exact pres_runTyped env _ m hm
    · exact pres_pure _
  · refine ret_bind (ret_requireNode _) fun node hn => ?_
    exact ret_seq (pres_setNode _ _ (nodeOK_setChild _ node _ _ hn
      ⟨hm.child, by simp [PDict.keys], by simp [PDict.keys]⟩)) (pres_pure _)

theorem pres_hInternal (env : Env) (v : Ver) (m : Msg) (hm : MsgOK m) : HPres (hInternal env v m) :=
  presI_hInternal regOK_leaves env v m hm

theorem pres_hStream (env : Env) (v : Ver) (m : Msg) (hm : MsgOK m) : HPres (hStream env v m) :=
  presI_hStream regOK_leaves env v m hm

theorem pres_runBase (env : Env) (v : Ver) (b : Body) (m : Msg) (hm : MsgOK m) : HPres (runBase env v b m) :=
  presI_runBase regOK_leaves pres_hPresentation env v b m hm

/-- Whatever chain the translator resolves for a command, the dispatched handler keeps the registry
loadable (no fact about the generated chain tables is needed). -/
theorem pres_dispatch (env : Env) (v : Ver) (m : Msg) (hm : MsgOK m) : HPres (dispatch env v m) :=
  presI_dispatch regOK_leaves pres_hPresentation env v m hm

/-- One iteration of `Gateway.listen`. -/
theorem pres_recv (env : Env) (line : Str) : HPres (recv env line) :=
  presI_recv regOK_leaves pres_hPresentation env line

/-- **What `handle_i_battery_level` does to the state**: nothing, or it stores, in the node that
sent the report, a level within `[Gen.minBattery, Gen.maxBattery]` — the range of the schema's
validator (F9: before commit 92ed814 the level was stored unchecked). -/
theorem hBattery_effect (m : Msg) (w : W) :
    (hBattery m w).2.st = w.st ∨
    ∃ node level, w.st.nodes.get? m.node = some node ∧ Gen.minBattery ≤ level ∧ level ≤ Gen.maxBattery ∧
      (hBattery m w).2.st = { w.st with nodes := w.st.nodes.set m.node { node with battery := level } } := by
  simp only [hBattery, M.bind, requireNode, M.getSt]
  cases hn : w.st.nodes.get? m.node with
  | none => left; simp [M.raise]
  | some node =>
    simp only [M.pure]
    cases hp : pyRoundFloat m.payload with
    | error c => left; by_cases hc : pyCaught c (clause Gen.excBattery 0) = true <;> simp [convertExn, hc, M.raise]
    | ok level =>
      simp only [convertExn, M.pure]
      split
      · next hl =>
        right
        refine ⟨node, level, rfl, hl.1, hl.2, ?_⟩
        simp [M.pure, M.seq, M.bind, setNode, M.modifySt]
      · left; rfl

/-- The state after a history (`Model/Gateway.lean`). -/
abbrev runOps (st : St) (ops : List Op) : St := stateAfter st ops

theorem stepOp_regOK (st : St) (op : Op) (h : RegOK st.nodes) : RegOK (stepOp st op).1.nodes := by
  cases op with
  | recv env line faults =>
    have := (pres_recv env line).inv { st := st, faults := faults } h
    simp only [stepOp]; split <;> simp_all
  | send obj buffer faults =>
    have := (pres_apiSend obj buffer).inv { st := st, faults := faults } h
    simp only [stepOp]; split <;> simp_all

theorem runOps_regOK (st : St) (ops : List Op) (h : RegOK st.nodes) : RegOK (runOps st ops).nodes := by
  induction ops generalizing st with
  | nil => simpa [runOps, stateAfter, run] using h
  | cons op rest ih => simpa [runOps, stateAfter, run] using ih _ (stepOp_regOK st op h)

/-! ### Every integer the handlers store can be printed

`regIntsOK` (`Model/JsonText.lean`): node type, heartbeat, child id and child type of every record render
within the interpreter's digit limit (`str(int)` / `json.dumps` count the digits of the absolute value;
the sign is not counted, and `intOK` does not count it).  Every such integer a handler stores is a
field `decode` read with `int()` (`MsgOK`, `pyInt?_keyOK`: at most `Gen.pyMaxStrDigits` digits were
read, so the value is below `10 ^ Gen.pyMaxStrDigits`), the heartbeat payload read the same way, the
constants of the placeholder node, or the default 0. -/

/-- The registry's non-key integers are printable. -/
def IntsOK (r : PDict Int Node) : Prop := regIntsOK r = true

theorem intsOK_iff (r : PDict Int Node) : IntsOK r ↔ ∀ kn ∈ r, nodeIntsOK kn.2 = true := by
  simp [IntsOK, regIntsOK, List.all_eq_true]

theorem intsOK_set (r : PDict Int Node) (id : Int) (n : Node) (h : IntsOK r) (hn : nodeIntsOK n = true) :
    IntsOK (r.set id n) := by
  rw [intsOK_iff] at h ⊢
  intro kn hkn
  rcases PDict.mem_set_or r id n kn hkn with rfl | hm
  · exact hn
  · exact h kn hm

theorem ints_requireNode (id : Int) : HRetI IntsOK (requireNode id) fun n => nodeIntsOK n = true := by
  refine ret_bind ret_getSt fun st hst => ?_
  split
  · next n hn => exact ret_pure n ((intsOK_iff _).mp hst (id, n) (PDict.mem_of_get? _ _ _ hn))
  · exact ret_raise _

theorem ints_setNode (id : Int) (n : Node) (h : nodeIntsOK n = true) : HPresI IntsOK (setNode id n) :=
  pres_modifySt _ fun s hs => intsOK_set s.nodes id n hs h

/-- A freshly created node: heartbeat 0, no children. -/
theorem nodeInts_fresh (ntype : Int) (pv : Str) (h : KeyOK ntype) : nodeIntsOK { ntype := ntype, pv := pv } = true := by
  have h0 : intOK 0 = true := by decide
  simp [nodeIntsOK, (intOK_iff _).mpr h, h0]

/-- Attributes other than type, heartbeat and children do not matter. -/
theorem nodeInts_congr (n n' : Node) (h : nodeIntsOK n = true) (ht : n'.ntype = n.ntype) (hb : n'.heartbeat = n.heartbeat)
    (hc : n'.children = n.children) : nodeIntsOK n' = true := by
  simpa only [nodeIntsOK, ht, hb, hc] using h

theorem nodeInts_heartbeat (n n' : Node) (beat : Int) (h : nodeIntsOK n = true) (hk : KeyOK beat) (ht : n'.ntype = n.ntype)
    (hb : n'.heartbeat = beat) (hc : n'.children = n.children) : nodeIntsOK n' = true := by
  simp only [nodeIntsOK, Bool.and_eq_true, ht, hb, hc] at h ⊢
  exact ⟨⟨h.1.1, (intOK_iff _).mpr hk⟩, h.2⟩

theorem nodeInts_child (n : Node) (key : Int) (c : Child) (h : nodeIntsOK n = true)
    (hc : n.children.get? key = some c) : childIntsOK c = true := by
  simp only [nodeIntsOK, Bool.and_eq_true, List.all_eq_true] at h
  exact h.2 (key, c) (PDict.mem_of_get? _ _ _ hc)

/-- Replacing or adding a child with printable id and type. -/
theorem nodeInts_setChild (n : Node) (key : Int) (c : Child) (h : nodeIntsOK n = true) (hc : childIntsOK c = true) :
    nodeIntsOK { n with children := n.children.set key c } = true := by
  simp only [nodeIntsOK, Bool.and_eq_true, List.all_eq_true] at h ⊢
  refine ⟨h.1, fun kc hkc => ?_⟩
  rcases PDict.mem_set_or _ _ _ kc hkc with rfl | hm
  · exact hc
  · exact h.2 kc hm

theorem ints_hIdRequest (m : Msg) : HPresI IntsOK (hIdRequest m) := by
  refine ret_bind ret_getSt fun st _ => ?_
  split
  · exact ret_raise _
  · exact ret_seq (pres_modifySt _ fun s hs => intsOK_set _ _ _ hs (by decide))
      (ret_seq (pres_gwSend _ _) (pres_pure _))

theorem ints_hBattery (m : Msg) : HPresI IntsOK (hBattery m) := by
  refine ret_bind (ints_requireNode _) fun node hnode => ?_
  refine ret_bind (ret_convertExn (Q := fun _ => True) _ _ _ fun _ _ => trivial) fun level _ => ?_
  split
  · exact ret_seq (ints_setNode _ _ (nodeInts_congr node _ hnode rfl rfl rfl)) (pres_pure _)
  · exact ret_raise _

theorem ints_hSketchName (m : Msg) : HPresI IntsOK (hSketchName m) :=
  ret_bind (ints_requireNode _) fun node hn =>
    ret_seq (ints_setNode _ _ (nodeInts_congr node _ hn rfl rfl rfl)) (pres_pure _)

theorem ints_hSketchVersion (m : Msg) : HPresI IntsOK (hSketchVersion m) :=
  ret_bind (ints_requireNode _) fun node hn =>
    ret_seq (ints_setNode _ _ (nodeInts_congr node _ hn rfl rfl rfl)) (pres_pure _)

/-- The heartbeat a handler stores is `int(payload)`: printable. -/
theorem ret_heartbeatValue {I : PDict Int Node → Prop} (classes : List PyExn) (m : Msg) :
    HRetI I (heartbeatValue classes m) KeyOK := by
  refine ret_convertExn _ _ _ fun beat hb => ?_
  cases hp : pyInt? m.payload with
  | none => rw [hp] at hb; cases hb
  | some n => rw [hp] at hb; cases hb; exact pyInt?_keyOK _ _ hp

theorem ints_hHeartbeat20 (m : Msg) : HPresI IntsOK (hHeartbeat20 m) :=
  ret_bind (ints_requireNode _) fun node hn =>
    ret_bind (ret_heartbeatValue _ _) fun beat hb =>
      ret_seq (ints_setNode _ _ (nodeInts_heartbeat node _ beat hn hb rfl rfl rfl)) (pres_flush _)

theorem ints_hHeartbeat22 (m : Msg) : HPresI IntsOK (hHeartbeat22 m) :=
  ret_bind (ints_requireNode _) fun node hn =>
    ret_bind (ret_heartbeatValue _ _) fun beat hb =>
      ret_seq (ints_setNode _ _ (nodeInts_heartbeat node _ beat hn hb rfl rfl rfl)) (pres_pure _)

theorem ints_hPreSleep22 (m : Msg) : HPresI IntsOK (hPreSleep22 m) :=
  ret_bind (ints_requireNode _) fun node hn =>
    ret_seq (ints_setNode _ _ (nodeInts_congr node _ hn rfl rfl rfl)) (pres_flush _)

/-- A stored value changes neither id nor type of the child. -/
theorem ints_hSet (m : Msg) : HPresI IntsOK (hSet m) := by
  refine ret_bind (ints_requireNode _) fun node hn => ?_
  split
  · exact ret_raise _
  · next child hc =>
    refine ret_seq (ints_setNode _ _ (nodeInts_setChild node _ _ hn (nodeInts_child node _ child hn hc))) ?_
    split
    · exact ret_seq (pres_gwSend _ _) (pres_pure _)
    · exact pres_pure _

theorem intsOK_leaves : LeavesKeep IntsOK := by
  intro env b f h m hm
  cases b <;> simp only [runLeaf, Option.some.injEq, reduceCtorEq] at h <;> subst h
  · exact ints_hSet m
  · exact pres_hReq m
  · exact pres_hVersion m
  · exact ints_hIdRequest m
  · exact pres_hConfig env m
  · exact pres_hTime env m
  · exact ints_hBattery m
  · exact ints_hSketchName m
  · exact ints_hSketchVersion m
  · exact pres_hGatewayReady m
  · exact pres_hDiscoverResponse m
  · exact ints_hHeartbeat20 m
  · exact ints_hHeartbeat22 m
  · exact ints_hPreSleep22 m

/-- A presented node stores the message's type; a presented child the message's child id and type —
all three read by `int()` in `decode`. -/
theorem ints_hPresentation (env : Env) (v : Ver) (m : Msg) (hm : MsgOK m) : HPresI IntsOK (hPresentation env v m) := by
  simp only [hPresentation]
  split
  · refine ret_seq (ints_setNode _ _ (nodeInts_fresh _ _ hm.type)) ?_
    split
    · exact presI_runTyped intsOK_leaves env _ m hm
    · exact pres_pure _
  · refine ret_bind (ints_requireNode _) fun node hn => ?_
    refine ret_seq (ints_setNode _ _ (nodeInts_setChild node _ _ hn ?_)) (pres_pure _)
    simp [childIntsOK, (intOK_iff _).mpr hm.child, (intOK_iff _).mpr hm.type]

/-- One iteration of `Gateway.listen` keeps the integers printable. -/
theorem ints_recv (env : Env) (line : Str) : HPresI IntsOK (recv env line) :=
  presI_recv intsOK_leaves ints_hPresentation env line

/-- **Every registry a history reaches has printable integers**, from any starting registry that has. -/
theorem runOps_regIntsOK (st : St) (ops : List Op) (h : regIntsOK st.nodes = true) :
    regIntsOK (runOps st ops).nodes = true :=
  stateAfter_inv (I := IntsOK) ints_recv st ops h

end AioMySensors
