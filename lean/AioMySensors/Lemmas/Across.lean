/-
Across the major lines (1.x → 2.x): what a 2.x protocol adds around the handlers of 1.x is the
missing-node/child decorator and, for presentations, the step that forgets a presentation-request
marker.  This file shows that both additions are the identity on a world that holds no marker and in
which the 1.x handler raises no `MissingNodeError` / `MissingChildError` — so that there the 2.x
dispatch *is* the 1.x dispatch (`dispatch_across`) — and two frame facts needed to carry that
through a history: a 1.x protocol never touches the marker buffer, and a known version stays known.
-/
import AioMySensors.Lemmas.Resp
import AioMySensors.Lemmas.Safe

namespace AioMySensors
open M

/-! ### Pointwise congruence and transparency of the decorators -/

theorem wrapMissingPV_congr {inner inner' : Msg → M Msg} {m : Msg} {w : W} (h : inner m w = inner' m w) :
    wrapMissingPV inner m w = wrapMissingPV inner' m w := by
  simp only [wrapMissingPV, M.tryFinally, h]

theorem wrapMissingNC_congr {inner inner' : Msg → M Msg} {m : Msg} {w : W} (h : inner m w = inner' m w) :
    wrapMissingNC inner m w = wrapMissingNC inner' m w := by
  simp only [wrapMissingNC, M.tryCatch, h]

/-- An outcome that is not a `MissingNodeError` / `MissingChildError`. -/
def NotMissing (r : Except Exn α) : Prop := ∀ e, r = .error e → missingCaught e = false

/-- The missing-node/child decorator changes nothing around a computation that raises no missing error. -/
theorem wrapMissingNC_transparent (inner : Msg → M Msg) (m : Msg) (w : W) (h : NotMissing (inner m w).1) :
    wrapMissingNC inner m w = inner m w := by
  cases hi : inner m w with
  | mk r w' =>
    cases r with
    | ok r => exact wrapMissingNC_ok inner m r w w' hi
    | error e => exact wrapMissingNC_other inner m e w w' hi (h e (by rw [hi]))

theorem transportWrite_error (line : Str) (w : W) (e : Exn) (h : (transportWrite line w).1 = .error e) :
    e = .lib .transportFailed ∨ e = .foreign .CancelledError := by
  simp only [M.transportWrite] at h
  split at h <;> simp at h
  · exact Or.inl h.symm
  · exact Or.inr h.symm

theorem ite_write_notMissing (c : Bool) (r : Except Exn Msg) (w' : W) (line : Str) (h : NotMissing r) :
    NotMissing (if c = true then
        match transportWrite line w' with
        | (.ok (), w'') => (r, w'')
        | (.error e, w'') => (.error e, w'')
      else (r, w')).1 := by
  cases c with
  | false => exact h
  | true =>
    simp only [if_true]
    cases hw : transportWrite line w' with
    | mk r2 w'' =>
      cases r2 with
      | ok u => exact h
      | error e' =>
        intro e he
        simp only [Except.error.injEq] at he
        subst he
        rcases transportWrite_error _ _ e' (by rw [hw]) with h' | h' <;> rw [h'] <;> rfl

/-- The version-query decorator ends with the handler's outcome or with a failed write. -/
theorem wrapMissingPV_notMissing (inner : Msg → M Msg) (m : Msg) (w : W) (h : NotMissing (inner m w).1) :
    NotMissing (wrapMissingPV inner m w).1 := by
  rw [wrapMissingPV_eq]
  cases hi : inner m w with
  | mk r w' =>
    rw [hi] at h
    cases r <;> exact ite_write_notMissing _ _ _ _ h

/-! ### No marker held -/

/-- The buffer holds no presentation-request marker. -/
def NoMarkers (b : PDict Key Msg) : Prop := ∀ n c, b.has (n, c, Gen.iPresentation) = false

theorem noMarkers_nil : NoMarkers [] := fun _ _ => rfl

/-- Forgetting the marker is the identity when there is none. -/
theorem prePresentation20_noop (m : Msg) (w : W) (h : NoMarkers w.st.ibuf) : prePresentation20 m w = (.ok (), w) := by
  simp [prePresentation20, M.modifySt, h m.node m.child]

/-! ### Generated facts used across the lines -/

/-- The chain of a type with the missing-node/child decorator put around it. -/
def addNC (c : Chain) : Chain := ⟨.wrap .missingNC :: c.layers, c.base⟩

/-- Every internal type of 1.x except gateway-ready exists in 2.x with the same chain, or with
the same chain inside the missing-node/child decorator. -/
theorem internal_chains_across : ∀ v w : Ver, (v = .v14 ∨ v = .v15) → Ver.v20 ≤ w →
    ∀ e ∈ Gen.internalTypes v, e.1 ≠ Gen.iGatewayReady →
      ((Gen.internalTypes w).lookup e.1).isSome = true ∧
      (((Gen.internalChains w).lookup e.1).join = ((Gen.internalChains v).lookup e.1).join ∨
       ((Gen.internalChains w).lookup e.1).join = (((Gen.internalChains v).lookup e.1).join).map addNC) := by decide

theorem stream_tables_const : ∀ v w : Ver,
    Gen.streamTypes v = Gen.streamTypes w ∧ Gen.streamChains v = Gen.streamChains w ∧
    Gen.versionHandlerChain v = Gen.versionHandlerChain w := by decide

theorem hPresentation_const (env : Env) (v w : Ver) : hPresentation env v = hPresentation env w := by
  funext m; simp only [hPresentation, (stream_tables_const v w).2.2]

theorem hStream_const (env : Env) (v w : Ver) : hStream env v = hStream env w := by
  funext m; simp only [hStream, (stream_tables_const v w).1, (stream_tables_const v w).2.1]

/-! ### The 1.x handler inside the version-query decorator -/

/-- The innermost body of the command-level handler of protocol `v` (generated chain), i.e. for 1.x
everything that runs inside `handle_missing_protocol_version`. -/
def handlerBody (env : Env) (v : Ver) (m : Msg) : M Msg :=
  match (Gen.commandChains v).lookup m.cmd with
  | none => raise (.foreign .ValueError)
  | some ch => runBase env v ch.base m

/-- The handler of protocol `v` raises `MissingNodeError` / `MissingChildError` on `m` in world `w`
(an unknown node or child is referenced) — whether or not the failing write of a version query
then replaces that error. -/
def RaisesMissing (env : Env) (v : Ver) (m : Msg) (w : W) : Prop := ¬ NotMissing (handlerBody env v m w).1

/-- In 1.x every command handler is its body inside the version-query decorator, nothing else. -/
theorem dispatch_old (env : Env) (v : Ver) (hv : v = .v14 ∨ v = .v15) (m : Msg)
    (hcmd : m.cmd ∈ [(0 : Int), 1, 2, 3, 4]) :
    dispatch env v m = wrapMissingPV (handlerBody env v) m := by
  simp only [List.mem_cons, List.mem_nil_iff, or_false] at hcmd
  unfold dispatch wrapMissingPV handlerBody
  rcases hcmd with h | h | h | h | h <;> rw [h] <;> rcases hv with rfl | rfl <;> rfl

theorem handlerBody_cases (env : Env) (v : Ver) (m : Msg) :
    (m.cmd = 0 → handlerBody env v m = hPresentation env v m) ∧ (m.cmd = 1 → handlerBody env v m = hSet m) ∧
    (m.cmd = 2 → handlerBody env v m = hReq m) ∧ (m.cmd = 3 → handlerBody env v m = hInternal env v m) ∧
    (m.cmd = 4 → handlerBody env v m = hStream env v m) := by
  unfold handlerBody
  refine ⟨fun h => ?_, fun h => ?_, fun h => ?_, fun h => ?_, fun h => ?_⟩ <;> rw [h] <;> cases v <;> rfl

/-- The handler body does not depend on the reported string or the active protocol object. -/
theorem resp_handlerBody {v' w' : Ver} (env : Env) (v : Ver) (m : Msg) : Resp v' w' (handlerBody env v m) := by
  unfold handlerBody
  split
  · exact Resp2.raise _
  · exact resp_runBase env v _ m

/-- A type-level handler inside the decorator. -/
theorem runTyped_addNC (env : Env) (c : Chain) (m : Msg) (w : W) :
    runTyped env (some (addNC c)) m w = wrapMissingNC (runTyped env (some c)) m w := by
  simp only [runTyped, runInner, addNC]
  cases hf : runLeaf env c.base with
  | none => simp [wrapMissingNC, M.tryCatch, M.raise, missingCaught]
  | some f => rfl

/-- **The 2.x dispatch is the 1.x dispatch** on a world that holds no marker and in which the 1.x
handler raises no missing error, for every message whose type exists in 1.x except gateway-ready. -/
theorem dispatch_across (env : Env) (v w : Ver) (hv : v = .v14 ∨ v = .v15) (hw : Ver.v20 ≤ w) (m : Msg)
    (hcmd : m.cmd ∈ [(0 : Int), 1, 2, 3, 4])
    (hint : m.cmd = 3 → ((Gen.internalTypes v).lookup m.type).isSome = true ∧ m.type ≠ Gen.iGatewayReady)
    (w2 : W) (hnm : NoMarkers w2.st.ibuf) (hmiss : ¬ RaisesMissing env v m w2) :
    dispatch env w m w2 = dispatch env v m w2 := by
  have hnot : NotMissing (handlerBody env v m w2).1 := Classical.not_not.mp hmiss
  obtain ⟨hb0, hb1, hb2, hb3, hb4⟩ := handlerBody_cases env v m
  rw [dispatch_old env v hv m hcmd]
  have hpv : NotMissing (wrapMissingPV (handlerBody env v) m w2).1 := wrapMissingPV_notMissing _ _ _ hnot
  simp only [List.mem_cons, List.mem_nil_iff, or_false] at hcmd
  rcases hcmd with h | h | h | h | h
  · -- presentation: forgetting the marker is the identity, then the decorator is transparent
    rw [dispatch_presentation env w m h, if_pos hw]
    have hin : seq (prePresentation20 m) (wrapMissingPV (hPresentation env w) m) w2 =
        wrapMissingPV (handlerBody env v) m w2 := by
      simp only [M.seq, M.bind, prePresentation20_noop m w2 hnm]
      exact wrapMissingPV_congr (by rw [hb0 h, hPresentation_const env w v])
    rw [wrapMissingNC_transparent _ m w2 (by rw [hin]; exact hpv), hin]
  · rw [dispatch_set env w m h, wrapNC_new w _ hw]
    have hin : wrapMissingPV hSet m w2 = wrapMissingPV (handlerBody env v) m w2 := wrapMissingPV_congr (by rw [hb1 h])
    rw [wrapMissingNC_transparent _ m w2 (by rw [hin]; exact hpv), hin]
  · rw [dispatch_req env w m h, wrapNC_new w _ hw]
    have hin : wrapMissingPV hReq m w2 = wrapMissingPV (handlerBody env v) m w2 := wrapMissingPV_congr (by rw [hb2 h])
    rw [wrapMissingNC_transparent _ m w2 (by rw [hin]; exact hpv), hin]
  · -- internal: the same chain, or the same chain inside the decorator
    rw [dispatch_internal env w m h]
    refine wrapMissingPV_congr ?_
    rw [hb3 h] at hnot ⊢
    obtain ⟨hsome, hgr⟩ := hint h
    obtain ⟨e, he, het⟩ : ∃ e ∈ Gen.internalTypes v, e.1 = m.type := by
      cases hl : (Gen.internalTypes v).lookup m.type with
      | none => simp [hl] at hsome
      | some n => exact ⟨(m.type, n), lookup_mem hl, rfl⟩
    obtain ⟨hsw, hch⟩ := internal_chains_across v w hv hw e he (by rw [het]; exact hgr)
    rw [het] at hsw hch
    simp only [hInternal] at hnot ⊢
    cases hlv : (Gen.internalTypes v).lookup m.type with
    | none => simp [hlv] at hsome
    | some nv =>
      cases hlw : (Gen.internalTypes w).lookup m.type with
      | none => simp [hlw] at hsw
      | some nw =>
        rw [hlv] at hnot
        simp only [] at hnot ⊢
        rcases hch with hch | hch
        · rw [hch]
        · rw [hch]
          cases hcv : ((Gen.internalChains v).lookup m.type).join with
          | none => rfl
          | some c =>
            rw [hcv] at hnot
            simp only [Option.map_some]
            rw [runTyped_addNC, wrapMissingNC_transparent _ m w2 hnot]
  · rw [dispatch_stream env w m h, wrapNC_new w _ hw]
    have hin : wrapMissingPV (hStream env w) m w2 = wrapMissingPV (handlerBody env v) m w2 :=
      wrapMissingPV_congr (by rw [hb4 h, hStream_const env w v])
    rw [wrapMissingNC_transparent _ m w2 (by rw [hin]; exact hpv), hin]

/-! ### A 1.x protocol never touches the marker buffer -/

/-- The relation "the marker buffer is what it was". -/
def KeepsIbuf : W → W → Prop := OnSt fun s s' => s'.ibuf = s.ibuf

theorem keepsIbuf_preO : PreO KeepsIbuf := OnSt.preO (fun _ => rfl) (fun h1 h2 => h2.trans h1)

theorem ki_write (line : Str) : Rel KeepsIbuf (transportWrite line) :=
  Rel.transportWrite (S := fun s s' => s'.ibuf = s.ibuf) (fun _ => rfl) _

theorem ki_mod (f : St → St) (hf : ∀ s, (f s).ibuf = s.ibuf) : Rel KeepsIbuf (modifySt f) :=
  Rel.modifySt (S := fun s s' => s'.ibuf = s.ibuf) f hf

theorem ki_gwSend (sm : Msg) (b : Bool) : Rel KeepsIbuf (gwSend sm b) := by
  unfold gwSend
  refine Rel.bind keepsIbuf_preO (Rel.getSt keepsIbuf_preO) fun st => ?_
  split
  · exact Rel.raise keepsIbuf_preO _
  · exact Rel.raise keepsIbuf_preO _
  · exact ki_write _
  · split
    · split
      · exact ki_mod _ fun _ => rfl
      · exact ki_write _
    · exact ki_write _

theorem ki_apiSend (obj : Option Msg) (b : Bool) : Rel KeepsIbuf (apiSend obj b) := by
  unfold apiSend
  cases obj with
  | none => exact Rel.raise keepsIbuf_preO _
  | some sm => exact ki_gwSend sm b

theorem ki_requireNode (id : Int) : Rel KeepsIbuf (requireNode id) := by
  unfold requireNode
  refine Rel.bind keepsIbuf_preO (Rel.getSt keepsIbuf_preO) fun st => ?_
  split
  · exact Rel.pure keepsIbuf_preO _
  · exact Rel.raise keepsIbuf_preO _

theorem ki_setNode (id : Int) (n : Node) : Rel KeepsIbuf (setNode id n) := ki_mod _ fun _ => rfl
theorem ki_allocNode : Rel KeepsIbuf allocNode := ki_mod _ fun _ => rfl

theorem ki_flushList (l : List (Key × Msg)) : Rel KeepsIbuf (flushList l) := by
  induction l with
  | nil => exact Rel.pure keepsIbuf_preO _
  | cons x xs ih =>
    obtain ⟨k, bm⟩ := x
    unfold flushList
    refine Rel.seq keepsIbuf_preO (ki_gwSend _ _) (Rel.seq keepsIbuf_preO ?_ ih)
    exact ki_mod _ fun s => by split <;> rfl

theorem ki_flush (m : Msg) : Rel KeepsIbuf (flush m) := by
  unfold flush
  refine Rel.bind keepsIbuf_preO (Rel.getSt keepsIbuf_preO) fun st => ?_
  exact Rel.seq keepsIbuf_preO (ki_flushList _) (Rel.pure keepsIbuf_preO _)

/-- Proof search for `Rel KeepsIbuf`. -/
macro "ki_auto" : tactic => `(tactic| repeat' (first
  | exact Rel.pure keepsIbuf_preO _ | exact Rel.raise keepsIbuf_preO _ | exact Rel.getSt keepsIbuf_preO
  | exact ki_write _ | exact ki_setNode _ _ | exact ki_allocNode | exact ki_requireNode _ | exact ki_gwSend _ _
  | exact Rel.convertExn keepsIbuf_preO _ _ _ | exact ki_flush _
  | exact ki_mod _ fun _ => rfl
  | refine Rel.seq keepsIbuf_preO ?_ ?_ | refine Rel.bind keepsIbuf_preO ?_ (fun _ => ?_)
  | split | dsimp only))

theorem ki_runLeaf (env : Env) (b : Body) (f : Msg → M Msg) (hf : runLeaf env b = some f) (m : Msg) :
    Rel KeepsIbuf (f m) := by
  cases b <;> simp only [runLeaf, Option.some.injEq] at hf <;> try (exact absurd hf (by simp))
  all_goals subst hf
  · unfold hSet; ki_auto
  · unfold hReq; ki_auto
  · unfold hVersion; ki_auto
  · unfold hIdRequest; ki_auto
  · unfold hConfig; ki_auto
  · unfold hTime; ki_auto
  · unfold hBattery; ki_auto
  · unfold hSketchName; ki_auto
  · unfold hSketchVersion; ki_auto
  · unfold hGatewayReady; ki_auto
  · unfold hDiscoverResponse; ki_auto
  · unfold hHeartbeat20 heartbeatValue; ki_auto
  · unfold hHeartbeat22 heartbeatValue; ki_auto
  · unfold hPreSleep22; ki_auto

theorem ki_wrapMissingPV {inner : Msg → M Msg} (m : Msg) (hi : Rel KeepsIbuf (inner m)) :
    Rel KeepsIbuf (wrapMissingPV inner m) := by
  unfold wrapMissingPV
  refine Rel.tryFinally keepsIbuf_preO hi fun r => ?_
  ki_auto

/-- Layers that are the version-query decorator only (all a 1.x chain has). -/
def plainLayers : List Layer → Bool
  | [] => true
  | .wrap .missingPV :: ls => plainLayers ls
  | _ => false

def optPlain : Option Chain → Bool
  | some ch => plainLayers ch.layers
  | none => true

/-- No 1.x chain contains the missing-node/child decorator or the marker-forgetting step (generated). -/
theorem old_chains_plain : ∀ v : Ver, (v = .v14 ∨ v = .v15) →
    (Gen.commandChains v).all (fun e => plainLayers e.2.layers) = true ∧
    (Gen.internalChains v).all (fun e => optPlain e.2) = true ∧
    (Gen.streamChains v).all (fun e => optPlain e.2) = true ∧
    optPlain (Gen.versionHandlerChain v) = true := by decide

theorem optPlain_lookup {l : List (Int × Option Chain)} (hl : l.all (fun e => optPlain e.2) = true) (t : Int) :
    optPlain ((l.lookup t).join) = true := by
  cases h : l.lookup t with
  | none => rfl
  | some och =>
    have := List.all_eq_true.mp hl (t, och) (lookup_mem h)
    simpa using this

theorem ki_applyLayers (ls : List Layer) (hls : plainLayers ls = true) (base : Msg → M Msg) (m : Msg)
    (hb : Rel KeepsIbuf (base m)) : Rel KeepsIbuf (applyLayers ls base m) := by
  induction ls with
  | nil => simpa [applyLayers] using hb
  | cons l ls ih =>
    cases l with
    | wrap wr =>
      cases wr with
      | missingPV => simpa [applyLayers] using ki_wrapMissingPV m (ih (by simpa [plainLayers] using hls))
      | missingNC => simp [plainLayers] at hls
    | pre b => simp [plainLayers] at hls

theorem ki_runTyped (env : Env) (och : Option Chain) (hok : optPlain och = true) (m : Msg) :
    Rel KeepsIbuf (runTyped env och m) := by
  cases och with
  | none => exact Rel.pure keepsIbuf_preO _
  | some ch =>
    simp only [runTyped, runInner]
    cases hf : runLeaf env ch.base with
    | none => exact Rel.raise keepsIbuf_preO _
    | some f => exact ki_applyLayers _ hok f m (ki_runLeaf env _ f hf m)

theorem ki_runBase (env : Env) (v : Ver) (hv : v = .v14 ∨ v = .v15) (b : Body) (m : Msg) :
    Rel KeepsIbuf (runBase env v b m) := by
  obtain ⟨_, hic, hsc, hvc⟩ := old_chains_plain v hv
  cases b
  case presentation14 =>
    simp only [runBase, hPresentation]
    split
    · refine Rel.seq keepsIbuf_preO (ki_setNode _ _) ?_
      split
      · exact ki_runTyped env _ hvc m
      · exact Rel.pure keepsIbuf_preO _
    · ki_auto
  case internal14 =>
    simp only [runBase, hInternal]
    split
    · exact Rel.raise keepsIbuf_preO _
    · exact ki_runTyped env _ (optPlain_lookup hic _) m
  case stream14 =>
    simp only [runBase, hStream]
    refine Rel.bind keepsIbuf_preO (ki_requireNode _) fun _ => ?_
    split
    · exact Rel.raise keepsIbuf_preO _
    · exact ki_runTyped env _ (optPlain_lookup hsc _) m
  case presentation20 => exact Rel.raise keepsIbuf_preO _
  case set14 => exact ki_runLeaf env .set14 _ rfl m
  case req14 => exact ki_runLeaf env .req14 _ rfl m
  case iVersion14 => exact ki_runLeaf env .iVersion14 _ rfl m
  case iIdRequest14 => exact ki_runLeaf env .iIdRequest14 _ rfl m
  case iConfig14 => exact ki_runLeaf env .iConfig14 _ rfl m
  case iTime14 => exact ki_runLeaf env .iTime14 _ rfl m
  case iBatteryLevel14 => exact ki_runLeaf env .iBatteryLevel14 _ rfl m
  case iSketchName14 => exact ki_runLeaf env .iSketchName14 _ rfl m
  case iSketchVersion14 => exact ki_runLeaf env .iSketchVersion14 _ rfl m
  case iGatewayReady20 => exact ki_runLeaf env .iGatewayReady20 _ rfl m
  case iDiscoverResponse20 => exact ki_runLeaf env .iDiscoverResponse20 _ rfl m
  case iHeartbeatResponse20 => exact ki_runLeaf env .iHeartbeatResponse20 _ rfl m
  case iHeartbeatResponse22 => exact ki_runLeaf env .iHeartbeatResponse22 _ rfl m
  case iPreSleepNotification22 => exact ki_runLeaf env .iPreSleepNotification22 _ rfl m

/-- **In 1.x no marker is ever written or removed**: handling any message leaves the marker buffer as it was. -/
theorem dispatch_old_keeps_ibuf (env : Env) (v : Ver) (hv : v = .v14 ∨ v = .v15) (m : Msg) :
    Rel KeepsIbuf (dispatch env v m) := by
  unfold dispatch
  split
  · exact Rel.raise keepsIbuf_preO _
  · next ch hl =>
    have := List.all_eq_true.mp (old_chains_plain v hv).1 (m.cmd, ch) (lookup_mem hl)
    exact ki_applyLayers _ this _ m (ki_runBase env v hv _ m)

/-! ### A known version stays known -/

/-- The relation "a known version is not forgotten". -/
def KeepsKnown : W → W → Prop := OnSt fun s s' => s.pv.isSome = true → s'.pv.isSome = true

theorem keepsKnown_preO : PreO KeepsKnown := OnSt.preO (fun _ h => h) (fun h1 h2 h => h2 (h1 h))

theorem kk_same {f : St → St} (hpv : ∀ s, (f s).pv = s.pv) : Rel KeepsKnown (modifySt f) :=
  Rel.modifySt f fun s h => by rw [hpv s]; exact h

theorem keepsKnown_stepRel (m : Msg) : StepRel KeepsKnown m where
  pre := keepsKnown_preO
  write := fun _ _ => Rel.transportWrite (fun _ h => h) _
  setNode := fun _ => kk_same fun _ => rfl
  alloc := kk_same fun _ => rfl
  erase := fun _ _ _ => kk_same fun s => by split <;> rfl
  mark := kk_same fun _ => rfl
  unmark := kk_same fun s => by split <;> rfl
  version := fun v _ => Rel.modifySt _ fun _ _ => rfl

theorem keepsKnown_park (m : Msg) : Rel KeepsKnown (parkMod m) := kk_same fun _ => rfl

theorem handlerBody_keeps_known (env : Env) (v : Ver) (m : Msg) : Rel KeepsKnown (handlerBody env v m) := by
  unfold handlerBody
  split
  · exact Rel.raise keepsKnown_preO _
  · exact rel_runBase (keepsKnown_stepRel m) (ParkOK.of_all keepsKnown_park) env v _

theorem recv_keeps_known (env : Env) (line : Str) : Rel KeepsKnown (recv env line) :=
  rel_recv keepsKnown_preO (fun _ m _ => keepsKnown_stepRel m) (ParkOK.of_all keepsKnown_park) env

theorem apiSend_keeps_known (obj : Option Msg) (b : Bool) : Rel KeepsKnown (apiSend obj b) :=
  rel_apiSend keepsKnown_preO (fun _ => Rel.transportWrite (fun _ h => h) _) (fun sm _ => keepsKnown_park sm) obj b

/-! ### Projections of one history step -/

theorem stepOp_recv_st (s : St) (env : Env) (line : Str) (faults : List Fault) :
    (stepOp s (.recv env line faults)).1 = (recv env line { st := s, faults := faults }).2.st := by
  simp only [stepOp]; split <;> simp_all

theorem stepOp_recv_writes (s : St) (env : Env) (line : Str) (faults : List Fault) :
    (stepOp s (.recv env line faults)).2.writes = (recv env line { st := s, faults := faults }).2.writes := by
  simp only [stepOp]; split <;> simp_all

theorem stepOp_recv_out (s : St) (env : Env) (line : Str) (faults : List Fault) :
    (stepOp s (.recv env line faults)).2.out =
      match (recv env line { st := s, faults := faults }).1 with
      | .ok m => .ok (some m)
      | .error e => .error e := by
  simp only [stepOp]; split <;> simp_all

theorem stepOp_send_st (s : St) (obj : Option Msg) (b : Bool) (faults : List Fault) :
    (stepOp s (.send obj b faults)).1 = (apiSend obj b { st := s, faults := faults }).2.st := by
  simp only [stepOp]; split <;> simp_all

theorem stepOp_send_writes (s : St) (obj : Option Msg) (b : Bool) (faults : List Fault) :
    (stepOp s (.send obj b faults)).2.writes = (apiSend obj b { st := s, faults := faults }).2.writes := by
  simp only [stepOp]; split <;> simp_all

theorem stepOp_send_out (s : St) (obj : Option Msg) (b : Bool) (faults : List Fault) :
    (stepOp s (.send obj b faults)).2.out =
      match (apiSend obj b { st := s, faults := faults }).1 with
      | .ok _ => .ok none
      | .error e => .error e := by
  simp only [stepOp]; split <;> simp_all

end AioMySensors
