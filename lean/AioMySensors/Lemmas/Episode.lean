/-
A traversal of the receive path that knows WHERE the two marker operations sit.

`Lemmas/Rel.lean` treats "write the presentation request" and "record the marker" as two
independent primitive steps, which is enough for frame properties but cannot say that the request
is written only while no marker exists.  Here the decorator `handle_missing_node_child` and the
marker removal of `protocol_20.handle_presentation` are hypotheses of the traversal (`LayerOK`),
switched on only for chains that contain them (`LayersIn`, read off the generated tables), and
every other write is shown not to be a presentation-request line (`encode` is injective).

Relations have the form `Tr P`: assuming the sleep buffer holds set commands only (the reachable
state invariant `SbufSet`, needed because a wake releases whatever is parked), the computation
appends `l` to the write log and takes the state from `s` to `s'` with `P s l s'`.
Instances: `EpiP n` (the write log and the marker of node `n` move together like the two-state
automaton `track`), `QuietP` (no request line at all, all markers as they were).
-/
import AioMySensors.Lemmas.Flushing
import AioMySensors.Lemmas.Codec
import AioMySensors.Lemmas.Safe

namespace AioMySensors.Episode
open AioMySensors M

/-! ### The wire form determines the message -/

theorem toDigits_ten_inj {a b : Nat} (h : Nat.toDigits 10 a = Nat.toDigits 10 b) : a = b := by
  have := congrArg (fun s => Nat.ofDigitChars 10 s 0) h
  simpa [Nat.ofDigitChars_ten_toDigits] using this

theorem dec_inj {a b : Int} (h : dec a = dec b) : a = b := by
  have hd : ∀ k : Nat, '-' ∉ Nat.toDigits 10 k := fun k hm => by
    have := toDigits_isDigit k _ hm
    revert this; decide
  cases a with
  | ofNat x =>
    cases b with
    | ofNat y => simp only [dec] at h; rw [toDigits_ten_inj h]
    | negSucc y =>
      simp only [dec] at h
      exact absurd (h ▸ (List.mem_cons_self : '-' ∈ '-' :: Nat.toDigits 10 (y + 1))) (hd x)
  | negSucc x =>
    cases b with
    | ofNat y =>
      simp only [dec] at h
      exact absurd (h ▸ (List.mem_cons_self : '-' ∈ '-' :: Nat.toDigits 10 (x + 1))) (hd y)
    | negSucc y =>
      simp only [dec, List.cons.injEq, true_and] at h
      have := toDigits_ten_inj h
      have : x = y := by omega
      rw [this]

theorem dec_ne_nil (a : Int) : dec a ≠ [] := by
  cases a with
  | ofNat x => simp [dec]
  | negSucc x => simp [dec]

theorem append_delim_inj {d : Char} {x y r r' : Str} (hx : d ∉ x) (hy : d ∉ y)
    (h : x ++ d :: r = y ++ d :: r') : x = y ∧ r = r' := by
  induction x generalizing y with
  | nil =>
    cases y with
    | nil => simpa using h
    | cons c cs =>
      simp only [List.nil_append, List.cons_append, List.cons.injEq] at h
      exact absurd (h.1 ▸ List.mem_cons_self) hy
  | cons a as ih =>
    cases y with
    | nil =>
      simp only [List.nil_append, List.cons_append, List.cons.injEq] at h
      exact absurd (h.1 ▸ List.mem_cons_self) hx
    | cons c cs =>
      simp only [List.cons_append, List.cons.injEq] at h
      have := ih (y := cs) (fun hm => hx (List.mem_cons_of_mem _ hm)) (fun hm => hy (List.mem_cons_of_mem _ hm)) h.2
      exact ⟨by rw [h.1, this.1], this.2⟩

/-- `MessageSchema.dump` is injective: two messages with the same line are the same message. -/
theorem encode_inj {a b : Msg} (h : encode a = encode b) : a = b := by
  simp only [encode] at h
  obtain ⟨h1, h⟩ := append_delim_inj (delimiter_not_mem_dec _) (delimiter_not_mem_dec _) h
  obtain ⟨h2, h⟩ := append_delim_inj (delimiter_not_mem_dec _) (delimiter_not_mem_dec _) h
  obtain ⟨h3, h⟩ := append_delim_inj (delimiter_not_mem_dec _) (delimiter_not_mem_dec _) h
  obtain ⟨h4, h⟩ := append_delim_inj (delimiter_not_mem_dec _) (delimiter_not_mem_dec _) h
  obtain ⟨h5, h⟩ := append_delim_inj (delimiter_not_mem_dec _) (delimiter_not_mem_dec _) h
  have h6 := List.append_cancel_right h
  cases a; cases b
  simp only [Msg.mk.injEq]
  exact ⟨dec_inj h1, dec_inj h2, dec_inj h3, dec_inj h4, dec_inj h5, h6⟩

/-! ### Presentation-request lines -/

/-- The line of the presentation request addressed to node `n` (`n;255;3;0;19;`). -/
def reqLine (n : Int) : Str := encode (presentationRequest n)

theorem reqLine_inj {a b : Int} (h : reqLine a = reqLine b) : a = b :=
  congrArg Msg.node (encode_inj h)

/-- A message that is not an internal message of type `I_PRESENTATION` with an empty payload is
not written as a presentation-request line, whoever it is addressed to. -/
theorem not_req_of (sm : Msg) (h : sm.cmd ≠ Gen.cmdInternal ∨ sm.type ≠ Gen.iPresentation ∨ sm.payload ≠ [])
    (n : Int) : encode sm ≠ reqLine n := by
  intro he
  have := encode_inj he
  subst this
  simp [presentationRequest] at h

/-- Does this write attempt carry the presentation request for node `n`? -/
def isReq (n : Int) (e : WriteEvt) : Bool := e.line == reqLine n

/-- Is a presentation request to `n` recorded as outstanding? -/
def markedB (st : St) (n : Int) : Bool := st.ibuf.has (presentationRequest n).key

/-- **The episode automaton of node `n`.** State: is a request outstanding?  A write attempt of
the request line for `n` is illegal while one is outstanding (`none`); otherwise it makes the
request outstanding iff the write succeeded.  Other lines do not matter. -/
def track (n : Int) : Bool → List WriteEvt → Option Bool
  | b, [] => some b
  | b, e :: l => if isReq n e then (if b then none else track n e.ok l) else track n b l

theorem track_append (n : Int) (b : Bool) (l1 l2 : List WriteEvt) :
    track n b (l1 ++ l2) = (track n b l1).bind fun b1 => track n b1 l2 := by
  induction l1 generalizing b with
  | nil => simp [track]
  | cons e l ih =>
    simp only [List.cons_append, track]
    split
    · split
      · simp
      · exact ih _
    · exact ih _

/-! ### Relations of the form "log grows by `l`, state moves with `P`" -/

def Tr (P : St → List WriteEvt → St → Prop) : W → W → Prop :=
  fun w w' => SbufSet w.st → SbufSet w'.st ∧ ∃ l, w'.writes = w.writes ++ l ∧ P w.st l w'.st

/-- What the traversal needs from `P`. -/
structure TrOK (P : St → List WriteEvt → St → Prop) : Prop where
  trans : ∀ {a b c l1 l2}, P a l1 b → P b l2 c → P a (l1 ++ l2) c
  /-- a state change that leaves the marker table alone, writing nothing -/
  frame : ∀ s s', s'.ibuf = s.ibuf → P s [] s'
  /-- a write attempt of a line that is no presentation request -/
  line : ∀ s line ok, (∀ n, line ≠ reqLine n) → P s [⟨line, ok⟩] s

variable {P : St → List WriteEvt → St → Prop}

theorem tr_preO (hP : TrOK P) : PreO (Tr P) where
  refl := fun w hs => ⟨hs, [], by simp, hP.frame _ _ rfl⟩
  trans := by
    intro a b c h1 h2 hs
    obtain ⟨hb, l1, e1, p1⟩ := h1 hs
    obtain ⟨hc, l2, e2, p2⟩ := h2 hb
    exact ⟨hc, l1 ++ l2, by rw [e2, e1, List.append_assoc], hP.trans p1 p2⟩

theorem tr_write (hP : TrOK P) (line : Str) (h : ∀ n, line ≠ reqLine n) : Rel (Tr P) (transportWrite line) :=
  ⟨fun w hs => by
    simp only [transportWrite]
    split
    · exact ⟨hs, [⟨line, false⟩], rfl, hP.line _ _ _ h⟩
    · exact ⟨hs, [⟨line, false⟩], rfl, hP.line _ _ _ h⟩
    · exact ⟨hs, [⟨line, true⟩], rfl, hP.line _ _ _ h⟩
    · exact ⟨hs, [⟨line, true⟩], rfl, hP.line _ _ _ h⟩⟩

/-- A state change that keeps the marker table and adds nothing to the sleep buffer. -/
theorem tr_mod (hP : TrOK P) (f : St → St) (hi : ∀ s, (f s).ibuf = s.ibuf) (hs : ∀ s, ∀ e ∈ (f s).sbuf, e ∈ s.sbuf) :
    Rel (Tr P) (modifySt f) :=
  ⟨fun w hw => ⟨fun e he => hw e (hs _ e he), [], by simp [M.modifySt], hP.frame _ _ (hi _)⟩⟩

theorem tr_setNode (hP : TrOK P) (id : Int) (nd : Node) : Rel (Tr P) (setNode id nd) :=
  tr_mod hP _ (fun _ => rfl) (fun _ _ h => h)

theorem tr_allocNode (hP : TrOK P) : Rel (Tr P) allocNode := tr_mod hP _ (fun _ => rfl) (fun _ _ h => h)

theorem tr_requireNode (hP : TrOK P) (id : Int) : Rel (Tr P) (requireNode id) := by
  unfold requireNode
  refine Rel.bind (tr_preO hP) (Rel.getSt (tr_preO hP)) fun st => ?_
  split
  · exact Rel.pure (tr_preO hP) _
  · exact Rel.raise (tr_preO hP) _

/-- A reaction sent with `message_buffer=False` is written or refused, never parked. -/
theorem tr_gwSend (hP : TrOK P) (sm : Msg) (b : Bool) (hb : b = false) (h : ∀ n, encode sm ≠ reqLine n) :
    Rel (Tr P) (gwSend sm b) := by
  subst hb
  unfold gwSend
  refine Rel.bind (tr_preO hP) (Rel.getSt (tr_preO hP)) fun st => ?_
  split
  · exact Rel.raise (tr_preO hP) _
  · exact Rel.raise (tr_preO hP) _
  · exact tr_write hP _ h
  · split
    · simp only [Bool.false_and, Bool.false_eq_true, if_false]
      exact tr_write hP _ h
    · exact tr_write hP _ h

/-- Closes `∀ n, encode sm ≠ reqLine n` for a reaction whose command, type or payload rules it out. -/
macro "notreq" : tactic => `(tactic| (
  refine not_req_of _ ?_
  first
  | exact Or.inl (by decide)
  | exact Or.inr (Or.inl (by decide))
  | simp [Gen.cmdInternal, Gen.cmdSet, Gen.iPresentation, Gen.iVersion, Gen.iReboot, Gen.iIdResponse, Gen.iDiscover,
      versionQuery, dec_ne_nil]))

/-- Syntax-directed search for `Rel (Tr P)` over a handler body. -/
macro "tr_auto" hP:ident : tactic => `(tactic| repeat' (first
  | exact Rel.pure (tr_preO $hP) _ | exact Rel.raise (tr_preO $hP) _ | exact Rel.getSt (tr_preO $hP)
  | exact tr_setNode $hP _ _ | exact tr_allocNode $hP | exact tr_requireNode $hP _
  | exact Rel.convertExn (tr_preO $hP) _ _ _
  | exact tr_gwSend $hP _ _ (by rfl) (by notreq)
  | refine Rel.seq (tr_preO $hP) ?_ ?_ | refine Rel.bind (tr_preO $hP) ?_ (fun _ => ?_)
  | split
  | dsimp only))

theorem tr_wrapMissingPV (hP : TrOK P) {inner : Msg → M Msg} {m : Msg} (hi : Rel (Tr P) (inner m)) :
    Rel (Tr P) (wrapMissingPV inner m) := by
  unfold wrapMissingPV
  refine Rel.tryFinally (tr_preO hP) hi fun r => ?_
  cases r <;> tr_auto hP

theorem tr_flushList (hP : TrOK P) (l : List (Key × Msg)) (hl : ∀ e ∈ l, e.2.cmd = 1) : Rel (Tr P) (flushList l) := by
  induction l with
  | nil => exact Rel.pure (tr_preO hP) _
  | cons x xs ih =>
    obtain ⟨k, bm⟩ := x
    unfold flushList
    have hbm : bm.cmd = 1 := hl (k, bm) (by simp)
    refine Rel.seq (tr_preO hP) (tr_gwSend hP _ _ (by rfl) (not_req_of _ (Or.inl ?_))) ?_
    · rw [hbm]; decide
    · refine Rel.seq (tr_preO hP) (tr_mod hP _ (fun s => by split <;> rfl) fun s e he => ?_)
        (ih fun e he => hl e (by simp [he]))
      split at he
      · exact PDict.mem_erase he
      · exact he

/-- The wake release: this is where the invariant on the sleep buffer is used. -/
theorem tr_flush (hP : TrOK P) (m : Msg) : Rel (Tr P) (flush m) := by
  unfold flush
  refine Rel.bind_getSt (tr_preO hP) fun w hs => ?_
  exact (Rel.seq (tr_preO hP) (tr_flushList hP _ fun e he => (hs e (List.mem_filter.mp he).1).1)
    (Rel.pure (tr_preO hP) m)).step w hs

theorem tr_hVersion (hP : TrOK P) (m : Msg) : Rel (Tr P) (hVersion m) := by
  unfold hVersion
  refine Rel.bind (tr_preO hP) (Rel.convertExn (tr_preO hP) _ _ _) fun v => ?_
  exact Rel.seq (tr_preO hP) (tr_mod hP _ (fun _ => rfl) (fun _ _ h => h)) (Rel.pure (tr_preO hP) _)

theorem tr_runLeaf (hP : TrOK P) (env : Env) (b : Body) (f : Msg → M Msg) (hf : runLeaf env b = some f) (m : Msg) :
    Rel (Tr P) (f m) := by
  cases b <;> simp only [runLeaf, Option.some.injEq] at hf <;> try (exact absurd hf (by simp))
  all_goals subst hf
  · unfold hSet; tr_auto hP
  · unfold hReq; tr_auto hP
  · exact tr_hVersion hP m
  · unfold hIdRequest; tr_auto hP
  · unfold hConfig
    cases env.metric <;> tr_auto hP
  · unfold hTime; tr_auto hP
  · unfold hBattery; tr_auto hP
  · unfold hSketchName; tr_auto hP
  · unfold hSketchVersion; tr_auto hP
  · unfold hGatewayReady; tr_auto hP
  · unfold hDiscoverResponse; tr_auto hP
  · unfold hHeartbeat20 heartbeatValue
    refine Rel.bind (tr_preO hP) (tr_requireNode hP _) fun node => ?_
    refine Rel.bind (tr_preO hP) (Rel.convertExn (tr_preO hP) _ _ _) fun hb => ?_
    exact Rel.seq (tr_preO hP) (tr_setNode hP _ _) (tr_flush hP m)
  · unfold hHeartbeat22 heartbeatValue; tr_auto hP
  · unfold hPreSleep22
    refine Rel.bind (tr_preO hP) (tr_requireNode hP _) fun node => ?_
    exact Rel.seq (tr_preO hP) (tr_setNode hP _ _) (tr_flush hP m)

/-! ### Layers: the two marker operations are hypotheses, needed only where a chain has them -/

def hasNC (ls : List Layer) : Bool := ls.contains (.wrap .missingNC)

def hasPre (ls : List Layer) : Bool := ls.any fun l => match l with | .pre _ => true | .wrap _ => false

/-- The decorator `handle_missing_node_child` / the marker removal, as steps of `R` on message `m`,
each under its own side condition. -/
structure LayerOK (R : W → W → Prop) (m : Msg) (ncOK preOK : Prop) : Prop where
  nc : ncOK → ∀ inner : Msg → M Msg, Rel R (inner m) → Rel R (wrapMissingNC inner m)
  unmark : preOK → Rel R (prePresentation20 m)

/-- A chain may contain the decorator only if `ncOK`, a `pre` body only if `preOK`. -/
def LayersIn (ncOK preOK : Prop) (ls : List Layer) : Prop := (hasNC ls = true → ncOK) ∧ (hasPre ls = true → preOK)

variable {ncOK preOK : Prop} {m : Msg}

theorem tr_applyLayers (hP : TrOK P) (hL : LayerOK (Tr P) m ncOK preOK) (ls : List Layer) (h : LayersIn ncOK preOK ls)
    (base : Msg → M Msg) (hb : Rel (Tr P) (base m)) : Rel (Tr P) (applyLayers ls base m) := by
  induction ls with
  | nil => simpa [applyLayers] using hb
  | cons l ls ih =>
    have hrest : LayersIn ncOK preOK ls :=
      ⟨fun hn => h.1 (by simp only [hasNC, List.contains_cons, Bool.or_eq_true] at hn ⊢; exact Or.inr hn),
       fun hp => h.2 (by simp only [hasPre, List.any_cons, Bool.or_eq_true] at hp ⊢; exact Or.inr hp)⟩
    cases l with
    | wrap wr =>
      cases wr with
      | missingPV => simpa [applyLayers] using tr_wrapMissingPV hP (ih hrest)
      | missingNC => simpa [applyLayers] using hL.nc (h.1 (by simp [hasNC])) _ (ih hrest)
    | pre b =>
      simp only [applyLayers]
      refine Rel.seq (tr_preO hP) ?_ (ih hrest)
      cases b <;> first
        | exact hL.unmark (h.2 (by simp [hasPre]))
        | exact Rel.raise (tr_preO hP) _

theorem tr_runTyped (hP : TrOK P) (hL : LayerOK (Tr P) m ncOK preOK) (env : Env) (och : Option Chain)
    (h : ∀ ch, och = some ch → LayersIn ncOK preOK ch.layers) : Rel (Tr P) (runTyped env och m) := by
  cases och with
  | none => exact Rel.pure (tr_preO hP) _
  | some ch =>
    simp only [runTyped, runInner]
    cases hf : runLeaf env ch.base with
    | none => exact Rel.raise (tr_preO hP) _
    | some f => exact tr_applyLayers hP hL _ (h ch rfl) f (tr_runLeaf hP env _ f hf m)

theorem tr_hPresentation (hP : TrOK P) (hL : LayerOK (Tr P) m ncOK preOK) (env : Env) (v : Ver)
    (hv : ∀ ch, Gen.versionHandlerChain v = some ch → LayersIn ncOK preOK ch.layers) :
    Rel (Tr P) (hPresentation env v m) := by
  simp only [hPresentation]
  split
  · refine Rel.seq (tr_preO hP) (tr_setNode hP _ _) ?_
    split
    · exact tr_runTyped hP hL env _ hv
    · exact Rel.pure (tr_preO hP) _
  · tr_auto hP

theorem tr_hInternal (hP : TrOK P) (hL : LayerOK (Tr P) m ncOK preOK) (env : Env) (v : Ver)
    (hi : ∀ t ch, ((Gen.internalChains v).lookup t).join = some ch → LayersIn ncOK preOK ch.layers) :
    Rel (Tr P) (hInternal env v m) := by
  simp only [hInternal]
  split
  · exact Rel.raise (tr_preO hP) _
  · exact tr_runTyped hP hL env _ (hi _)

theorem tr_hStream (hP : TrOK P) (hL : LayerOK (Tr P) m ncOK preOK) (env : Env) (v : Ver)
    (hs : ∀ t ch, ((Gen.streamChains v).lookup t).join = some ch → LayersIn ncOK preOK ch.layers) :
    Rel (Tr P) (hStream env v m) := by
  simp only [hStream]
  refine Rel.bind (tr_preO hP) (tr_requireNode hP _) fun _ => ?_
  split
  · exact Rel.raise (tr_preO hP) _
  · exact tr_runTyped hP hL env _ (hs _)

/-- Every chain protocol `v` can run for a message with command `cmd` respects the side conditions. -/
structure ChainsIn (ncOK preOK : Prop) (v : Ver) (cmd : Int) : Prop where
  command : ∀ ch, (Gen.commandChains v).lookup cmd = some ch → LayersIn ncOK preOK ch.layers
  internal : ∀ t ch, ((Gen.internalChains v).lookup t).join = some ch → LayersIn ncOK preOK ch.layers
  stream : ∀ t ch, ((Gen.streamChains v).lookup t).join = some ch → LayersIn ncOK preOK ch.layers
  version : ∀ ch, Gen.versionHandlerChain v = some ch → LayersIn ncOK preOK ch.layers

theorem tr_runBase (hP : TrOK P) (hL : LayerOK (Tr P) m ncOK preOK) (env : Env) (v : Ver)
    (hC : ChainsIn ncOK preOK v m.cmd) (b : Body) : Rel (Tr P) (runBase env v b m) := by
  cases b
  case presentation14 => exact tr_hPresentation hP hL env v hC.version
  case internal14 => exact tr_hInternal hP hL env v hC.internal
  case stream14 => exact tr_hStream hP hL env v hC.stream
  case presentation20 => exact Rel.raise (tr_preO hP) _
  case set14 => exact tr_runLeaf hP env .set14 _ rfl m
  case req14 => exact tr_runLeaf hP env .req14 _ rfl m
  case iVersion14 => exact tr_runLeaf hP env .iVersion14 _ rfl m
  case iIdRequest14 => exact tr_runLeaf hP env .iIdRequest14 _ rfl m
  case iConfig14 => exact tr_runLeaf hP env .iConfig14 _ rfl m
  case iTime14 => exact tr_runLeaf hP env .iTime14 _ rfl m
  case iBatteryLevel14 => exact tr_runLeaf hP env .iBatteryLevel14 _ rfl m
  case iSketchName14 => exact tr_runLeaf hP env .iSketchName14 _ rfl m
  case iSketchVersion14 => exact tr_runLeaf hP env .iSketchVersion14 _ rfl m
  case iGatewayReady20 => exact tr_runLeaf hP env .iGatewayReady20 _ rfl m
  case iDiscoverResponse20 => exact tr_runLeaf hP env .iDiscoverResponse20 _ rfl m
  case iHeartbeatResponse20 => exact tr_runLeaf hP env .iHeartbeatResponse20 _ rfl m
  case iHeartbeatResponse22 => exact tr_runLeaf hP env .iHeartbeatResponse22 _ rfl m
  case iPreSleepNotification22 => exact tr_runLeaf hP env .iPreSleepNotification22 _ rfl m

/-- **The traversal.** Handling `m` under protocol `v` only makes `Tr P`-steps. -/
theorem tr_dispatch (hP : TrOK P) (hL : LayerOK (Tr P) m ncOK preOK) (env : Env) (v : Ver)
    (hC : ChainsIn ncOK preOK v m.cmd) : Rel (Tr P) (dispatch env v m) := by
  unfold dispatch
  split
  · exact Rel.raise (tr_preO hP) _
  · next ch hl => exact tr_applyLayers hP hL _ (hC.command ch hl) _ (tr_runBase hP hL env v hC _)

/-! ### What the generated chains contain -/

def optHasNC : Option Chain → Bool
  | some ch => hasNC ch.layers
  | none => false

def optHasPre : Option Chain → Bool
  | some ch => hasPre ch.layers
  | none => false

/-- Handlers reached by type name never remove a marker; at command level only the presentation
handler of 2.0 and newer does. -/
theorem pre_only_in_presentation20 : ∀ v : Ver,
    ((Gen.commandChains v).all fun e => !hasPre e.2.layers || (e.1 == 0 && decide (Ver.v20 ≤ v))) = true ∧
    ((Gen.internalChains v).all fun e => !optHasPre e.2) = true ∧
    ((Gen.streamChains v).all fun e => !optHasPre e.2) = true ∧
    optHasPre (Gen.versionHandlerChain v) = false := by decide

/-- Before 2.0 no chain contains the decorator or a marker removal. -/
theorem old_chains_plain : ∀ v : Ver, ¬ Ver.v20 ≤ v →
    ((Gen.commandChains v).all fun e => !hasNC e.2.layers && !hasPre e.2.layers) = true ∧
    ((Gen.internalChains v).all fun e => !optHasNC e.2 && !optHasPre e.2) = true ∧
    ((Gen.streamChains v).all fun e => !optHasNC e.2 && !optHasPre e.2) = true ∧
    (!optHasNC (Gen.versionHandlerChain v) && !optHasPre (Gen.versionHandlerChain v)) = true := by decide

/-- The version handler a node-0 presentation runs is undecorated in every version. -/
theorem version_chain_plain : ∀ v : Ver,
    optHasNC (Gen.versionHandlerChain v) = false ∧ optHasPre (Gen.versionHandlerChain v) = false := by decide

theorem lookup_join_mem {l : List (Int × Option Chain)} {t : Int} {ch : Chain} (h : (l.lookup t).join = some ch) :
    (t, some ch) ∈ l := by
  cases hl : l.lookup t with
  | none => simp [hl] at h
  | some och =>
    rw [hl] at h
    simp only [Option.join] at h
    subst h
    exact lookup_mem hl

/-- Side conditions met by every chain of every version: the decorator anywhere, a marker removal
only for a presentation under 2.0 or newer. -/
theorem chainsIn_all (v : Ver) (cmd : Int) (hpre : cmd = 0 → Ver.v20 ≤ v → preOK) : ChainsIn True preOK v cmd := by
  obtain ⟨hc, hi, hs, hv⟩ := pre_only_in_presentation20 v
  refine ⟨fun ch h => ⟨fun _ => trivial, fun hp => ?_⟩, fun t ch h => ⟨fun _ => trivial, fun hp => ?_⟩,
    fun t ch h => ⟨fun _ => trivial, fun hp => ?_⟩, fun ch h => ⟨fun _ => trivial, fun hp => ?_⟩⟩
  · have := List.all_eq_true.mp hc (cmd, ch) (lookup_mem h)
    simp only [hp, Bool.not_true, Bool.false_or, Bool.and_eq_true, beq_iff_eq, decide_eq_true_eq] at this
    exact hpre this.1 this.2
  · have := List.all_eq_true.mp hi (t, some ch) (lookup_join_mem h)
    simp [optHasPre, hp] at this
  · have := List.all_eq_true.mp hs (t, some ch) (lookup_join_mem h)
    simp [optHasPre, hp] at this
  · rw [h] at hv; simp [optHasPre, hp] at hv

/-- Before 2.0 every chain is plain. -/
theorem chainsIn_old (v : Ver) (hv : ¬ Ver.v20 ≤ v) (cmd : Int) : ChainsIn False False v cmd := by
  obtain ⟨hc, hi, hs, hvh⟩ := old_chains_plain v hv
  refine ⟨fun ch h => ?_, fun t ch h => ?_, fun t ch h => ?_, fun ch h => ?_⟩
  · have := List.all_eq_true.mp hc (cmd, ch) (lookup_mem h)
    simp only [Bool.and_eq_true, Bool.not_eq_true'] at this
    exact ⟨fun hn => by simp [this.1] at hn, fun hp => by simp [this.2] at hp⟩
  · have := List.all_eq_true.mp hi (t, some ch) (lookup_join_mem h)
    simp only [optHasNC, optHasPre, Bool.and_eq_true, Bool.not_eq_true'] at this
    exact ⟨fun hn => by simp [this.1] at hn, fun hp => by simp [this.2] at hp⟩
  · have := List.all_eq_true.mp hs (t, some ch) (lookup_join_mem h)
    simp only [optHasNC, optHasPre, Bool.and_eq_true, Bool.not_eq_true'] at this
    exact ⟨fun hn => by simp [this.1] at hn, fun hp => by simp [this.2] at hp⟩
  · rw [h] at hvh
    simp only [optHasNC, optHasPre, Bool.and_eq_true, Bool.not_eq_true'] at hvh
    exact ⟨fun hn => by simp [hvh.1] at hn, fun hp => by simp [hvh.2] at hp⟩

/-! ### The two instances -/

/-- Log and marker of node `n` move together like the episode automaton. -/
def EpiP (n : Int) : St → List WriteEvt → St → Prop :=
  fun s l s' => track n (markedB s n) l = some (markedB s' n)

theorem epiP_ok (n : Int) : TrOK (EpiP n) where
  trans := by
    intro a b c l1 l2 h1 h2
    simp only [EpiP] at *
    rw [track_append, h1]; exact h2
  frame := fun s s' h => by simp [EpiP, track, markedB, h]
  line := fun s line ok h => by
    have : isReq n ⟨line, ok⟩ = false := by simpa [isReq] using h n
    simp [EpiP, track, this]

/-- No presentation-request line is written and every marker stays as it was. -/
def QuietP : St → List WriteEvt → St → Prop :=
  fun s l s' => (∀ n, markedB s' n = markedB s n) ∧ ∀ e ∈ l, ∀ n, e.line ≠ reqLine n

theorem quietP_ok : TrOK QuietP where
  trans := by
    rintro a b c l1 l2 ⟨h1, p1⟩ ⟨h2, p2⟩
    refine ⟨fun n => (h2 n).trans (h1 n), fun e he => ?_⟩
    rcases List.mem_append.mp he with h | h
    · exact p1 e h
    · exact p2 e h
  frame := fun s s' h => ⟨fun n => by simp [markedB, h], by simp⟩
  line := fun s line ok h => ⟨fun _ => rfl, by simpa using h⟩

theorem quiet_layerOK (m : Msg) : LayerOK (Tr QuietP) m False False := ⟨False.elim, False.elim⟩

/-- The decorator, exactly, as a step of the episode automaton of any node `n`. -/
theorem epi_wrapMissingNC (n : Int) (m : Msg) (inner : Msg → M Msg) (hi : Rel (Tr (EpiP n)) (inner m)) :
    Rel (Tr (EpiP n)) (wrapMissingNC inner m) := by
  have hpre := tr_preO (epiP_ok n)
  unfold wrapMissingNC
  refine Rel.tryCatch hpre hi fun e y hy => ?_
  split at hy
  · simp only [Option.some.injEq] at hy
    subst hy
    refine Rel.bind_getSt hpre fun w hs => ?_
    split
    · exact hpre.refl w hs
    · next hm =>
      have hm' : w.st.ibuf.has (presentationRequest m.node).key = false := by simpa using hm
      simp only [M.seq, gwSend_direct (presentationRequest m.node) _ (Or.inr (Or.inr (Or.inl (presentationRequest_cmd _))))]
      -- the write, then the marker
      have key : ∀ (ok : Bool) (w' : W), w'.st = (if ok then { w.st with ibuf := w.st.ibuf.set (presentationRequest m.node).key (presentationRequest m.node) } else w.st) →
          w'.writes = w.writes ++ [⟨reqLine m.node, ok⟩] →
          SbufSet w'.st ∧ ∃ l, w'.writes = w.writes ++ l ∧ EpiP n w.st l w'.st := by
        intro ok w' hst hwr
        refine ⟨by rw [hst]; cases ok <;> exact hs, [⟨reqLine m.node, ok⟩], hwr, ?_⟩
        simp only [EpiP, track, isReq]
        by_cases hn : m.node = n
        · subst hn
          have h0 : markedB w.st m.node = false := hm'
          simp only [beq_self_eq_true, if_true, h0, Bool.false_eq_true, if_false, Option.some.injEq]
          rw [hst]; cases ok
          · simpa using h0.symm
          · simp [markedB, PDict.has_set_self]
        · have hl : (reqLine m.node == reqLine n) = false := by
            simpa using fun h => hn (reqLine_inj h)
          simp only [hl, Bool.false_eq_true, if_false, Option.some.injEq]
          rw [hst]; cases ok
          · rfl
          · simp only [markedB, if_true]
            rw [PDict.has_set_ne]
            intro hk
            exact hn (congrArg Prod.fst hk).symm
      simp only [M.bind]
      cases hf : w.faults with
      | nil =>
        rw [transportWrite_ok _ _ hf]
        exact key true _ rfl rfl
      | cons f rest =>
        cases f with
        | fail =>
          rw [transportWrite_fail _ _ rest hf]
          exact key false _ rfl rfl
        | cancel =>
          rw [transportWrite_cancel _ _ rest hf]
          exact key false _ rfl rfl
        | pass =>
          rw [transportWrite_pass _ _ rest hf]
          exact key true _ rfl rfl
  · exact absurd hy (by simp)

/-- The marker removal of a presentation that is not node `n`'s own node presentation. -/
theorem epi_unmark (n : Int) (m : Msg) (h : ¬ (m.node = n ∧ m.child = Gen.systemChildId)) :
    Rel (Tr (EpiP n)) (prePresentation20 m) := ⟨fun w hs => by
  have hk : (presentationRequest n).key ≠ (m.node, m.child, Gen.iPresentation) := by
    intro e
    simp only [presentationRequest, Msg.key, Prod.mk.injEq] at e
    exact h ⟨e.1.symm, e.2.1.symm⟩
  simp only [prePresentation20, M.modifySt]
  split
  · refine ⟨hs, [], by simp, ?_⟩
    simp only [EpiP, track, markedB, Option.some.injEq]
    rw [PDict.has_erase_ne _ hk]
  · exact ⟨hs, [], by simp, by simp [EpiP, track]⟩⟩

theorem epi_layerOK (n : Int) (m : Msg) : LayerOK (Tr (EpiP n)) m True (¬ (m.node = n ∧ m.child = Gen.systemChildId)) :=
  ⟨fun _ inner hi => epi_wrapMissingNC n m inner hi, fun h => epi_unmark n m h⟩

/-! ### One received line -/

/-- Is this line, received in state `st`, a node presentation of `n` handled by protocol 2.0 or
newer — the one event that forgets the marker of `n`? -/
def rearmsLine (n : Int) (st : St) (line : Str) : Bool :=
  match decode st.proto line with
  | some m => m.cmd == 0 && m.child == Gen.systemChildId && m.node == n && decide (Ver.v20 ≤ st.proto)
  | none => false

/-- **Any received line that is not a re-arming event for `n`**, any version, state and fault
schedule: the write log and the marker of `n` move as the episode automaton says. -/
theorem epi_recv (n : Int) (env : Env) (line : Str) (w : W) (h : rearmsLine n w.st line = false) :
    Tr (EpiP n) w (recv env line w).2 := by
  have hpre := tr_preO (epiP_ok n)
  simp only [recv, M.bind, M.getSt]
  cases hd : decode w.st.proto line with
  | none => exact hpre.refl w
  | some m =>
    simp only [rearmsLine, hd] at h
    refine (tr_dispatch (epiP_ok n) (epi_layerOK n m) env w.st.proto (chainsIn_all _ _ fun h0 hv => ?_)).step w
    rintro ⟨h1, h2⟩
    simp [h0, h1, h2, hv] at h

/-- **Before 2.0**: a received line writes no presentation-request line and changes no marker. -/
theorem quiet_recv_old (env : Env) (line : Str) (w : W) (hv : ¬ Ver.v20 ≤ w.st.proto) :
    Tr QuietP w (recv env line w).2 := by
  have hpre := tr_preO quietP_ok
  simp only [recv, M.bind, M.getSt]
  cases hd : decode w.st.proto line with
  | none => exact hpre.refl w
  | some m => exact (tr_dispatch quietP_ok (quiet_layerOK m) env w.st.proto (chainsIn_old _ hv _)).step w

theorem hVersion_not_missing (m : Msg) (w : W) (e : Exn) (h : (hVersion m w).1 = .error e) : missingCaught e = false := by
  unfold hVersion AioMySensors.convertExn at h
  cases hg : getProtocolE m.payload with
  | ok v => simp [hg, M.bind, M.pure, M.seq, M.modifySt] at h
  | error c =>
    by_cases hp : pyCaught c (clause Gen.excVersion 0) = true <;>
      simp [hg, hp, M.bind, M.raise] at h <;> subst h <;> rfl

/-- The version-query decorator passes the handler's failure on or reports a write that did not
complete (failed, or aborted by cancellation). -/
theorem wrapMissingPV_error (inner : Msg → M Msg) (m : Msg) (w : W) (e : Exn)
    (h : (wrapMissingPV inner m w).1 = .error e) :
    (inner m w).1 = .error e ∨ e = .lib .transportFailed ∨ e = .foreign .CancelledError := by
  rw [wrapMissingPV_eq] at h
  dsimp only at h
  generalize ((inner m w).2.st.pv.isNone && _) = c at h
  cases c with
  | true =>
    simp only [if_true] at h
    cases ht : transportWrite (encode versionQuery) (inner m w).2 with
    | mk r w'' =>
      rw [ht] at h
      cases r with
      | ok u => exact Or.inl h
      | error e' =>
        simp only [Except.error.injEq] at h
        subst h
        simp only [transportWrite] at ht
        split at ht <;> simp at ht
        · exact Or.inr (Or.inl ht.1.symm)
        · exact Or.inr (Or.inr ht.1.symm)
  | false =>
    simp only [Bool.false_eq_true, if_false] at h
    exact Or.inl h

/-- A node presentation never fails with a missing node or child. -/
theorem node_presentation_not_missing (env : Env) (v : Ver) (m : Msg) (w : W) (hc : m.child = Gen.systemChildId)
    (e : Exn) (h : (wrapMissingPV (hPresentation env v) m w).1 = .error e) : missingCaught e = false := by
  rcases wrapMissingPV_error _ m w e h with he | he
  · have hvc : Gen.versionHandlerChain v = some ⟨[], .iVersion14⟩ := by cases v <;> rfl
    simp only [hPresentation, hc, beq_self_eq_true, if_true, M.seq, M.bind, setNode, M.modifySt, hvc, runTyped,
      runInner, runLeaf, applyLayers] at he
    split at he
    · exact hVersion_not_missing m _ e he
    · simp [M.pure] at he
  · rcases he with he | he <;> subst he <;> rfl

theorem marker_gone_after_pre (m : Msg) (w : W) (hc : m.child = Gen.systemChildId) (hwf : PDict.WF w.st.ibuf) :
    markedB (prePresentation20 m w).2.st m.node = false := by
  have hk : (presentationRequest m.node).key = (m.node, m.child, Gen.iPresentation) := by
    simp [presentationRequest, Msg.key, hc]
  simp only [markedB, prePresentation20, M.modifySt, hk]
  split
  · simp [PDict.has_erase_self hwf]
  · next h => simpa using h

/-- **The re-arming event.** A node presentation handled by protocol 2.0 or newer, from a state
whose marker table has no duplicate keys: afterwards no request to that node is outstanding, and
the step wrote no presentation-request line at all. -/
theorem rearm_recv (env : Env) (line : Str) (w : W) (m : Msg) (hd : decode w.st.proto line = some m)
    (hcmd : m.cmd = 0) (hc : m.child = Gen.systemChildId) (hv : Ver.v20 ≤ w.st.proto)
    (hwf : PDict.WF w.st.ibuf) (hs : SbufSet w.st) :
    markedB (recv env line w).2.st m.node = false ∧ SbufSet (recv env line w).2.st ∧
    ∃ l, (recv env line w).2.writes = w.writes ++ l ∧ ∀ e ∈ l, ∀ n, e.line ≠ reqLine n := by
  have hrecv : recv env line w = dispatch env w.st.proto m w := by simp [recv, M.bind, M.getSt, hd]
  rw [hrecv, dispatch_presentation env _ m hcmd, if_pos hv]
  have hvc : ∀ ch, Gen.versionHandlerChain w.st.proto = some ch → LayersIn False False ch.layers := by
    intro ch h
    have := version_chain_plain w.st.proto
    rw [h] at this
    simp only [optHasNC, optHasPre] at this
    exact ⟨fun hn => by simp [this.1] at hn, fun hp => by simp [this.2] at hp⟩
  have hX := (tr_wrapMissingPV quietP_ok (tr_hPresentation quietP_ok (quiet_layerOK m) env w.st.proto hvc)).step
    (prePresentation20 m w).2
  have hs1 : SbufSet (prePresentation20 m w).2.st := by
    simp only [prePresentation20, M.modifySt]; split <;> exact hs
  have hw1 : (prePresentation20 m w).2.writes = w.writes := rfl
  obtain ⟨hs2, l, hl, hq, hno⟩ := hX hs1
  have hin : (fun m => seq (prePresentation20 m) (wrapMissingPV (hPresentation env w.st.proto) m)) m w =
      wrapMissingPV (hPresentation env w.st.proto) m (prePresentation20 m w).2 := by
    simp [M.seq, M.bind, prePresentation20, M.modifySt]
  have hres : (wrapMissingNC (fun m => seq (prePresentation20 m) (wrapMissingPV (hPresentation env w.st.proto) m)) m w).2 =
      (wrapMissingPV (hPresentation env w.st.proto) m (prePresentation20 m w).2).2 := by
    cases hr : wrapMissingPV (hPresentation env w.st.proto) m (prePresentation20 m w).2 with
    | mk r w2 =>
      cases r with
      | ok r' => rw [wrapMissingNC_ok _ m r' w w2 (hin.trans hr)]
      | error e =>
        have he := node_presentation_not_missing env w.st.proto m (prePresentation20 m w).2 hc e (by rw [hr])
        rw [wrapMissingNC_other _ m e w w2 (hin.trans hr) he]
  rw [hres]
  refine ⟨?_, hs2, l, by rw [hl, hw1], hno⟩
  rw [hq m.node]
  exact marker_gone_after_pre m w hc hwf

/-! ### Reading off a legal run -/

/-- Attempts to write the request for `n` in a list of write events. -/
def reqAttempts (n : Int) (l : List WriteEvt) : Nat := l.countP (isReq n)

/-- Requests for `n` that reached the wire. -/
def reqSuccesses (n : Int) (l : List WriteEvt) : Nat := l.countP fun e => isReq n e && e.ok

theorem reqSuccesses_le_attempts (n : Int) (l : List WriteEvt) : reqSuccesses n l ≤ reqAttempts n l := by
  induction l with
  | nil => simp [reqSuccesses, reqAttempts]
  | cons e l ih =>
    simp only [reqSuccesses, reqAttempts, List.countP_cons] at ih ⊢
    cases h1 : isReq n e <;> cases h2 : e.ok <;> simp <;> omega

/-- **What a legal run of the episode automaton looks like.** -/
theorem track_spec (n : Int) (b b' : Bool) (l : List WriteEvt) (h : track n b l = some b') :
    reqSuccesses n l ≤ 1 ∧ (b = true → reqAttempts n l = 0) ∧ (b' = true ↔ b = true ∨ reqSuccesses n l = 1) := by
  induction l generalizing b with
  | nil =>
    simp only [track, Option.some.injEq] at h
    subst h
    simp [reqSuccesses, reqAttempts]
  | cons e l ih =>
    simp only [track] at h
    have hle := reqSuccesses_le_attempts n l
    cases hr : isReq n e with
    | false =>
      simp only [hr, Bool.false_eq_true, if_false] at h
      have := ih b h
      simpa [reqSuccesses, reqAttempts, List.countP_cons, hr] using this
    | true =>
      simp only [hr, if_true] at h
      cases b with
      | true => simp at h
      | false =>
        simp only [Bool.false_eq_true, if_false] at h
        obtain ⟨i1, i2, i3⟩ := ih e.ok h
        simp only [reqSuccesses, reqAttempts, List.countP_cons, hr, Bool.true_and] at i1 i2 i3 hle ⊢
        cases hok : e.ok with
        | true =>
          have h0 := i2 hok
          have : List.countP (fun e => isReq n e && e.ok) l = 0 := by omega
          simp [this, i3, hok]
        | false =>
          simp only [hok, Bool.false_eq_true, false_or] at i3
          simp [i1, i3]

/-- After a request for `n` went out successfully, nothing more is attempted for `n`; before it,
no request for `n` had succeeded and none was outstanding. -/
theorem track_after_success (n : Int) (b b' : Bool) (l1 l2 : List WriteEvt) (e : WriteEvt)
    (h : track n b (l1 ++ e :: l2) = some b') (he : isReq n e = true) (hok : e.ok = true) :
    reqAttempts n l2 = 0 ∧ reqSuccesses n l1 = 0 ∧ b = false ∧ b' = true := by
  rw [track_append] at h
  cases h1 : track n b l1 with
  | none => simp [h1] at h
  | some b1 =>
    simp only [h1, Option.bind_some, track, he, if_true] at h
    cases b1 with
    | true => simp at h
    | false =>
      simp only [Bool.false_eq_true, if_false, hok] at h
      obtain ⟨_, a2, a3⟩ := track_spec n true b' l2 h
      obtain ⟨c1, _, c3⟩ := track_spec n b false l1 h1
      refine ⟨a2 rfl, ?_, ?_, a3.mpr (Or.inl rfl)⟩
      · have : ¬ (b = true ∨ reqSuccesses n l1 = 1) := fun hh => by simpa using c3.mpr hh
        omega
      · cases b with
        | false => rfl
        | true => simpa using c3.mpr (Or.inl rfl)

end AioMySensors.Episode
