/-
The tie between the generated top of the receive and send paths (`Generated/GatewayBodies.lean`, written by
`tools/translate_listen.py` from `Gateway.listen`, `Gateway.send` and the two handler lookups of the working tree) and the
paths every gateway-level theorem speaks about:

* `listenStep_eq_recvGen : GenGateway.listenStep env line = GenBodies.recvGen env line` (hence `= recv env line`),
* `send_eq_apiSendGen : GenGateway.send obj b = GenBodies.apiSendGen obj b` (hence `= apiSend obj b`).

With `Lemmas/BodiesEq.lean` and `Lemmas/CodecBodiesEq.lean` the whole path line → decoded message → handler lookup →
decorators → handler body (and message → dumped line → outgoing handler → write) is text translated from the code on
this run: `load` is `GenCodec.loadGen`, `dump` is `GenCodec.to_string`, the lookups are the translated
`Command(message.command)` / `getattr(handlers, f"handle_{command.name}")` over the generated attribute tables.

What used to be assumed by the constant glue of `tools/translate.py` and is now proved from the translation:
the `except ValidationError → InvalidMessageError` conversions, that the lookup by command value
(`Gen.commandChains`, `Gen.outgoingHandlers`) IS `Command(x)` followed by `getattr` on the class of the active protocol
(`incoming_tables`, `outgoing_tables`), where `ValueError` / `AttributeError` arise, that the handler is called with the
gateway's own buffer (resp. the buffer or `None` as `message_buffer` says) and with the line the dump produced, and the
default of `message_buffer`.
-/
import AioMySensors.Generated.GatewayBodies
import AioMySensors.Lemmas.BodiesEq
import AioMySensors.Lemmas.CodecBodiesEq

set_option linter.unusedSimpArgs false

namespace AioMySensors.GatewayBodiesEq
open AioMySensors M

/-! ### the lookups -/

/-- Apply `f` to the value of every entry of a table keyed by command value. -/
def mapSnd {β γ : Type} (f : β → γ) (l : List (Int × β)) : List (Int × γ) := l.map fun p => (p.1, f p.2)

theorem lookup_mapSnd {β γ : Type} (f : β → γ) (l : List (Int × β)) (k : Int) :
    (mapSnd f l).lookup k = (l.lookup k).map f := by
  induction l with
  | nil => rfl
  | cons p l ih =>
    obtain ⟨a, b⟩ := p
    cases h : k == a <;> simp [mapSnd, List.lookup, h] <;> exact ih

/-- Table fact (closed, checked by evaluation on the regenerated tables): for every protocol, looking the canonical
name of each command value up among the `handle_<name>` attributes of the incoming handler class gives exactly the
chain `tools/extract.py` resolved for that value (`Gen.commandChains`, what `GenBodies.dispatchGen` reads). -/
theorem incoming_tables : ∀ v : Ver,
    mapSnd (fun n => (LG.inClass v (GenGateway.incomingAttrs v)).lookup ("handle_" ++ n)) (Gen.commandNames v)
      = mapSnd (fun ch => some (LG.InHandler.mk v ch)) (Gen.commandChains v) := by decide

/-- The same for the outgoing handler class (`none`: the class has no such attribute) and `Gen.outgoingHandlers`
(what `GenBodies.gwSend'` reads). -/
theorem outgoing_tables : ∀ v : Ver,
    mapSnd (fun n => (GenGateway.outgoingAttrs v).lookup ("handle_" ++ n)) (Gen.commandNames v)
      = Gen.outgoingHandlers v := by decide

/-- `getattr(protocol.IncomingMessageHandler, f"handle_{protocol.Command(k).name}")` in canonical form. -/
def selIn (v : Ver) (k : Int) : Except PyExn LG.InHandler :=
  LG.bindE (LG.enumCall (Gen.commandNames v) k) fun c =>
  LG.getattr2 (LG.inClass v (GenGateway.incomingAttrs v)) ("handle_" ++ c.name)

/-- `getattr(protocol.OutgoingMessageHandler, f"handle_{protocol.Command(k).name}")` in canonical form. -/
def selOut (v : Ver) (k : Int) : Except PyExn OutBody :=
  LG.bindE (LG.enumCall (Gen.commandNames v) k) fun c =>
  LG.getattr2 (GenGateway.outgoingAttrs v) ("handle_" ++ c.name)

/-- The lookup by command value over `Gen.commandChains` (the glue of `GenBodies.dispatchGen`) is the enum call
followed by `getattr`: `ValueError` exactly when the value is no member; the attribute is always there. -/
theorem selIn_eq (v : Ver) (k : Int) :
    selIn v k = match (Gen.commandChains v).lookup k with
      | none => .error .ValueError
      | some ch => .ok ⟨v, ch⟩ := by
  have h := congrArg (List.lookup k) (incoming_tables v)
  simp only [lookup_mapSnd] at h
  simp only [selIn, LG.bindE, LG.enumCall, LG.getattr2]
  cases hn : (Gen.commandNames v).lookup k <;> cases hc : (Gen.commandChains v).lookup k <;>
    simp [hn, hc] at h ⊢
  simp [h]

/-- The same for `Gen.outgoingHandlers` (the glue of `GenBodies.gwSend'`): `ValueError` when the value is no member,
`AttributeError` when the class has no `handle_<name>`. -/
theorem selOut_eq (v : Ver) (k : Int) :
    selOut v k = match (Gen.outgoingHandlers v).lookup k with
      | none => .error .ValueError
      | some none => .error .AttributeError
      | some (some ob) => .ok ob := by
  have h := congrArg (List.lookup k) (outgoing_tables v)
  simp only [lookup_mapSnd] at h
  simp only [selOut, LG.bindE, LG.enumCall, LG.getattr2]
  cases hn : (Gen.commandNames v).lookup k <;> cases hc : (Gen.outgoingHandlers v).lookup k <;>
    simp [hn, hc] at h ⊢
  subst h
  cases (GenGateway.outgoingAttrs v).lookup ("handle_" ++ _) <;> rfl

@[simp] theorem bindE_ok (x : Except PyExn α) : (LG.bindE x fun a => .ok a) = x := by
  cases x <;> rfl

@[simp] theorem bindE_ok_left (a : α) (f : α → Except PyExn β) : LG.bindE (.ok a) f = f a := rfl

@[simp] theorem bindE_assoc (x : Except PyExn α) (f : α → Except PyExn β) (g : β → Except PyExn γ) :
    LG.bindE (LG.bindE x f) g = LG.bindE x fun a => LG.bindE (f a) g := by
  cases x <;> rfl

/-- The translated `get_incoming_message_handler`. -/
theorem get_incoming_message_handler_eq (v : Ver) (m : Msg) :
    GenGateway.get_incoming_message_handler v m = selIn v m.cmd := by
  simp [GenGateway.get_incoming_message_handler, selIn]

/-- The translated `get_outgoing_message_handler` on a `Message`. -/
theorem get_outgoing_message_handler_eq (v : Ver) (m : Msg) :
    GenGateway.get_outgoing_message_handler v (some m) = selOut v m.cmd := by
  simp [GenGateway.get_outgoing_message_handler, selOut, LG.attrOf]

/-! ### `Gateway.listen`, one iteration -/

theorem listenStep_eq_recvGen (env : Env) (line : Str) :
    GenGateway.listenStep env line = GenBodies.recvGen env line := by
  funext w
  simp only [GenGateway.listenStep, GenBodies.recvGen, GenBodies.dispatchGen, LG.schemaLoad, LG.activeProtocol,
    LG.callIncoming, CodecBodiesEq.loadGen_eq, Lit.catchTo, Lit.liftPy, M.tryCatch, M.bind, M.getSt,
    get_incoming_message_handler_eq, selIn_eq]
  cases decode w.st.proto line with
  | none => first | rfl | simp [M.pure, M.raise]
  | some m =>
    simp only [M.pure]
    cases (Gen.commandChains w.st.proto).lookup m.cmd with
    | none => first | rfl | simp [M.pure, M.raise]
    | some ch =>
      cases hr : GenBodies.applyLayersGen ch.layers (GenBodies.baseGen env w.st.proto ch.base) m w with
      | mk r w' => cases r <;> first | rfl | simp [hr, M.pure, M.raise]

/-- One iteration of the translated `Gateway.listen` is the model's `recv`. -/
theorem listenStep_eq (env : Env) (line : Str) : GenGateway.listenStep env line = recv env line :=
  (listenStep_eq_recvGen env line).trans (BodiesEq.recvGen_eq env line)

/-! ### `Gateway.send` -/

/-- An object that is not a `Message` fails the dump: the translated `to_string` finds none of the fields. -/
theorem to_string_empty : GenCodec.to_string [] = .error .validation := rfl

theorem send_eq_apiSendGen (obj : Option Msg) (b : Bool) :
    GenGateway.send obj b = GenBodies.apiSendGen obj b := by
  funext w
  cases obj with
  | none =>
    cases b <;>
      simp [GenGateway.send, GenBodies.apiSendGen, LG.schemaDump, to_string_empty, LG.liftC, Lit.catchTo, M.tryCatch,
        M.bind, M.raise] <;> rfl
  | some m =>
    cases b <;>
      simp only [GenGateway.send, GenBodies.apiSendGen, GenBodies.gwSend', LG.schemaDump, CodecBodiesEq.dumpGen_eq,
        LG.liftC, LG.activeProtocol, LG.callOutgoing, Lit.catchTo, Lit.liftPy, M.tryCatch, M.bind, M.getSt, M.pure,
        get_outgoing_message_handler_eq, selOut_eq, Bool.not_true, Bool.not_false, if_true, if_false,
        Bool.false_eq_true, Bool.true_eq_false] <;>
      (cases (Gen.outgoingHandlers w.st.proto).lookup m.cmd with
       | none => first | rfl | simp [M.raise, M.pure]
       | some o => cases o <;> simp [M.raise, M.pure])

/-- The translated `Gateway.send` is the model's `apiSend`. -/
theorem send_eq (obj : Option Msg) (b : Bool) : GenGateway.send obj b = apiSend obj b :=
  (send_eq_apiSendGen obj b).trans (BodiesEq.apiSendGen_eq obj b)

/-- `gateway.send(msg)` inside a handler buffers by default: what `tools/translate.py` writes for a call without the
keyword (`GenBodies.gwSend' m true`). -/
theorem sendDefaultBuffer_eq : GenGateway.sendDefaultBuffer = true := rfl

end AioMySensors.GatewayBodiesEq
