/-
C16, "leaving the context ... disconnects the transport", for the stream transports (TCP, serial) when the FAR END ends
the connection while the context is open.

Whatever arrives on a connected `StreamTransport` - chunks cut anywhere, the end of the stream at any point relative
to the message boundaries (after k complete lines, in the middle of one, before any), a reset (`set_exception`) - and
however often the body reads (`read()` returning a line, waiting, raising `TransportReadError` with an empty or a
non-empty partial, raising `TransportFailedError`) or writes (with any injected fault): the transport still holds
the writer it was given by `connect`, untouched by the reads, so the `disconnect()` of the context's exit finds it and
closes it (`steps_then_disconnect_closes`).  A `read` that dropped `reader`/`writer` at the end of the stream would
turn that `disconnect()` into the no-op of a transport that was never connected and leave the socket open.

Stated about the hand-written `Transport.*` of `Model/Stream.lean` and, through `Lemmas/StreamBodiesEq.lean`
(`read_eq`, `write_eq`, `disconnect_eq`), about `GenStream.read / write / disconnect`, the methods as
`tools/translate.py` translates them from the working tree (`gen_steps_then_disconnect_closes`).
-/
import AioMySensors.Lemmas.StreamBodiesEq

namespace AioMySensors.StreamHangup
open AioMySensors AioMySensors.Stream

/-- One thing that happens to a connected transport while the context is open. -/
inductive Step where
  | feed (c : Bytes)                            -- a chunk arrives
  | eof                                         -- the far end closes its sending side / goes away: end of stream
  | reset (c : PyExn)                           -- the connection is lost with an error (`set_exception`)
  | read                                        -- the body calls `read()` (whatever it returns, raises, or waits)
  | write (line : Str) (fault : WriteFault)     -- the body (or `listen()` answering a node) calls `write(line)`
  deriving Repr

/-- The writer the transport holds (`none`: not connected, `self.writer is None`). -/
def writerOf (t : Transport) : Option Writer := t.conn.map (·.writer)

def lost (t : Transport) (c : PyExn) : Transport :=
  match t.conn with
  | some cn => { conn := some { cn with reader := cn.reader.setException c } }
  | none => t

/-- The transport after a step, the methods being the hand-written model's. -/
def step (d : Bytes → Option Str) (t : Transport) : Step → Transport
  | .feed c => t.arrive (.feed c)
  | .eof => t.arrive .eof
  | .reset c => lost t c
  | .read => (Transport.read d t).2
  | .write line fault => (Transport.write t line fault).2

def steps (d : Bytes → Option Str) (t : Transport) (ss : List Step) : Transport := ss.foldl (step d) t

/-- The same with `read` and `write` as translated from the code. -/
def genStep (d : Bytes → Option Str) (t : Transport) : Step → Transport
  | .feed c => t.arrive (.feed c)
  | .eof => t.arrive .eof
  | .reset c => lost t c
  | .read => (GenStream.read d t).2
  | .write line fault => (GenStream.write line fault t).2

def genSteps (d : Bytes → Option Str) (t : Transport) (ss : List Step) : Transport := ss.foldl (genStep d) t

/-- `read()` - whatever its outcome - leaves the connection in place and the writer alone. -/
theorem read_keeps_writer (d : Bytes → Option Str) (t : Transport) : writerOf (Transport.read d t).2 = writerOf t := by
  obtain ⟨conn⟩ := t
  cases conn <;> rfl

/-- `write(line)` never disconnects and never closes: whether the writer is closed is unchanged. -/
theorem write_keeps_closed (t : Transport) (line : Str) (fault : WriteFault) :
    (writerOf (Transport.write t line fault).2).map (·.closed) = (writerOf t).map (·.closed) := by
  obtain ⟨conn⟩ := t
  cases conn with
  | none => rfl
  | some cn => cases fault <;> rfl

theorem arrive_keeps_writer (t : Transport) (ev : Ev) : writerOf (t.arrive ev) = writerOf t := by
  obtain ⟨conn⟩ := t
  cases ev <;> cases conn <;> rfl

theorem lost_keeps_writer (t : Transport) (c : PyExn) : writerOf (lost t c) = writerOf t := by
  obtain ⟨conn⟩ := t
  cases conn <;> rfl

theorem step_keeps_closed (d : Bytes → Option Str) (t : Transport) (s : Step) :
    (writerOf (step d t s)).map (·.closed) = (writerOf t).map (·.closed) := by
  cases s with
  | feed c => simp [step, arrive_keeps_writer]
  | eof => simp [step, arrive_keeps_writer]
  | reset c => simp [step, lost_keeps_writer]
  | read => simp [step, read_keeps_writer]
  | write line fault => exact write_keeps_closed t line fault

theorem steps_keeps_closed (d : Bytes → Option Str) (ss : List Step) : ∀ t : Transport,
    (writerOf (steps d t ss)).map (·.closed) = (writerOf t).map (·.closed) := by
  induction ss with
  | nil => intro t; rfl
  | cons s ss ih =>
    intro t
    show (writerOf (steps d (step d t s) ss)).map (·.closed) = _
    rw [ih, step_keeps_closed]

/-- `disconnect()` on a transport that holds a writer closes it, unless `close()` itself raises; what it lets out is
only what `close()` / `wait_closed()` raised and the `except` clause does not absorb. -/
theorem disconnect_closes (t : Transport) (fault : CloseFault) (h : (writerOf t).isSome)
    (hf : ∀ c, fault ≠ .atClose c) :
    (writerOf (t.disconnect fault).2).map (·.closed) = some true := by
  obtain ⟨conn⟩ := t
  cases conn with
  | none => simp [writerOf] at h
  | some cn =>
    cases fault with
    | clean => rfl
    | atClose c => exact absurd rfl (hf c)
    | atWaitClosed c => rfl

theorem disconnect_clean_raises_nothing (t : Transport) : (t.disconnect .clean).1 = none := by
  obtain ⟨conn⟩ := t
  cases conn <;> rfl

/-- **The far end ends the connection, then the context is left.**  From a fresh connection, after any history of
arrivals (chunks, end of stream, reset) interleaved with any reads and writes, `disconnect()` raises nothing and
leaves the writer closed - also when `wait_closed()` raises (the connection was reset). -/
theorem steps_then_disconnect_closes (L : Nat) (d : Bytes → Option Str) (ss : List Step) (fault : CloseFault)
    (hf : ∀ c, fault ≠ .atClose c) :
    (writerOf ((steps d (connected L) ss).disconnect fault).2).map (·.closed) = some true
    ∧ ((steps d (connected L) ss).disconnect .clean).1 = none := by
  refine ⟨disconnect_closes _ fault ?_ hf, disconnect_clean_raises_nothing _⟩
  have h := steps_keeps_closed d ss (connected L)
  have h0 : (writerOf (connected L)).map (·.closed) = some false := rfl
  rw [h0] at h
  cases hw : writerOf (steps d (connected L) ss) with
  | none => simp [hw] at h
  | some w => rfl

/-! ### The same about the methods as translated from the code -/

theorem readOutcome_snd (r : Except Stop Str × Transport) : (readOutcome r).2 = r.2 := by
  obtain ⟨x, t⟩ := r
  cases x with
  | ok s => rfl
  | error e => cases e <;> rfl

theorem unitOutcome_snd (r : Except Stop Unit × Transport) : (unitOutcome r).2 = r.2 := by
  obtain ⟨x, t⟩ := r
  cases x with
  | ok u => rfl
  | error e => cases e <;> rfl

theorem gen_read_state (d : Bytes → Option Str) (t : Transport) : (GenStream.read d t).2 = (Transport.read d t).2 := by
  rw [← readOutcome_snd, StreamBodiesEq.read_eq]

theorem gen_write_state (t : Transport) (line : Str) (fault : WriteFault) :
    (GenStream.write line fault t).2 = (Transport.write t line fault).2 := by
  rw [← unitOutcome_snd, StreamBodiesEq.write_eq]

theorem gen_disconnect_state (t : Transport) (fault : CloseFault) :
    (GenStream.disconnect fault t).2 = (Transport.disconnect t fault).2 := by
  rw [← unitOutcome_snd, StreamBodiesEq.disconnect_eq]

/-- The translated `read` leaves the connection in place and the writer alone, whatever it returns or raises. -/
theorem gen_read_keeps_writer (d : Bytes → Option Str) (t : Transport) : writerOf (GenStream.read d t).2 = writerOf t := by
  rw [gen_read_state, read_keeps_writer]

theorem genStep_eq (d : Bytes → Option Str) (t : Transport) (s : Step) : genStep d t s = step d t s := by
  cases s with
  | feed c => rfl
  | eof => rfl
  | reset c => rfl
  | read => exact gen_read_state d t
  | write line fault => exact gen_write_state t line fault

theorem genSteps_eq (d : Bytes → Option Str) (ss : List Step) : ∀ t : Transport, genSteps d t ss = steps d t ss := by
  induction ss with
  | nil => intro t; rfl
  | cons s ss ih =>
    intro t
    show genSteps d (genStep d t s) ss = steps d (step d t s) ss
    rw [genStep_eq, ih]

/-- `steps_then_disconnect_closes` about the code as translated: after any history of arrivals, reads and writes
through the translated methods, the translated `disconnect` raises nothing and leaves the writer closed. -/
theorem gen_steps_then_disconnect_closes (L : Nat) (d : Bytes → Option Str) (ss : List Step) (fault : CloseFault)
    (hf : ∀ c, fault ≠ .atClose c) :
    (writerOf (GenStream.disconnect fault (genSteps d (connected L) ss)).2).map (·.closed) = some true
    ∧ (unitOutcome (GenStream.disconnect .clean (genSteps d (connected L) ss))).1 = none := by
  rw [gen_disconnect_state, StreamBodiesEq.disconnect_eq, genSteps_eq]
  exact steps_then_disconnect_closes L d ss fault hf

end AioMySensors.StreamHangup
