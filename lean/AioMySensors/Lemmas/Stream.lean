/-
Helper lemmas for C17: `splitNl`/`readuntil` on a buffer, commutation of a completed read with later
arrivals (chunking independence), the schedule runner, and the reads of a fully fed stream.
-/
import AioMySensors.Model.Stream

namespace AioMySensors.Stream
open AioMySensors

/-! ### Lists -/

theorem take_append_replicate {α : Type} (A : List α) (e : α) (n m : Nat) (h : n ≤ m) :
    (A ++ List.replicate m e).take n = (A ++ List.replicate n e).take n := by
  induction A generalizing n m with
  | nil => simp [List.take_replicate, Nat.min_eq_left h]
  | cons a A ih =>
    cases n with
    | zero => simp
    | succ n =>
      simp only [List.cons_append, List.take_succ_cons, List.cons.injEq, true_and]
      rw [ih n m (by omega), ih n (n + 1) (by omega)]

/-! ### `splitNl` -/

theorem splitNl_line (l rest : Bytes) (h : nl ∉ l) : splitNl (l ++ nl :: rest) = some (l, rest) := by
  induction l with
  | nil => simp [splitNl]
  | cons b bs ih =>
    have hb : b ≠ nl := fun e => h (by simp [e])
    have hbs : nl ∉ bs := fun e => h (by simp [e])
    simp [splitNl, hb, ih hbs]

theorem splitNl_none (t : Bytes) (h : nl ∉ t) : splitNl t = none := by
  induction t with
  | nil => rfl
  | cons b bs ih =>
    have hb : b ≠ nl := fun e => h (by simp [e])
    have hbs : nl ∉ bs := fun e => h (by simp [e])
    simp [splitNl, hb, ih hbs]

theorem splitNl_some_append {b x r : Bytes} (c : Bytes) (h : splitNl b = some (x, r)) :
    splitNl (b ++ c) = some (x, r ++ c) := by
  induction b generalizing x r with
  | nil => simp [splitNl] at h
  | cons a as ih =>
    by_cases ha : a = nl
    · simp [splitNl, ha] at h ⊢
      obtain ⟨rfl, rfl⟩ := h
      simp
    · simp only [splitNl, ha, if_false, List.cons_append] at h ⊢
      cases hs : splitNl as with
      | none => simp [hs] at h
      | some p =>
        obtain ⟨x', r'⟩ := p
        simp only [hs, Option.some.injEq, Prod.mk.injEq] at h
        obtain ⟨rfl, rfl⟩ := h
        simp [ih hs]

/-- If the buffer had no newline, a newline found after appending lies beyond the old buffer. -/
theorem splitNl_none_append {b c x r : Bytes} (h : splitNl b = none) (h2 : splitNl (b ++ c) = some (x, r)) :
    b.length ≤ x.length := by
  induction b generalizing x r with
  | nil => simp
  | cons a as ih =>
    by_cases ha : a = nl
    · simp [splitNl, ha] at h
    · simp only [splitNl, ha, if_false, List.cons_append] at h h2
      cases hs : splitNl as with
      | some p => simp [hs] at h
      | none =>
        cases hs2 : splitNl (as ++ c) with
        | none => simp [hs2] at h2
        | some p =>
          obtain ⟨x', r'⟩ := p
          simp only [hs2, Option.some.injEq, Prod.mk.injEq] at h2
          obtain ⟨rfl, rfl⟩ := h2
          have := ih hs hs2
          simp; omega

/-! ### A completed `readuntil` is not affected by what arrives later -/

theorem readuntil_eof_eq (r : Reader) : r.readuntil.2.eof = r.eof ∧ r.readuntil.2.exc = r.exc ∧
    r.readuntil.2.limit = r.limit := by
  obtain ⟨buf, eof, limit, exc⟩ := r
  unfold Reader.readuntil
  cases exc with
  | some c => simp
  | none =>
    simp only
    cases splitNl buf with
    | some p => obtain ⟨x, rest⟩ := p; by_cases h : x.length ≤ limit <;> simp [h]
    | none =>
      by_cases h : limit < buf.length
      · simp [h]
      · cases eof <;> simp [h]

theorem readuntil_feed (r : Reader) (c : Bytes) (x : Raw) (r' : Reader) (heof : r.eof = false)
    (h : r.readuntil = (x, r')) (hx : x ≠ .wait) : (r.feed c).readuntil = (x, r'.feed c) := by
  obtain ⟨buf, eof, limit, exc⟩ := r
  simp only at heof
  subst heof
  unfold Reader.readuntil at h ⊢
  cases exc with
  | some e =>
    simp only at h
    obtain ⟨rfl, rfl⟩ := Prod.mk.inj h
    rfl
  | none =>
    simp only at h
    simp only [Reader.feed]
    cases hs : splitNl buf with
    | some p =>
      obtain ⟨body, rest⟩ := p
      simp only [hs] at h
      simp only [splitNl_some_append c hs]
      by_cases hl : body.length ≤ limit
      · simp only [hl, if_true] at h ⊢
        obtain ⟨rfl, rfl⟩ := Prod.mk.inj h
        rfl
      · simp only [hl, if_false] at h ⊢
        obtain ⟨rfl, rfl⟩ := Prod.mk.inj h
        rfl
    | none =>
      simp only [hs] at h
      by_cases hl : limit < buf.length
      · simp only [hl, if_true] at h
        obtain ⟨rfl, rfl⟩ := Prod.mk.inj h
        cases hs2 : splitNl (buf ++ c) with
        | some p =>
          obtain ⟨body, rest⟩ := p
          have := splitNl_none_append hs hs2
          have hb : ¬ body.length ≤ limit := by omega
          simp [hb]
        | none =>
          have : limit < (buf ++ c).length := by simp; omega
          simp only [this, if_true]
      · simp only [hl, if_false] at h
        simp at h
        exact absurd h.1.symm hx

theorem feedEof_of_eof (r : Reader) (h : r.eof = true) : r.feedEof = r := by
  cases r; simp_all [Reader.feedEof]

theorem readuntil_feedEof (r : Reader) (x : Raw) (r' : Reader)
    (h : r.readuntil = (x, r')) (hx : x ≠ .wait) : r.feedEof.readuntil = (x, r'.feedEof) := by
  cases heof : r.eof with
  | true =>
    have h2 := (readuntil_eof_eq r).1
    rw [h] at h2
    simp only at h2
    rw [feedEof_of_eof r heof, feedEof_of_eof r' (by rw [h2, heof]), h]
  | false =>
    obtain ⟨buf, eof, limit, exc⟩ := r
    simp only at heof
    subst heof
    unfold Reader.readuntil at h ⊢
    cases exc with
    | some e =>
      simp only at h
      obtain ⟨rfl, rfl⟩ := Prod.mk.inj h
      rfl
    | none =>
      simp only at h
      simp only [Reader.feedEof]
      cases hs : splitNl buf with
      | some p =>
        obtain ⟨body, rest⟩ := p
        simp only [hs] at h
        by_cases hl : body.length ≤ limit
        · simp only [hl, if_true] at h ⊢
          obtain ⟨rfl, rfl⟩ := Prod.mk.inj h
          rfl
        · simp only [hl, if_false] at h ⊢
          obtain ⟨rfl, rfl⟩ := Prod.mk.inj h
          rfl
      | none =>
        simp only [hs] at h
        by_cases hl : limit < buf.length
        · simp only [hl, if_true] at h ⊢
          obtain ⟨rfl, rfl⟩ := Prod.mk.inj h
          rfl
        · simp only [hl, if_false] at h
          simp at h
          exact absurd h.1.symm hx

theorem finish_eq_wait (d : Bytes → Option Str) (x : Raw) : finish d x = .wait ↔ x = .wait := by
  cases x with
  | line b => cases h : d b <;> simp [finish, h]
  | _ => simp [finish]

/-! ### The transport level -/

/-- Has EOF been fed to the transport's reader? -/
def Transport.eofSeen (t : Transport) : Bool :=
  match t.conn with
  | some cn => cn.reader.eof
  | none => false

/-- All arrivals of a schedule, ignoring the reads. -/
def Transport.arriveAll (t : Transport) (evs : List Ev) : Transport := evs.foldl Transport.arrive t

@[simp] theorem arriveAll_nil (t : Transport) : t.arriveAll [] = t := rfl
@[simp] theorem arriveAll_cons (t : Transport) (ev : Ev) (evs : List Ev) :
    t.arriveAll (ev :: evs) = (t.arrive ev).arriveAll evs := rfl

/-- The flag after an event, as `WF` threads it. -/
def nextFlag (b : Bool) : Ev → Bool
  | .eof => true
  | _ => b

theorem WF_cons {b : Bool} {ev : Ev} {evs : List Ev} (h : WF b (ev :: evs)) : WF (nextFlag b ev) evs := by
  cases ev with
  | feed c => exact h.2
  | eof => exact h
  | read => exact h

theorem eofSeen_arrive (t : Transport) (ev : Ev) (b : Bool) (h : t.eofSeen = true → b = true) :
    (t.arrive ev).eofSeen = true → nextFlag b ev = true := by
  cases ev with
  | feed c =>
    cases hc : t.conn with
    | none => simp [Transport.arrive, Transport.eofSeen, hc, nextFlag]
    | some cn => simpa [Transport.arrive, Transport.eofSeen, hc, nextFlag, Reader.feed] using h
  | eof => simp [nextFlag]
  | read => simpa [Transport.arrive, nextFlag] using h

theorem read_eofSeen (d : Bytes → Option Str) (t : Transport) : (Transport.read d t).2.eofSeen = t.eofSeen := by
  unfold Transport.read
  cases hc : t.conn with
  | none => simp [Transport.eofSeen, hc]
  | some cn => simp [Transport.eofSeen, hc, (readuntil_eof_eq cn.reader).1]

/-- **Key step of chunking independence**: a read that completed would have completed with the
same result had the next chunk (or EOF) already arrived, and leaves the same state behind. -/
theorem read_arrive (d : Bytes → Option Str) (t t' : Transport) (x : ReadRes) (ev : Ev)
    (hev : ∀ c, ev = .feed c → t.eofSeen = false)
    (h : Transport.read d t = (x, t')) (hx : x ≠ .wait) :
    Transport.read d (t.arrive ev) = (x, t'.arrive ev) := by
  unfold Transport.read at h
  cases hc : t.conn with
  | none =>
    simp only [hc] at h
    obtain ⟨rfl, rfl⟩ := Prod.mk.inj h
    cases ev <;> simp [Transport.arrive, Transport.read, hc]
  | some cn =>
    simp only [hc] at h
    cases hr : cn.reader.readuntil with
    | mk raw r' =>
      simp only [hr] at h
      obtain ⟨rfl, rfl⟩ := Prod.mk.inj h
      have hraw : raw ≠ .wait := fun e => hx ((finish_eq_wait d raw).2 e)
      cases ev with
      | feed c =>
        have he : cn.reader.eof = false := by simpa [Transport.eofSeen, hc] using hev c rfl
        simp [Transport.arrive, Transport.read, hc, readuntil_feed _ c _ _ he hr hraw]
      | eof =>
        simp [Transport.arrive, Transport.read, hc, readuntil_feedEof _ _ _ hr hraw]
      | read => simp [Transport.arrive, Transport.read, hc, hr]

theorem read_arriveAll (d : Bytes → Option Str) (evs : List Ev) (b : Bool) (t t' : Transport) (x : ReadRes)
    (hb : t.eofSeen = true → b = true) (hwf : WF b evs)
    (h : Transport.read d t = (x, t')) (hx : x ≠ .wait) :
    Transport.read d (t.arriveAll evs) = (x, t'.arriveAll evs) := by
  induction evs generalizing b t t' with
  | nil => simpa using h
  | cons ev evs ih =>
    simp only [arriveAll_cons]
    have hev : ∀ c, ev = .feed c → t.eofSeen = false := by
      intro c hc
      subst hc
      have : b = false := hwf.1
      cases hs : t.eofSeen with
      | false => rfl
      | true => have := hb hs; simp_all
    exact ih (nextFlag b ev) _ _ (eofSeen_arrive t ev b hb) (WF_cons hwf) (read_arrive d t t' x ev hev h hx)

theorem readN_succ_wait (d : Bytes → Option Str) (n : Nat) (t t' : Transport)
    (h : Transport.read d t = (.wait, t')) : Transport.readN d (n + 1) t = ([], t) := by
  simp [Transport.readN, h]

theorem readN_succ_ne_wait (d : Bytes → Option Str) (n : Nat) (t t' : Transport) (x : ReadRes)
    (h : Transport.read d t = (x, t')) (hx : x ≠ .wait) :
    Transport.readN d (n + 1) t = (x :: (Transport.readN d n t').1, (Transport.readN d n t').2) := by
  cases x with
  | wait => exact absurd rfl hx
  | ok s => simp [Transport.readN, h]
  | err e => simp [Transport.readN, h]

theorem readN_eofSeen (d : Bytes → Option Str) (n : Nat) (t : Transport) :
    (Transport.readN d n t).2.eofSeen = t.eofSeen := by
  induction n generalizing t with
  | zero => rfl
  | succ n ih =>
    cases hr : Transport.read d t with
    | mk x t' =>
      by_cases hx : x = .wait
      · subst hx; rw [readN_succ_wait d n t t' hr]
      · rw [readN_succ_ne_wait d n t t' x hr hx]
        simp only [ih t']
        have := read_eofSeen d t
        rw [hr] at this
        exact this

theorem readN_length_le (d : Bytes → Option Str) (n : Nat) (t : Transport) :
    (Transport.readN d n t).1.length ≤ n := by
  induction n generalizing t with
  | zero => simp [Transport.readN]
  | succ n ih =>
    cases hr : Transport.read d t with
    | mk x t' =>
      by_cases hx : x = .wait
      · subst hx; rw [readN_succ_wait d n t t' hr]; simp
      · rw [readN_succ_ne_wait d n t t' x hr hx]
        have := ih t'
        simp; omega

/-- After serving what can be served, the remaining requests (if any) wait. -/
theorem readN_stable (d : Bytes → Option Str) (n : Nat) (t : Transport) :
    (Transport.readN d (n - (Transport.readN d n t).1.length) (Transport.readN d n t).2).1 = [] := by
  induction n generalizing t with
  | zero => simp [Transport.readN]
  | succ n ih =>
    cases hr : Transport.read d t with
    | mk x t' =>
      by_cases hx : x = .wait
      · subst hx
        rw [readN_succ_wait d n t t' hr]
        simp [readN_succ_wait d n t t' hr]
      · rw [readN_succ_ne_wait d n t t' x hr hx]
        simpa using ih t'

/-- Serving `p` requests now and the rest after the arrivals equals serving all of them after the
arrivals. -/
theorem readN_arriveAll (d : Bytes → Option Str) (evs : List Ev) (b : Bool) (p m : Nat) (t : Transport)
    (hb : t.eofSeen = true → b = true) (hwf : WF b evs) :
    (Transport.readN d (p + m) (t.arriveAll evs)).1 =
      (Transport.readN d p t).1 ++
        (Transport.readN d (p - (Transport.readN d p t).1.length + m) ((Transport.readN d p t).2.arriveAll evs)).1 := by
  induction p generalizing t with
  | zero => simp [Transport.readN]
  | succ p ih =>
    cases hr : Transport.read d t with
    | mk x t' =>
      by_cases hx : x = .wait
      · subst hx
        rw [readN_succ_wait d p t t' hr]
        simp
      · rw [readN_succ_ne_wait d p t t' x hr hx]
        have hr2 := read_arriveAll d evs b t t' x hb hwf hr hx
        have hb' : t'.eofSeen = true → b = true := by
          have := read_eofSeen d t
          rw [hr] at this
          simpa [this] using hb
        have e : p + 1 + m = (p + m) + 1 := by omega
        rw [e, readN_succ_ne_wait d (p + m) _ _ x hr2 hx]
        simp only [List.length_cons, Nat.add_sub_add_right, List.cons_append, List.cons.injEq, true_and]
        exact ih t' hb'

/-- **Chunking independence of the runner**: the completed reads of a schedule are those obtained
by first letting everything arrive and then asking for the same number of lines. -/
theorem run_eq (d : Bytes → Option Str) (evs : List Ev) (b : Bool) (t : Transport) (p : Nat)
    (hb : t.eofSeen = true → b = true) (hwf : WF b evs) (hst : (Transport.readN d p t).1 = []) :
    Transport.run d t p evs = (Transport.readN d (p + readsOf evs) (t.arriveAll evs)).1 := by
  induction evs generalizing b t p with
  | nil => simp [Transport.run, readsOf, hst]
  | cons ev evs ih =>
    simp only [Transport.run, readsOf, arriveAll_cons]
    have hb1 := eofSeen_arrive t ev b hb
    have hwf1 := WF_cons hwf
    have key := readN_arriveAll d evs (nextFlag b ev) (p + ev.reads) (readsOf evs) (t.arrive ev) hb1 hwf1
    have hb2 : (Transport.readN d (p + ev.reads) (t.arrive ev)).2.eofSeen = true → nextFlag b ev = true := by
      rw [readN_eofSeen]; exact hb1
    have hi := ih (nextFlag b ev) (Transport.readN d (p + ev.reads) (t.arrive ev)).2
      (p + ev.reads - (Transport.readN d (p + ev.reads) (t.arrive ev)).1.length) hb2 hwf1
      (readN_stable d _ _)
    rw [hi, ← Nat.add_assoc, key]

theorem run_append_prefix (d : Bytes → Option Str) (e1 e2 : List Ev) (t : Transport) (p : Nat) :
    ∃ ys, Transport.run d t p (e1 ++ e2) = Transport.run d t p e1 ++ ys := by
  induction e1 generalizing t p with
  | nil => exact ⟨Transport.run d t p e2, by simp [Transport.run]⟩
  | cons ev evs ih =>
    simp only [List.cons_append, Transport.run]
    obtain ⟨ys, hys⟩ := ih (Transport.readN d (p + ev.reads) (t.arrive ev)).2
      (p + ev.reads - (Transport.readN d (p + ev.reads) (t.arrive ev)).1.length)
    exact ⟨ys, by rw [hys, List.append_assoc]⟩

theorem run_length_le (d : Bytes → Option Str) (evs : List Ev) (t : Transport) (p : Nat) :
    (Transport.run d t p evs).length ≤ p + readsOf evs := by
  induction evs generalizing t p with
  | nil => simp [Transport.run]
  | cons ev evs ih =>
    simp only [Transport.run, readsOf, List.length_append]
    have h1 := readN_length_le d (p + ev.reads) (t.arrive ev)
    have h2 := ih (Transport.readN d (p + ev.reads) (t.arrive ev)).2
      (p + ev.reads - (Transport.readN d (p + ev.reads) (t.arrive ev)).1.length)
    omega

/-! ### The state after everything has arrived -/

def hasEof : List Ev → Bool
  | [] => false
  | .eof :: _ => true
  | _ :: evs => hasEof evs

theorem hasEof_iff (evs : List Ev) : hasEof evs = true ↔ Ev.eof ∈ evs := by
  induction evs with
  | nil => simp [hasEof]
  | cons ev evs ih => cases ev <;> simp [hasEof, ih]

theorem arriveAll_conn (evs : List Ev) (r : Reader) (w : Writer) :
    Transport.arriveAll { conn := some { reader := r, writer := w } } evs =
      { conn := some { reader := { r with buf := r.buf ++ (feedsOf evs).flatten, eof := r.eof || hasEof evs },
                       writer := w } } := by
  induction evs generalizing r with
  | nil => simp [feedsOf, hasEof]
  | cons ev evs ih =>
    cases ev with
    | feed c => simp [Transport.arrive, Reader.feed, ih, feedsOf, hasEof]
    | eof => simp [Transport.arrive, Reader.feedEof, ih, feedsOf, hasEof]
    | read => simp [Transport.arrive, ih, feedsOf, hasEof]

/-! ### Reading a completely fed stream -/

/-- The bytes of a list of line bodies, each followed by its newline. -/
def joinLines : List Bytes → Bytes
  | [] => []
  | l :: ls => l ++ nl :: joinLines ls

/-- What `n` successive `readuntil`s give on a stream consisting of the complete lines `ls` and the
unterminated rest `tail`, after EOF. -/
def specRaw (L : Nat) : List Bytes → Bytes → Nat → List Raw
  | _, _, 0 => []
  | [], tail, n + 1 =>
    if L < tail.length then List.replicate (n + 1) .limitOverrun
    else .incomplete tail :: List.replicate n (.incomplete [])
  | l :: ls, tail, n + 1 =>
    if l.length ≤ L then .line (l ++ [nl]) :: specRaw L ls tail n
    else List.replicate (n + 1) .limitOverrun

/-- The fully fed transport. -/
def fed (L : Nat) (buf : Bytes) (w : Writer) : Transport :=
  { conn := some { reader := { buf := buf, eof := true, limit := L }, writer := w } }

theorem readN_stuck (d : Bytes → Option Str) (n : Nat) (t : Transport) (x : ReadRes)
    (h : Transport.read d t = (x, t)) (hx : x ≠ .wait) :
    (Transport.readN d n t).1 = List.replicate n x := by
  induction n with
  | zero => rfl
  | succ n ih => rw [readN_succ_ne_wait d n t t x h hx, ih, List.replicate_succ]

theorem finish_ne_wait (d : Bytes → Option Str) (x : Raw) (h : x ≠ .wait) : finish d x ≠ .wait :=
  fun e => h ((finish_eq_wait d x).1 e)

theorem readN_fed (d : Bytes → Option Str) (L : Nat) (ls : List Bytes) (tail : Bytes) (w : Writer)
    (hls : ∀ l ∈ ls, nl ∉ l) (ht : nl ∉ tail) (n : Nat) :
    (Transport.readN d n (fed L (joinLines ls ++ tail) w)).1 = (specRaw L ls tail n).map (finish d) := by
  induction ls generalizing n with
  | nil =>
    cases n with
    | zero => rfl
    | succ n =>
      simp only [joinLines, List.nil_append, specRaw]
      by_cases hl : L < tail.length
      · have hr : Transport.read d (fed L tail w) = (finish d .limitOverrun, fed L tail w) := by
          simp [Transport.read, fed, Reader.readuntil, splitNl_none tail ht, hl]
        rw [readN_stuck d _ _ _ hr (finish_ne_wait d _ (by simp))]
        simp [hl]
      · have hr : Transport.read d (fed L tail w) = (finish d (.incomplete tail), fed L [] w) := by
          simp [Transport.read, fed, Reader.readuntil, splitNl_none tail ht, hl]
        have hr2 : Transport.read d (fed L [] w) = (finish d (.incomplete []), fed L [] w) := by
          simp [Transport.read, fed, Reader.readuntil, splitNl]
        rw [readN_succ_ne_wait d n _ _ _ hr (finish_ne_wait d _ (by simp)),
          readN_stuck d _ _ _ hr2 (finish_ne_wait d _ (by simp))]
        simp [hl]
  | cons l ls ih =>
    cases n with
    | zero => rfl
    | succ n =>
      have hl0 : nl ∉ l := hls l (by simp)
      have hsplit : splitNl (joinLines (l :: ls) ++ tail) = some (l, joinLines ls ++ tail) := by
        simp only [joinLines, List.append_assoc, List.cons_append]
        exact splitNl_line l _ hl0
      simp only [specRaw]
      by_cases hl : l.length ≤ L
      · have hr : Transport.read d (fed L (joinLines (l :: ls) ++ tail) w) =
            (finish d (.line (l ++ [nl])), fed L (joinLines ls ++ tail) w) := by
          simp [Transport.read, fed, Reader.readuntil, hsplit, hl]
        rw [readN_succ_ne_wait d n _ _ _ hr (finish_ne_wait d _ (by simp)),
          ih (fun l' h' => hls l' (by simp [h'])) n]
        simp [hl]
      · have hr : Transport.read d (fed L (joinLines (l :: ls) ++ tail) w) =
            (finish d .limitOverrun, fed L (joinLines (l :: ls) ++ tail) w) := by
          simp [Transport.read, fed, Reader.readuntil, hsplit, hl]
        rw [readN_stuck d _ _ _ hr (finish_ne_wait d _ (by simp))]
        simp [hl]

/-! ### Every byte string is, in exactly one way, complete lines followed by an unterminated rest -/

/-- The complete lines (bodies) of a stream and the unterminated rest. -/
def splitLines : Bytes → List Bytes × Bytes
  | [] => ([], [])
  | b :: bs =>
    match splitLines bs with
    | (ls, t) =>
      if b = nl then ([] :: ls, t)
      else match ls with
        | [] => ([], b :: t)
        | l :: ls' => ((b :: l) :: ls', t)

theorem splitLines_spec (s : Bytes) :
    s = joinLines (splitLines s).1 ++ (splitLines s).2 ∧ (∀ l ∈ (splitLines s).1, nl ∉ l) ∧ nl ∉ (splitLines s).2 := by
  induction s with
  | nil => simp [splitLines, joinLines]
  | cons b bs ih =>
    obtain ⟨h1, h2, h3⟩ := ih
    simp only [splitLines]
    cases hsl : splitLines bs with
    | mk ls t =>
      rw [hsl] at h1 h2 h3
      simp only at h1 h2 h3
      by_cases hb : b = nl
      · subst hb
        simp only [if_true, joinLines, List.nil_append]
        refine ⟨by rw [h1]; rfl, ?_, h3⟩
        intro l hl
        rcases List.mem_cons.1 hl with rfl | hl
        · simp
        · exact h2 l hl
      · simp only [hb, if_false]
        cases ls with
        | nil =>
          simp only [joinLines, List.nil_append] at h1 ⊢
          refine ⟨by rw [h1], by simp, ?_⟩
          intro hm
          rcases List.mem_cons.1 hm with e | e
          · exact hb e.symm
          · exact h3 e
        | cons l ls' =>
          simp only [joinLines, List.cons_append] at h1 ⊢
          refine ⟨by rw [h1], ?_, h3⟩
          intro l' hl'
          rcases List.mem_cons.1 hl' with rfl | hl'
          · intro hm
            rcases List.mem_cons.1 hm with e | e
            · exact hb e.symm
            · exact h2 l (by simp) e
          · exact h2 l' (by simp [hl'])

/-- The decomposition is unique. -/
theorem joinLines_inj (ls ls' : List Bytes) (t t' : Bytes) (hls : ∀ l ∈ ls, nl ∉ l) (hls' : ∀ l ∈ ls', nl ∉ l)
    (ht : nl ∉ t) (ht' : nl ∉ t') (h : joinLines ls ++ t = joinLines ls' ++ t') : ls = ls' ∧ t = t' := by
  induction ls generalizing ls' with
  | nil =>
    cases ls' with
    | nil => simpa [joinLines] using h
    | cons l' ls' =>
      exfalso
      simp only [joinLines, List.nil_append] at h
      apply ht
      rw [h]
      simp
  | cons l ls ih =>
    cases ls' with
    | nil =>
      exfalso
      simp only [joinLines, List.nil_append] at h
      apply ht'
      rw [← h]
      simp
    | cons l' ls' =>
      have h1 := splitNl_line l (joinLines ls ++ t) (hls l (by simp))
      have h2 := splitNl_line l' (joinLines ls' ++ t') (hls' l' (by simp))
      simp only [joinLines, List.append_assoc, List.cons_append] at h
      rw [h, h2] at h1
      simp only [Option.some.injEq, Prod.mk.injEq] at h1
      obtain ⟨rfl, h3⟩ := h1
      obtain ⟨rfl, rfl⟩ := ih ls' (fun x hx => hls x (by simp [hx])) (fun x hx => hls' x (by simp [hx])) h3.symm
      exact ⟨rfl, rfl⟩

end AioMySensors.Stream
