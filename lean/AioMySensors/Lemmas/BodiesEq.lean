/-
The tie between the generated handler bodies (`Generated/Bodies.lean`, written by `tools/translate.py`
from the Python of the working tree on every run) and the hand-written handlers of `Model/Handlers.lean`
that every gateway-level theorem speaks about: each generated definition is proved EQUAL to its
hand-written counterpart, for every message, environment and world.  When the Python of a handler
changes, its generated definition changes and the equality below is re-checked against the new text.
-/
import AioMySensors.Generated.Bodies
import AioMySensors.Lemmas.PDict

set_option linter.unusedSimpArgs false

namespace AioMySensors.BodiesEq
open AioMySensors M

attribute [local simp] Lit.nodeIn Lit.updateNode Lit.nodeAt Lit.storeNode Lit.nodeGet Lit.childIn Lit.childAt Lit.liftE
  Lit.newNode Lit.newChild Lit.ibufHas Lit.ibufSet Lit.ibufPop Lit.sbufSet Lit.sbufHolds Lit.sbufPop Lit.versionUnknown
  Lit.nodesNonEmpty Lit.maxNodeKey Lit.pyIntE Lit.liftPy
  requireNode setNode M.bind M.seq M.getSt M.pure M.raise M.modifySt PDict.has PDict.get?_set_self PDict.set_set_self
  Gen.systemChildId Gen.cmdInternal Gen.cmdSet Gen.iReboot Gen.iVersion Gen.iIdResponse Gen.iDiscover Gen.iPresentation
  Gen.iLogMessage Gen.iGatewayReady Gen.broadcastId Gen.sArduinoNode Gen.maxNodeId
  Gen.bufVersionQuery Gen.bufPresentationRequest Gen.bufReboot Gen.bufReqReply Gen.bufIdResponse Gen.bufConfig
  Gen.bufTime Gen.bufDiscover Gen.bufFlush

/-- `x = await f(...); return x` is `return await f(...)`. -/
theorem bind_pure (x : M α) : (bind x fun a => pure a) = x := by
  funext w
  simp only [M.bind, M.pure]
  cases h : x w with
  | mk r w' => cases r <;> rfl

/-- The `except` tuples of the handlers, as the generated tables hold them, written out: the translated bodies carry the
same tuples as literals (both are read from the same clause, so they agree in whatever order the classes are written). -/
local macro "clause_lit" "at" h:ident : tactic =>
  `(tactic| simp only [clause, Gen.excBattery, Gen.excVersion, Gen.excHeartbeat20, Gen.excHeartbeat22,
      List.getD_cons_zero] at $h:ident)

/-! ### `model/node.py` -/

theorem add_child_eq (c t : Int) (d : Str) (n : Node) :
    GenBodies.Node.add_child c t d n = .ok { n with children := n.children.set c ⟨c, t, d, []⟩ } := by
  simp [GenBodies.Node.add_child]

theorem set_child_value_eq (c t : Int) (p : Str) (n : Node) :
    GenBodies.Node.set_child_value c t p n =
      match n.children.get? c with
      | none => .error (.lib (.missingChild c))
      | some ch => .ok { n with children := n.children.set c { ch with values := ch.values.set t p } } := by
  cases h : n.children.get? c <;> simp [GenBodies.Node.set_child_value, h]

theorem outPresentation14_eq : GenBodies.outPresentation14 = fun m _ => transportWrite (encode m) := rfl
theorem outReq14_eq : GenBodies.outReq14 = fun m _ => transportWrite (encode m) := rfl
theorem outInternal14_eq : GenBodies.outInternal14 = fun m _ => transportWrite (encode m) := rfl
theorem outStream14_eq : GenBodies.outStream14 = fun m _ => transportWrite (encode m) := rfl

/-- `Gateway.send` after the dump = the generated outgoing handler of the active protocol. -/
theorem gwSend'_eq : GenBodies.gwSend' = gwSend := by
  funext m b w
  simp only [GenBodies.gwSend', gwSend, M.bind, M.getSt]
  cases h : (Gen.outgoingHandlers w.st.proto).lookup m.cmd with
  | none => rfl
  | some o =>
    cases o with
    | none => rfl
    | some ob =>
      cases ob with
      | direct => rfl
      | set14 =>
        simp only [GenBodies.outBody, GenBodies.outSet14]
        cases hn : w.st.nodes.get? m.node with
        | none => simp [hn]
        | some node => cases b <;> cases hs : node.sleeping <;> simp [hn, hs, Msg.key]

theorem apiSendGen_eq (obj : Option Msg) (b : Bool) : GenBodies.apiSendGen obj b = apiSend obj b := by
  cases obj with
  | none => rfl
  | some m => exact congrFun (congrFun gwSend'_eq m) b

attribute [local simp] gwSend'_eq


/-! ### the sleep buffer: release loop and the outgoing handlers -/

/-- One iteration of the release loop, as the model has it: write the held command, then drop the entry if it is
still the one that was written. -/
def flushStep (kb : Key × Msg) : M Unit :=
  seq (gwSend kb.2 Gen.bufFlush)
    (modifySt fun s => if s.sbuf.get? kb.1 = some kb.2 then { s with sbuf := s.sbuf.erase kb.1 } else s)

theorem forEach_flushStep (l : List (Key × Msg)) : Lit.forEach l flushStep = flushList l := by
  induction l with
  | nil => rfl
  | cons x xs ih =>
    obtain ⟨k, bm⟩ := x
    simp only [Lit.forEach, flushList, ih, flushStep]
    funext w
    simp only [M.seq, M.bind]
    obtain ⟨r, w'⟩ := gwSend bm Gen.bufFlush w
    cases r <;> rfl

/-- `_handle_sleep_buffer` in whatever spelling: a snapshot of the entries selected by `P`, a loop over it with body `B`,
the message returned.  It is the model's `flush` as soon as `P` selects the woken node's entries and one iteration is
`flushStep` (both shown pointwise below, so the operands of the comparison, the polarity of the test and `continue`
versus a nested `if` do not matter). -/
theorem flush_of (m : Msg) (P : Key × Msg → Bool) (B : Key × Msg → M Unit)
    (hP : ∀ kb, P kb = (kb.2.node == m.node)) (hB : ∀ kb, B kb = flushStep kb) :
    (bind (Lit.sbufSnapshot P) fun l => seq (Lit.forEach l B) (pure m)) = flush m := by
  have hP' : P = fun e => e.2.node == m.node := funext hP
  have hB' : B = flushStep := funext hB
  subst hP' hB'
  funext w
  simp only [flush, Lit.sbufSnapshot, forEach_flushStep]
  simp

theorem sleepBuffer20_eq : GenBodies.sleepBuffer20 = flush := by
  funext m
  unfold GenBodies.sleepBuffer20
  refine flush_of m _ _ ?_ ?_
  · intro kb
    first
      | rfl
      | exact BEq.comm
      | (by_cases h : m.node = kb.2.node
         · simp [h]
         · have h' : ¬ kb.2.node = m.node := fun e => h e.symm
           simp [h, h'])
  · intro kb
    funext w
    simp only [flushStep, M.seq, M.bind, gwSend'_eq, Gen.bufFlush]
    obtain ⟨r, w'⟩ := gwSend kb.2 false w
    cases r with
    | error e => rfl
    | ok u =>
      by_cases h : w'.st.sbuf.get? kb.1 = some kb.2
      · simp [h]
      · simp [h]

attribute [local simp] sleepBuffer20_eq

/-! ### report handlers of `protocol_14` -/

theorem set14_eq : GenBodies.set14 = hSet := by
  funext m w
  cases h : w.st.nodes.get? m.node with
  | none => simp [GenBodies.set14, hSet, h]
  | some node =>
    cases hc : node.children.get? m.child with
    | none => simp [GenBodies.set14, hSet, h, hc]
    | some child =>
      cases hr : node.reboot <;> simp [GenBodies.set14, hSet, h, hc, hr, set_child_value_eq]

theorem req14_eq : GenBodies.req14 = hReq := by
  funext m w
  cases h : w.st.nodes.get? m.node with
  | none => simp [GenBodies.req14, hReq, h]
  | some node =>
    cases hc : node.children.get? m.child with
    | none => simp [GenBodies.req14, hReq, h, hc]
    | some child =>
      cases hv : child.values.get? m.type <;> simp [GenBodies.req14, hReq, h, hc, hv]

theorem iSketchName14_eq : GenBodies.iSketchName14 = hSketchName := by
  funext m w
  cases h : w.st.nodes.get? m.node <;> simp [GenBodies.iSketchName14, hSketchName, h]

theorem iSketchVersion14_eq : GenBodies.iSketchVersion14 = hSketchVersion := by
  funext m w
  cases h : w.st.nodes.get? m.node <;> simp [GenBodies.iSketchVersion14, hSketchVersion, h]

theorem iDiscoverResponse20_eq : GenBodies.iDiscoverResponse20 = hDiscoverResponse := by
  funext m w
  cases h : w.st.nodes.get? m.node <;> simp [GenBodies.iDiscoverResponse20, hDiscoverResponse, h]

theorem iGatewayReady20_eq : GenBodies.iGatewayReady20 = hGatewayReady := by
  funext m w
  simp [GenBodies.iGatewayReady20, hGatewayReady]

theorem iConfig14_eq (env : Env) : GenBodies.iConfig14 env = hConfig env := by
  funext m w
  cases h : env.metric <;> simp [GenBodies.iConfig14, hConfig, h]

theorem iTime14_eq (env : Env) : GenBodies.iTime14 env = hTime env := by
  funext m w
  simp [GenBodies.iTime14, hTime]

theorem iBatteryLevel14_eq : GenBodies.iBatteryLevel14 = hBattery := by
  funext m w
  cases h : w.st.nodes.get? m.node with
  | none => simp [GenBodies.iBatteryLevel14, hBattery, h]
  | some node =>
    cases hp : pyRoundFloat m.payload with
    | error c =>
      -- the classes of the `except` tuple in whatever order they are written
      cases hc : pyCaught c (clause Gen.excBattery 0) <;> clause_lit at hc <;>
        simp [GenBodies.iBatteryLevel14, hBattery, h, hp, clause, Gen.excBattery, convertExn, hc]
    | ok level =>
      -- the range test may be spelled `not lo <= x <= hi`, `x < lo or x > hi`, `lo <= x and x <= hi` with the branches
      -- exchanged, …: split on the two atomic comparisons and give simp each of them in both spellings
      rcases (by omega : ((0 : Int) ≤ level ∧ ¬ level < (0 : Int)) ∨ (¬ (0 : Int) ≤ level ∧ level < (0 : Int)))
        with ⟨a1, a2⟩ | ⟨a1, a2⟩ <;>
      rcases (by omega : (level ≤ (100 : Int) ∧ ¬ (100 : Int) < level) ∨ (¬ level ≤ (100 : Int) ∧ (100 : Int) < level))
        with ⟨b1, b2⟩ | ⟨b1, b2⟩ <;>
      simp [GenBodies.iBatteryLevel14, hBattery, h, hp, convertExn, Gen.minBattery, Gen.maxBattery, a1, a2, b1, b2]

theorem iHeartbeatResponse22_eq : GenBodies.iHeartbeatResponse22 = hHeartbeat22 := by
  funext m w
  have hv : pyCaught .ValueError (clause Gen.excHeartbeat22 0) = true := by decide
  clause_lit at hv
  simp only [GenBodies.iHeartbeatResponse22, bind_pure]
  cases h : w.st.nodes.get? m.node with
  | none => simp [hHeartbeat22, h]
  | some node =>
    cases hp : pyInt? m.payload <;>
      simp [hHeartbeat22, heartbeatValue, h, hp, clause, Gen.excHeartbeat22, hv, convertExn]

theorem iHeartbeatResponse20_eq : GenBodies.iHeartbeatResponse20 = hHeartbeat20 := by
  funext m w
  have hv : pyCaught .ValueError (clause Gen.excHeartbeat20 0) = true := by decide
  clause_lit at hv
  simp only [GenBodies.iHeartbeatResponse20, bind_pure]
  cases h : w.st.nodes.get? m.node with
  | none => simp [hHeartbeat20, h]
  | some node =>
    cases hp : pyInt? m.payload <;>
      simp [hHeartbeat20, heartbeatValue, h, hp, clause, Gen.excHeartbeat20, hv, convertExn]

theorem iPreSleepNotification22_eq : GenBodies.iPreSleepNotification22 = hPreSleep22 := by
  funext m w
  simp only [GenBodies.iPreSleepNotification22, bind_pure]
  cases h : w.st.nodes.get? m.node <;> simp [hPreSleep22, h]

theorem defaultVersion_chars : Gen.defaultVersionStr.toList = [Char.ofNat 49, Char.ofNat 46, Char.ofNat 52] := by decide

theorem iIdRequest14_eq : GenBodies.iIdRequest14 = hIdRequest := by
  funext m w
  cases hn : w.st.nodes with
  | nil =>
    simp [GenBodies.iIdRequest14, hIdRequest, allocNode, nextId, placeholderNode, PDict.keys, hn, defaultVersion_chars]
  | cons x xs =>
    by_cases hb : List.foldl max x.1 (List.map (fun e => e.1) xs) + 1 > 254
    · simp [GenBodies.iIdRequest14, hIdRequest, allocNode, nextId, placeholderNode, PDict.keys, hn, defaultVersion_chars, hb]
    · simp [GenBodies.iIdRequest14, hIdRequest, allocNode, nextId, placeholderNode, PDict.keys, hn, defaultVersion_chars, hb]

/-! ### the version report and the `protocol_version` setter of `gateway.py` -/

theorem setProtocolVersion_eq (value : Str) :
    GenBodies.setProtocolVersion value =
      bind (Lit.liftPy (getProtocolE value)) fun v => modifySt fun s => { s with pv := some value, proto := v } := by
  funext w
  cases h : getProtocolE value <;> simp [GenBodies.setProtocolVersion, h]

theorem iVersion14_eq : GenBodies.iVersion14 = hVersion := by
  funext m w
  cases h : getProtocolE m.payload with
  | ok v =>
    simp [GenBodies.iVersion14, hVersion, setProtocolVersion_eq, Lit.catchTo, M.tryCatch, convertExn, clause, Gen.excVersion, h]
  | error c =>
    -- the classes of the `except` tuple in whatever order they are written
    cases hc : pyCaught c (clause Gen.excVersion 0) <;> clause_lit at hc <;>
      simp [GenBodies.iVersion14, hVersion, setProtocolVersion_eq, Lit.catchTo, M.tryCatch, convertExn, clause, Gen.excVersion, h, hc]

/-! ### the two decorators -/

/-- What the `finally` clause of `handle_missing_protocol_version` does for the message `x` it looks at, however its
condition is spelled (one conjunction, nested `if`s, De Morgan's form, the type tuple in any order): decided by cases on
the stored version and on the three atomic comparisons. -/
theorem wrapMissingPV_eq : GenBodies.wrapMissingPV = wrapMissingPV := by
  funext inner m
  unfold GenBodies.wrapMissingPV wrapMissingPV
  congr 1
  funext r w'
  cases r <;> simp only []
  all_goals
    rename_i x
    first
    | (cases hp : w'.st.pv <;> by_cases h1 : x.cmd = 3 <;> by_cases h2 : x.type = 9 <;> by_cases h3 : x.type = 14 <;>
        simp [wantsVersionQuery, versionQuery, hp, h1, h2, h3] <;> rfl)
    | (cases hp : w'.st.pv <;> by_cases h1 : m.cmd = 3 <;> by_cases h2 : m.type = 9 <;> by_cases h3 : m.type = 14 <;>
        simp [wantsVersionQuery, versionQuery, hp, h1, h2, h3] <;> rfl)

/-- The `except` tuple of `handle_missing_node_child` as the translator read it is the generated table (in whatever
order the classes are written): both sides are evaluated per exception. -/
theorem wrapMissingNC_eq : GenBodies.wrapMissingNC = wrapMissingNC := by
  funext inner m
  unfold GenBodies.wrapMissingNC wrapMissingNC
  congr 1
  funext e
  have hcaught : ∀ (A B : M Msg), A = B →
      ∀ l : List String, l.contains "MissingNodeError" = Gen.excMissingNC.contains "MissingNodeError" →
        l.contains "MissingChildError" = Gen.excMissingNC.contains "MissingChildError" →
        l.contains "InvalidMessageError" = false → l.contains "TooManyNodesError" = false →
        l.contains "UnsupportedMessageError" = false → l.contains "TransportFailedError" = false →
        (if Lit.libCaught e l then some A else none) = (if missingCaught e then some B else none) := by
    intro A B hAB l h1 h2 h3 h4 h5 h6
    subst hAB
    cases e with
    | foreign c => rfl
    | lib l' =>
      cases l' <;> simp only [Lit.libCaught, missingCaught, h1, h2, h3, h4, h5, h6, Bool.false_eq_true, if_false] <;> rfl
  apply hcaught _ _ _ _ (by decide) (by decide) (by decide) (by decide) (by decide) (by decide)
  funext w
  cases hi : w.st.ibuf.get? (m.node, 255, 19) <;>
    simp [presentationRequest, Msg.key, hi]
  -- what remains (if anything, depending on how the branch is spelled) is a case split on the request's write
  all_goals first
    | done
    | (generalize gwSend _ false w = r
       obtain ⟨r, w'⟩ := r
       cases r <;> rfl)

theorem presentation20_eq : GenBodies.presentation20 = prePresentation20 := by
  funext m w
  cases h : w.st.ibuf.get? (m.node, m.child, 19) <;> simp [GenBodies.presentation20, prePresentation20, h]

/-! ### the whole receive path assembled from the generated bodies

`recvGen` is `recv` with every handler body, both decorators and the release loop replaced by the text the
translator produced from the Python on this run; what remains hand-written is the glue that the generated
tables drive (`applyLayers`, `dispatch`, `runTyped`) and the codec.  `recvGen_eq` shows it is the `recv` of
`Model/Handlers.lean`, so every theorem about `recv` is a theorem about the translated code. -/

theorem leafGen_eq (env : Env) (b : Body) : GenBodies.leafGen env b = runLeaf env b := by
  cases b <;> simp only [GenBodies.leafGen, runLeaf, iVersion14_eq, iIdRequest14_eq, iConfig14_eq, iTime14_eq, iBatteryLevel14_eq,
    iSketchName14_eq, iSketchVersion14_eq, iGatewayReady20_eq, iDiscoverResponse20_eq, iHeartbeatResponse20_eq,
    iHeartbeatResponse22_eq, iPreSleepNotification22_eq, set14_eq, req14_eq]

theorem preGen_eq (b : Body) : GenBodies.preGen b = runPre b := by
  cases b <;> simp only [GenBodies.preGen, runPre, presentation20_eq]

theorem applyLayersGen_eq (layers : List Layer) (base : Msg → M Msg) :
    GenBodies.applyLayersGen layers base = applyLayers layers base := by
  induction layers with
  | nil => rfl
  | cons l ls ih =>
    cases l with
    | wrap w => cases w <;> simp only [GenBodies.applyLayersGen, applyLayers, ih, wrapMissingPV_eq, wrapMissingNC_eq]
    | pre b => simp only [GenBodies.applyLayersGen, applyLayers, ih, preGen_eq]

theorem runTypedGen_eq : GenBodies.runTypedGen = runTyped := by
  funext env ch
  cases ch with
  | none => rfl
  | some ch => simp only [GenBodies.runTypedGen, runTyped, GenBodies.runInnerGen, runInner, leafGen_eq, applyLayersGen_eq]; rfl

attribute [local simp] runTypedGen_eq

/-! ### command-level bodies -/

theorem presentation14_eq (env : Env) (v : Ver) : GenBodies.presentation14 env v = hPresentation env v := by
  funext m w
  by_cases hc : m.child = 255
  · by_cases h0 : m.node = 0
    · simp [GenBodies.presentation14, hPresentation, hc, h0]
      all_goals first
        | done
        | (generalize runTyped env (Gen.versionHandlerChain v) m _ = r
           obtain ⟨r, w'⟩ := r
           cases r <;> rfl)
    · simp [GenBodies.presentation14, hPresentation, hc, h0]
  · cases h : w.st.nodes.get? m.node <;> simp [GenBodies.presentation14, hPresentation, hc, h, add_child_eq]

/-- The type gate reads the active protocol object; `dispatch` runs the handler class of that same
protocol, hence the hypothesis. -/
theorem internal14_eq (env : Env) (v : Ver) (m : Msg) (w : W) (hv : w.st.proto = v) :
    GenBodies.internal14 env v m w = hInternal env v m w := by
  have hc : pyCaught .ValueError [.ValueError] = true := by decide
  simp only [GenBodies.internal14, bind_pure]
  cases h : (Gen.internalTypes v).lookup m.type <;>
    simp [hInternal, Lit.catchTo, Lit.enumMember, M.tryCatch, hv, h, hc]

theorem stream14_eq (env : Env) (v : Ver) (m : Msg) (w : W) (hv : w.st.proto = v) :
    GenBodies.stream14 env v m w = hStream env v m w := by
  have hc : pyCaught .ValueError [.ValueError] = true := by decide
  simp only [GenBodies.stream14, bind_pure]
  cases hn : w.st.nodes.get? m.node with
  | none => simp [hStream, hn]
  | some node =>
    cases h : (Gen.streamTypes v).lookup m.type <;>
      simp [hStream, Lit.catchTo, Lit.enumMember, M.tryCatch, hv, h, hc, hn]

theorem baseGen_eq (env : Env) (v : Ver) (b : Body) (m : Msg) (w : W) (hv : w.st.proto = v) :
    GenBodies.baseGen env v b m w = runBase env v b m w := by
  cases b <;> first
    | rfl
    | (simp only [GenBodies.baseGen, runBase, leafGen_eq, presentation14_eq, internal14_eq env v m w hv, stream14_eq env v m w hv]; done)
    | (simp only [GenBodies.baseGen, runBase, leafGen_eq]; rfl)

/-- Two command-level bodies that agree wherever the active protocol is `v` still agree under any stack of
layers: the decorators run the wrapped body first, in the world they were entered with, and the only
pre-body (the marker removal of 2.x presentations) leaves the protocol alone. -/
theorem applyLayers_congr (v : Ver) (f g : Msg → M Msg) (hfg : ∀ m w, w.st.proto = v → f m w = g m w)
    (layers : List Layer) : ∀ m w, w.st.proto = v → applyLayers layers f m w = applyLayers layers g m w := by
  induction layers with
  | nil => exact hfg
  | cons l ls ih =>
    intro m w hv
    cases l with
    | wrap wr =>
      cases wr with
      | missingPV => simp only [applyLayers, wrapMissingPV, M.tryFinally, ih m w hv]
      | missingNC => simp only [applyLayers, wrapMissingNC, M.tryCatch, ih m w hv]
    | pre b =>
      simp only [applyLayers, M.seq, M.bind]
      cases b <;> simp only [runPre, M.raise]
      case presentation20 =>
        have hp : (prePresentation20 m w).2.st.proto = v := by
          simp only [prePresentation20, M.modifySt]; split <;> exact hv
        cases hr : prePresentation20 m w with
        | mk r w' =>
          rw [hr] at hp
          cases r with
          | ok u => exact ih m w' hp
          | error e => rfl

theorem dispatchGen_eq (env : Env) (v : Ver) (m : Msg) (w : W) (hv : w.st.proto = v) :
    GenBodies.dispatchGen env v m w = dispatch env v m w := by
  simp only [GenBodies.dispatchGen, dispatch]
  cases (Gen.commandChains v).lookup m.cmd with
  | none => rfl
  | some ch =>
    simp only [applyLayersGen_eq]
    exact applyLayers_congr v _ _ (fun m w h => baseGen_eq env v ch.base m w h) ch.layers m w hv

theorem recvGen_eq (env : Env) (line : Str) : GenBodies.recvGen env line = recv env line := by
  funext w
  simp only [GenBodies.recvGen, recv, M.bind, M.getSt]
  cases decode w.st.proto line with
  | none => rfl
  | some m => exact dispatchGen_eq env w.st.proto m w rfl

end AioMySensors.BodiesEq
