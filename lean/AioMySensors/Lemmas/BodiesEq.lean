/-
The tie between the generated handler bodies (`Generated/Bodies.lean`, written by `tools/translate.py`
from the Python of the working tree on every run) and the hand-written handlers of `Model/Handlers.lean`
that every gateway-level theorem speaks about: each generated definition is proved EQUAL to its
hand-written counterpart, for every message, environment and world.  When the Python of a handler
changes, its generated definition changes and the equality below is re-checked against the new text.
-/
import AioMySensors.Generated.Bodies
import AioMySensors.Lemmas.PDict

set_option linter.unusedSimpArgs false

namespace AioMySensors.BodiesEq
open AioMySensors M

attribute [local simp] Lit.nodeIn Lit.updateNode Lit.nodeAt Lit.storeNode Lit.nodeGet Lit.childIn Lit.childAt Lit.liftE
  Lit.newNode Lit.newChild Lit.ibufHas Lit.ibufSet Lit.ibufPop Lit.sbufSet Lit.sbufHolds Lit.sbufPop Lit.versionUnknown
  Lit.nodesNonEmpty Lit.maxNodeKey Lit.pyIntE Lit.liftPy
  requireNode setNode M.bind M.seq M.getSt M.pure M.raise M.modifySt PDict.has PDict.get?_set_self PDict.set_set_self
  Gen.systemChildId Gen.cmdInternal Gen.cmdSet Gen.iReboot Gen.iVersion Gen.iIdResponse Gen.iDiscover Gen.iPresentation
  Gen.iLogMessage Gen.iGatewayReady Gen.broadcastId Gen.sArduinoNode Gen.maxNodeId
  Gen.bufVersionQuery Gen.bufPresentationRequest Gen.bufReboot Gen.bufReqReply Gen.bufIdResponse Gen.bufConfig
  Gen.bufTime Gen.bufDiscover Gen.bufFlush

/-! ### `model/node.py` -/

theorem add_child_eq (c t : Int) (d : Str) (n : Node) :
    GenBodies.Node.add_child c t d n = .ok { n with children := n.children.set c ⟨c, t, d, []⟩ } := by
  simp [GenBodies.Node.add_child]

theorem set_child_value_eq (c t : Int) (p : Str) (n : Node) :
    GenBodies.Node.set_child_value c t p n =
      match n.children.get? c with
      | none => .error (.lib (.missingChild c))
      | some ch => .ok { n with children := n.children.set c { ch with values := ch.values.set t p } } := by
  cases h : n.children.get? c <;> simp [GenBodies.Node.set_child_value, h]

theorem outPresentation14_eq : GenBodies.outPresentation14 = fun m _ => transportWrite (encode m) := rfl
theorem outReq14_eq : GenBodies.outReq14 = fun m _ => transportWrite (encode m) := rfl
theorem outInternal14_eq : GenBodies.outInternal14 = fun m _ => transportWrite (encode m) := rfl
theorem outStream14_eq : GenBodies.outStream14 = fun m _ => transportWrite (encode m) := rfl

/-- `Gateway.send` after the dump = the generated outgoing handler of the active protocol. -/
theorem gwSend'_eq : GenBodies.gwSend' = gwSend := by
  funext m b w
  simp only [GenBodies.gwSend', gwSend, M.bind, M.getSt]
  cases h : (Gen.outgoingHandlers w.st.proto).lookup m.cmd with
  | none => rfl
  | some o =>
    cases o with
    | none => rfl
    | some ob =>
      cases ob with
      | direct => rfl
      | set14 =>
        simp only [GenBodies.outBody, GenBodies.outSet14]
        cases hn : w.st.nodes.get? m.node with
        | none => simp [hn]
        | some node => cases b <;> cases hs : node.sleeping <;> simp [hn, hs, Msg.key]

theorem apiSendGen_eq (obj : Option Msg) (b : Bool) : GenBodies.apiSendGen obj b = apiSend obj b := by
  cases obj with
  | none => rfl
  | some m => exact congrFun (congrFun gwSend'_eq m) b

attribute [local simp] gwSend'_eq


/-! ### the sleep buffer: release loop and the outgoing handlers -/

theorem forEach_flushList (l : List (Key × Msg)) :
    (Lit.forEach l fun kb =>
      seq (gwSend kb.2 false)
        (bind (Lit.sbufHolds kb.1 kb.2) fun c => if c then Lit.sbufPop kb.1 else pure ())) = flushList l := by
  induction l with
  | nil => rfl
  | cons x xs ih =>
    obtain ⟨k, bm⟩ := x
    simp only [Lit.forEach, flushList, ih]
    funext w
    simp only [M.seq, M.bind, Gen.bufFlush]
    obtain ⟨r, w'⟩ := gwSend bm false w
    cases r with
    | error e => rfl
    | ok u =>
      by_cases h : w'.st.sbuf.get? k = some bm
      · simp [h]
      · simp [h]

theorem sleepBuffer20_eq : GenBodies.sleepBuffer20 = flush := by
  funext m w
  simp only [GenBodies.sleepBuffer20, flush, Lit.sbufSnapshot, gwSend'_eq, forEach_flushList]
  simp

attribute [local simp] sleepBuffer20_eq

/-! ### report handlers of `protocol_14` -/

theorem set14_eq : GenBodies.set14 = hSet := by
  funext m w
  cases h : w.st.nodes.get? m.node with
  | none => simp [GenBodies.set14, hSet, h]
  | some node =>
    cases hc : node.children.get? m.child with
    | none => simp [GenBodies.set14, hSet, h, hc]
    | some child =>
      cases hr : node.reboot <;> simp [GenBodies.set14, hSet, h, hc, hr, set_child_value_eq]

theorem req14_eq : GenBodies.req14 = hReq := by
  funext m w
  cases h : w.st.nodes.get? m.node with
  | none => simp [GenBodies.req14, hReq, h]
  | some node =>
    cases hc : node.children.get? m.child with
    | none => simp [GenBodies.req14, hReq, h, hc]
    | some child =>
      cases hv : child.values.get? m.type <;> simp [GenBodies.req14, hReq, h, hc, hv]

theorem iSketchName14_eq : GenBodies.iSketchName14 = hSketchName := by
  funext m w
  cases h : w.st.nodes.get? m.node <;> simp [GenBodies.iSketchName14, hSketchName, h]

theorem iSketchVersion14_eq : GenBodies.iSketchVersion14 = hSketchVersion := by
  funext m w
  cases h : w.st.nodes.get? m.node <;> simp [GenBodies.iSketchVersion14, hSketchVersion, h]

theorem iDiscoverResponse20_eq : GenBodies.iDiscoverResponse20 = hDiscoverResponse := by
  funext m w
  cases h : w.st.nodes.get? m.node <;> simp [GenBodies.iDiscoverResponse20, hDiscoverResponse, h]

theorem iGatewayReady20_eq : GenBodies.iGatewayReady20 = hGatewayReady := by
  funext m w
  simp [GenBodies.iGatewayReady20, hGatewayReady]

theorem iConfig14_eq (env : Env) : GenBodies.iConfig14 env = hConfig env := by
  funext m w
  cases h : env.metric <;> simp [GenBodies.iConfig14, hConfig, h]

theorem iTime14_eq (env : Env) : GenBodies.iTime14 env = hTime env := by
  funext m w
  simp [GenBodies.iTime14, hTime]

theorem iBatteryLevel14_eq : GenBodies.iBatteryLevel14 = hBattery := by
  funext m w
  have hcl : clause Gen.excBattery 0 = [.ValueError, .OverflowError] := rfl
  cases h : w.st.nodes.get? m.node with
  | none => simp [GenBodies.iBatteryLevel14, hBattery, h]
  | some node =>
    cases hp : pyRoundFloat m.payload with
    | error c =>
      cases hc : pyCaught c [.ValueError, .OverflowError] <;>
        simp [GenBodies.iBatteryLevel14, hBattery, h, hp, hcl, convertExn, hc]
    | ok level =>
      by_cases hr : Gen.minBattery ≤ level ∧ level ≤ Gen.maxBattery
      · -- the range test may be spelled `not lo <= x <= hi` or `x < lo or x > hi`: give simp every polarity
        have h1 : (0 : Int) ≤ level := hr.1
        have h2 : level ≤ (100 : Int) := hr.2
        have n1 : ¬ level < (0 : Int) := by omega
        have n2 : ¬ (100 : Int) < level := by omega
        have n3 : ¬ level > (100 : Int) := by omega
        have n4 : ¬ (0 : Int) > level := by omega
        simp [GenBodies.iBatteryLevel14, hBattery, h, hp, convertExn, hr, h1, h2, n1, n2, n3, n4]
      · have h3 : ¬ ((0 : Int) ≤ level ∧ level ≤ (100 : Int)) := hr
        have h4 : level < 0 ∨ 100 < level := by omega
        have h5 : level < 0 ∨ level > 100 := by omega
        have h6 : ¬ (0 : Int) ≤ level ∨ ¬ level ≤ (100 : Int) := by omega
        simp [GenBodies.iBatteryLevel14, hBattery, h, hp, convertExn, hr, h4, h5]
        all_goals first | done | (intros; omega) | (simp_all; done)

theorem iHeartbeatResponse22_eq : GenBodies.iHeartbeatResponse22 = hHeartbeat22 := by
  funext m w
  have hcl : clause Gen.excHeartbeat22 0 = [.ValueError] := rfl
  have hv : pyCaught .ValueError [.ValueError] = true := by decide
  cases h : w.st.nodes.get? m.node with
  | none => simp [GenBodies.iHeartbeatResponse22, hHeartbeat22, h]
  | some node =>
    cases hp : pyInt? m.payload <;>
      simp [GenBodies.iHeartbeatResponse22, hHeartbeat22, heartbeatValue, h, hp, hcl, hv, convertExn]

theorem iHeartbeatResponse20_eq : GenBodies.iHeartbeatResponse20 = hHeartbeat20 := by
  funext m w
  have hcl : clause Gen.excHeartbeat20 0 = [.ValueError] := rfl
  have hv : pyCaught .ValueError [.ValueError] = true := by decide
  cases h : w.st.nodes.get? m.node with
  | none => simp [GenBodies.iHeartbeatResponse20, hHeartbeat20, h]
  | some node =>
    cases hp : pyInt? m.payload <;>
      simp [GenBodies.iHeartbeatResponse20, hHeartbeat20, heartbeatValue, h, hp, hcl, hv, convertExn]

theorem iPreSleepNotification22_eq : GenBodies.iPreSleepNotification22 = hPreSleep22 := by
  funext m w
  cases h : w.st.nodes.get? m.node <;> simp [GenBodies.iPreSleepNotification22, hPreSleep22, h]

theorem defaultVersion_chars : Gen.defaultVersionStr.toList = [Char.ofNat 49, Char.ofNat 46, Char.ofNat 52] := by decide

theorem iIdRequest14_eq : GenBodies.iIdRequest14 = hIdRequest := by
  funext m w
  cases hn : w.st.nodes with
  | nil =>
    simp [GenBodies.iIdRequest14, hIdRequest, allocNode, nextId, placeholderNode, PDict.keys, hn, defaultVersion_chars]
  | cons x xs =>
    by_cases hb : List.foldl max x.1 (List.map (fun e => e.1) xs) + 1 > 254
    · simp [GenBodies.iIdRequest14, hIdRequest, allocNode, nextId, placeholderNode, PDict.keys, hn, defaultVersion_chars, hb]
    · simp [GenBodies.iIdRequest14, hIdRequest, allocNode, nextId, placeholderNode, PDict.keys, hn, defaultVersion_chars, hb]

/-! ### the version report and the `protocol_version` setter of `gateway.py` -/

theorem setProtocolVersion_eq (value : Str) :
    GenBodies.setProtocolVersion value =
      bind (Lit.liftPy (getProtocolE value)) fun v => modifySt fun s => { s with pv := some value, proto := v } := by
  funext w
  cases h : getProtocolE value <;> simp [GenBodies.setProtocolVersion, h]

theorem iVersion14_eq : GenBodies.iVersion14 = hVersion := by
  funext m w
  have hcl : clause Gen.excVersion 0 = [.AwesomeVersionException, .ValueError, .IndexError] := rfl
  cases h : getProtocolE m.payload with
  | ok v => simp [GenBodies.iVersion14, hVersion, setProtocolVersion_eq, Lit.catchTo, M.tryCatch, convertExn, hcl, h]
  | error c =>
    cases hc : pyCaught c [.AwesomeVersionException, .ValueError, .IndexError] <;>
      simp [GenBodies.iVersion14, hVersion, setProtocolVersion_eq, Lit.catchTo, M.tryCatch, convertExn, hcl, h, hc]

/-! ### the two decorators -/

theorem wants_eq (m : Msg) :
    ((m.cmd != (3 : Int)) || !([(9 : Int), (14 : Int)].contains m.type)) = wantsVersionQuery m := by
  simp only [wantsVersionQuery, List.contains_cons, List.contains_nil, Bool.or_false, Bool.not_or]
  rfl

theorem wrapMissingPV_eq : GenBodies.wrapMissingPV = wrapMissingPV := by
  funext inner m
  unfold GenBodies.wrapMissingPV wrapMissingPV
  congr 1
  funext r w'
  simp only [wants_eq]
  simp [versionQuery]
  rfl

theorem libCaught_eq (e : Exn) : Lit.libCaught e ["MissingNodeError", "MissingChildError"] = missingCaught e := by
  have h : Gen.excMissingNC = ["MissingNodeError", "MissingChildError"] := rfl
  cases e with
  | foreign c => rfl
  | lib l => cases l <;> simp [Lit.libCaught, missingCaught, h]

theorem wrapMissingNC_eq : GenBodies.wrapMissingNC = wrapMissingNC := by
  funext inner m
  unfold GenBodies.wrapMissingNC wrapMissingNC
  congr 1
  funext e
  simp only [libCaught_eq]
  cases hc : missingCaught e with
  | false => simp
  | true =>
    simp only [if_true, Option.some.injEq]
    funext w
    cases hi : w.st.ibuf.get? (m.node, 255, 19) <;>
      simp [presentationRequest, Msg.key, hi]
    -- what remains (if anything, depending on how the branch is spelled) is a case split on the request's write
    all_goals first
      | done
      | (generalize gwSend _ false w = r
         obtain ⟨r, w'⟩ := r
         cases r <;> rfl)

theorem presentation20_eq : GenBodies.presentation20 = prePresentation20 := by
  funext m w
  cases h : w.st.ibuf.get? (m.node, m.child, 19) <;> simp [GenBodies.presentation20, prePresentation20, h]

/-! ### the whole receive path assembled from the generated bodies

`recvGen` is `recv` with every handler body, both decorators and the release loop replaced by the text the
translator produced from the Python on this run; what remains hand-written is the glue that the generated
tables drive (`applyLayers`, `dispatch`, `runTyped`) and the codec.  `recvGen_eq` shows it is the `recv` of
`Model/Handlers.lean`, so every theorem about `recv` is a theorem about the translated code. -/

theorem leafGen_eq (env : Env) (b : Body) : GenBodies.leafGen env b = runLeaf env b := by
  cases b <;> simp only [GenBodies.leafGen, runLeaf, iVersion14_eq, iIdRequest14_eq, iConfig14_eq, iTime14_eq, iBatteryLevel14_eq,
    iSketchName14_eq, iSketchVersion14_eq, iGatewayReady20_eq, iDiscoverResponse20_eq, iHeartbeatResponse20_eq,
    iHeartbeatResponse22_eq, iPreSleepNotification22_eq, set14_eq, req14_eq]

theorem preGen_eq (b : Body) : GenBodies.preGen b = runPre b := by
  cases b <;> simp only [GenBodies.preGen, runPre, presentation20_eq]

theorem applyLayersGen_eq (layers : List Layer) (base : Msg → M Msg) :
    GenBodies.applyLayersGen layers base = applyLayers layers base := by
  induction layers with
  | nil => rfl
  | cons l ls ih =>
    cases l with
    | wrap w => cases w <;> simp only [GenBodies.applyLayersGen, applyLayers, ih, wrapMissingPV_eq, wrapMissingNC_eq]
    | pre b => simp only [GenBodies.applyLayersGen, applyLayers, ih, preGen_eq]

theorem runTypedGen_eq : GenBodies.runTypedGen = runTyped := by
  funext env ch
  cases ch with
  | none => rfl
  | some ch => simp only [GenBodies.runTypedGen, runTyped, GenBodies.runInnerGen, runInner, leafGen_eq, applyLayersGen_eq]; rfl

attribute [local simp] runTypedGen_eq

/-! ### command-level bodies -/

theorem bind_pure (x : M α) : (bind x fun a => pure a) = x := by
  funext w
  simp only [M.bind, M.pure]
  cases h : x w with
  | mk r w' => cases r <;> rfl

theorem presentation14_eq (env : Env) (v : Ver) : GenBodies.presentation14 env v = hPresentation env v := by
  funext m w
  by_cases hc : m.child = 255
  · by_cases h0 : m.node = 0
    · simp [GenBodies.presentation14, hPresentation, hc, h0]
      all_goals first
        | done
        | (generalize runTyped env (Gen.versionHandlerChain v) m _ = r
           obtain ⟨r, w'⟩ := r
           cases r <;> rfl)
    · simp [GenBodies.presentation14, hPresentation, hc, h0]
  · cases h : w.st.nodes.get? m.node <;> simp [GenBodies.presentation14, hPresentation, hc, h, add_child_eq]

/-- The type gate reads the active protocol object; `dispatch` runs the handler class of that same
protocol, hence the hypothesis. -/
theorem internal14_eq (env : Env) (v : Ver) (m : Msg) (w : W) (hv : w.st.proto = v) :
    GenBodies.internal14 env v m w = hInternal env v m w := by
  have hc : pyCaught .ValueError [.ValueError] = true := by decide
  cases h : (Gen.internalTypes v).lookup m.type <;>
    simp [GenBodies.internal14, hInternal, Lit.catchTo, Lit.enumMember, M.tryCatch, hv, h, hc]

theorem stream14_eq (env : Env) (v : Ver) (m : Msg) (w : W) (hv : w.st.proto = v) :
    GenBodies.stream14 env v m w = hStream env v m w := by
  have hc : pyCaught .ValueError [.ValueError] = true := by decide
  cases hn : w.st.nodes.get? m.node with
  | none => simp [GenBodies.stream14, hStream, hn]
  | some node =>
    cases h : (Gen.streamTypes v).lookup m.type <;>
      simp [GenBodies.stream14, hStream, Lit.catchTo, Lit.enumMember, M.tryCatch, hv, h, hc, hn]

theorem baseGen_eq (env : Env) (v : Ver) (b : Body) (m : Msg) (w : W) (hv : w.st.proto = v) :
    GenBodies.baseGen env v b m w = runBase env v b m w := by
  cases b <;> first
    | rfl
    | (simp only [GenBodies.baseGen, runBase, leafGen_eq, presentation14_eq, internal14_eq env v m w hv, stream14_eq env v m w hv]; done)
    | (simp only [GenBodies.baseGen, runBase, leafGen_eq]; rfl)

/-- Two command-level bodies that agree wherever the active protocol is `v` still agree under any stack of
layers: the decorators run the wrapped body first, in the world they were entered with, and the only
pre-body (the marker removal of 2.x presentations) leaves the protocol alone. -/
theorem applyLayers_congr (v : Ver) (f g : Msg → M Msg) (hfg : ∀ m w, w.st.proto = v → f m w = g m w)
    (layers : List Layer) : ∀ m w, w.st.proto = v → applyLayers layers f m w = applyLayers layers g m w := by
  induction layers with
  | nil => exact hfg
  | cons l ls ih =>
    intro m w hv
    cases l with
    | wrap wr =>
      cases wr with
      | missingPV => simp only [applyLayers, wrapMissingPV, M.tryFinally, ih m w hv]
      | missingNC => simp only [applyLayers, wrapMissingNC, M.tryCatch, ih m w hv]
    | pre b =>
      simp only [applyLayers, M.seq, M.bind]
      cases b <;> simp only [runPre, M.raise]
      case presentation20 =>
        have hp : (prePresentation20 m w).2.st.proto = v := by
          simp only [prePresentation20, M.modifySt]; split <;> exact hv
        cases hr : prePresentation20 m w with
        | mk r w' =>
          rw [hr] at hp
          cases r with
          | ok u => exact ih m w' hp
          | error e => rfl

theorem dispatchGen_eq (env : Env) (v : Ver) (m : Msg) (w : W) (hv : w.st.proto = v) :
    GenBodies.dispatchGen env v m w = dispatch env v m w := by
  simp only [GenBodies.dispatchGen, dispatch]
  cases (Gen.commandChains v).lookup m.cmd with
  | none => rfl
  | some ch =>
    simp only [applyLayersGen_eq]
    exact applyLayers_congr v _ _ (fun m w h => baseGen_eq env v ch.base m w h) ch.layers m w hv

theorem recvGen_eq (env : Env) (line : Str) : GenBodies.recvGen env line = recv env line := by
  funext w
  simp only [GenBodies.recvGen, recv, M.bind, M.getSt]
  cases decode w.st.proto line with
  | none => rfl
  | some m => exact dispatchGen_eq env w.st.proto m w rfl

end AioMySensors.BodiesEq
