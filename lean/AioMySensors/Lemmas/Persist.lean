/-
Lemmas for C13 and C14 about the persistence model (`Model/Schema.lean`, `Model/Persist.lean`):
dict fields, the schema interpreter's round trip for any table with distinct names, its
instantiation with the generated `Gen.childSchema` / `Gen.nodeSchema`, the legacy spelling, and
which exception classes a load can raise.
-/
import AioMySensors.Lemmas.PyNum
import AioMySensors.Model.Persist

deriving instance DecidableEq for Except

namespace AioMySensors
open Schema Persist

/-! ## Python dicts; dict fields round-trip -/

namespace PDict
variable {κ α : Type} [DecidableEq κ]

theorem get?_eq_none_of_not_mem (d : PDict κ α) (k : κ) (h : k ∉ d.keys) : d.get? k = none := by
  induction d with
  | nil => rfl
  | cons kv rest ih =>
    obtain ⟨k', v⟩ := kv
    simp only [keys, List.map_cons, List.mem_cons, not_or] at h
    simp only [get?]
    rw [if_neg (fun e => h.1 e.symm)]
    exact ih h.2

/-- `d[k] = v` for a key that is not in `d` appends. -/
theorem set_fresh (d : PDict κ α) (k : κ) (v : α) (h : k ∉ d.keys) : d.set k v = d ++ [(k, v)] := by
  induction d with
  | nil => rfl
  | cons kv rest ih =>
    obtain ⟨k', v'⟩ := kv
    simp only [keys, List.map_cons, List.mem_cons, not_or] at h
    simp only [set]
    rw [if_neg (fun e => h.1 e.symm)]
    simp [ih h.2]

omit [DecidableEq κ] in
theorem keys_append (a b : PDict κ α) : keys (a ++ b) = keys a ++ keys b := by simp [keys]

end PDict

/-- `str(k)` can be read back by `int()`. -/
def KeyOK (k : Int) : Prop := digitCount k ≤ Gen.pyMaxStrDigits

theorem loadStrDict_dump (d acc : PDict Int Str) (hnd : d.keys.Nodup) (hk : ∀ k ∈ d.keys, KeyOK k)
    (hdis : ∀ k ∈ d.keys, k ∉ acc.keys) :
    loadStrDict acc (d.map fun kv => (dec kv.1, Json.str kv.2)) = some (acc ++ d) := by
  induction d generalizing acc with
  | nil => simp [loadStrDict]
  | cons kv rest ih =>
    obtain ⟨k, v⟩ := kv
    simp only [PDict.keys, List.map_cons, List.nodup_cons, List.mem_cons, forall_eq_or_imp] at hnd hk hdis
    simp only [List.map_cons, loadStrDict, pyInt?_dec k hk.1, coerceStr]
    rw [PDict.set_fresh _ _ _ hdis.1, ih (acc ++ [(k, v)]) hnd.2 hk.2]
    · simp
    · intro k' hk'
      simp only [PDict.keys_append, List.mem_append, not_or]
      refine ⟨hdis.2 k' hk', ?_⟩
      simp [PDict.keys]
      intro e; subst e; exact hnd.1 hk'

theorem loadNestedDict_dump (nested : Json → Except PyExn Child) (nd : Child → Json)
    (d acc : PDict Int Child) (hnd : d.keys.Nodup) (hk : ∀ k ∈ d.keys, KeyOK k)
    (hdis : ∀ k ∈ d.keys, k ∉ acc.keys)
    (hnn : ∀ kc ∈ d, (nd kc.2).isNull = false) (hrt : ∀ kc ∈ d, nested (nd kc.2) = .ok kc.2) :
    loadNestedDict nested acc false (d.map fun kv => (dec kv.1, nd kv.2)) = .ok (acc ++ d) := by
  induction d generalizing acc with
  | nil => simp [loadNestedDict]
  | cons kv rest ih =>
    obtain ⟨k, c⟩ := kv
    simp only [PDict.keys, List.map_cons, List.nodup_cons, List.mem_cons, forall_eq_or_imp] at hnd hk hdis hnn hrt
    simp only [List.map_cons, loadNestedDict, hnn.1, hrt.1, pyInt?_dec k hk.1]
    rw [PDict.set_fresh _ _ _ hdis.1]
    simp only [Bool.false_eq_true, if_false]
    rw [ih (acc ++ [(k, c)]) hnd.2 hk.2 _ hnn.2 hrt.2]
    · simp
    · intro k' hk'
      simp only [PDict.keys_append, List.mem_append, not_or]
      refine ⟨hdis.2 k' hk', ?_⟩
      simp [PDict.keys]
      intro e; subst e; exact hnd.1 hk'

/-! ## `Schema.load (Schema.dump x) = x` for any schema table with distinct field names -/

/-- The value `v` is of the field's kind and passes its validator; dict keys can be printed and
read back; nested records round-trip. -/
def ValOK (nested : Json → Except PyExn Child) (nd : Child → Json) (f : FieldSpec) : Val → Prop
  | .int n => f.kind = .int ∧ inRange f.range n = true
  | .str _ => f.kind = .str
  | .bool _ => f.kind = .bool
  | .strDict d => f.kind = .dictIntStr ∧ d.keys.Nodup ∧ ∀ k ∈ d.keys, KeyOK k
  | .childDict d => f.kind = .dictIntNested ∧ d.keys.Nodup ∧ (∀ k ∈ d.keys, KeyOK k) ∧
      (∀ kc ∈ d, (nd kc.2).isNull = false) ∧ ∀ kc ∈ d, nested (nd kc.2) = .ok kc.2

theorem loadField_dump (nested : Json → Except PyExn Child) (nd : Child → Json) (f : FieldSpec) (v : Val)
    (h : ValOK nested nd f v) : loadField nested f (dumpVal nd v) = .ok v := by
  cases v with
  | int n => simp [ValOK] at h; simp [loadField, dumpVal, Json.isNull, h.1, coerceInt, h.2]
  | str s => simp [ValOK] at h; simp [loadField, dumpVal, Json.isNull, h, coerceStr]
  | bool b => simp [ValOK] at h; simp [loadField, dumpVal, Json.isNull, h, coerceBool]
  | strDict d =>
    obtain ⟨hk, hnd, hks⟩ := h
    have := loadStrDict_dump d [] hnd hks (by simp [PDict.keys])
    simp [loadField, dumpVal, Json.isNull, hk, this]
  | childDict d =>
    obtain ⟨hk, hnd, hks, hnn, hrt⟩ := h
    have := loadNestedDict_dump nested nd d [] hnd hks (by simp [PDict.keys]) hnn hrt
    simp [loadField, dumpVal, Json.isNull, hk, this]

/-- Key of a declared field in the file. -/
def fkey (f : FieldSpec) : Str := f.name.toList

/-- The members `dumpRecord` writes. -/
def dumped (specs : List FieldSpec) (attr : String → Option Val) (nd : Child → Json) : List (Str × Json) :=
  specs.filterMap fun f => (attr f.name).map fun v => (f.name.toList, dumpVal nd v)

theorem dumpRecord_eq (specs attr nd) : dumpRecord specs attr nd = .obj (dumped specs attr nd) := rfl

theorem keys_dumped_subset (specs attr nd) : ∀ k ∈ PDict.keys (dumped specs attr nd), k ∈ specs.map fkey := by
  intro k hk
  simp only [PDict.keys, dumped, List.mem_map, List.mem_filterMap, Option.map_eq_some_iff] at hk
  obtain ⟨kv, ⟨f, hf, v, _, rfl⟩, rfl⟩ := hk
  exact List.mem_map.mpr ⟨f, hf, rfl⟩

theorem get?_dumped (specs : List FieldSpec) (attr nd) (hnd : (specs.map fkey).Nodup) (f : FieldSpec) (hf : f ∈ specs) :
    PDict.get? (dumped specs attr nd) f.name.toList = (attr f.name).map (dumpVal nd) := by
  induction specs with
  | nil => cases hf
  | cons g gs ih =>
    simp only [List.map_cons, List.nodup_cons] at hnd
    by_cases hfg : f = g
    · subst hfg
      cases ha : attr f.name with
      | none =>
        have : dumped (f :: gs) attr nd = dumped gs attr nd := by simp [dumped, ha]
        rw [this]
        apply PDict.get?_eq_none_of_not_mem
        intro hk
        exact hnd.1 (keys_dumped_subset gs attr nd _ hk)
      | some v =>
        have : dumped (f :: gs) attr nd = (f.name.toList, dumpVal nd v) :: dumped gs attr nd := by simp [dumped, ha]
        rw [this]; simp [PDict.get?]
    · have hf' : f ∈ gs := by simpa [hfg] using hf
      have hne : g.name.toList ≠ f.name.toList := by
        intro e; apply hnd.1; rw [show fkey g = fkey f from e]; exact List.mem_map.mpr ⟨f, hf', rfl⟩
      cases ha : attr g.name with
      | none =>
        have : dumped (g :: gs) attr nd = dumped gs attr nd := by simp [dumped, ha]
        rw [this]; exact ih hnd.2 hf'
      | some v =>
        have : dumped (g :: gs) attr nd = (g.name.toList, dumpVal nd v) :: dumped gs attr nd := by simp [dumped, ha]
        rw [this]; simp only [PDict.get?, if_neg hne]; exact ih hnd.2 hf'

/-- What `Schema.load` collects from a dumped record. -/
def loadedRec (specs : List FieldSpec) (attr : String → Option Val) : Rec :=
  specs.filterMap fun f => (attr f.name).map fun v => (f.name, v)

theorem collect_ok (res : FieldSpec → Option (Except PyExn Val)) (attr : String → Option Val) (l : List FieldSpec) (acc : Rec)
    (h : ∀ f ∈ l, res f = (attr f.name).map Except.ok ∧ (attr f.name = none → f.required = false)) :
    collect (l.map fun f => (f, res f)) false acc = .ok (acc ++ loadedRec l attr) := by
  induction l generalizing acc with
  | nil => simp [collect, loadedRec]
  | cons f fs ih =>
    have hf := h f (by simp)
    have hfs : ∀ g ∈ fs, res g = (attr g.name).map Except.ok ∧ (attr g.name = none → g.required = false) :=
      fun g hg => h g (by simp [hg])
    simp only [List.map_cons]
    cases ha : attr f.name with
    | none =>
      rw [hf.1, ha]
      simp only [Option.map_none, collect, hf.2 ha, Bool.or_false]
      rw [ih acc hfs]; simp [loadedRec, ha]
    | some v =>
      rw [hf.1, ha]
      simp only [Option.map_some, collect]
      rw [ih _ hfs]; simp [loadedRec, ha]

theorem knownKeys_dumped (specs attr nd) : knownKeys specs (dumped specs attr nd) = true := by
  simp only [knownKeys, List.all_eq_true, List.any_eq_true, beq_iff_eq]
  intro kv hkv
  have := keys_dumped_subset specs attr nd kv.1 (List.mem_map.mpr ⟨kv, hkv, rfl⟩)
  obtain ⟨f, hf, e⟩ := List.mem_map.mp this
  exact ⟨f, hf, e⟩

/-- **Schema round trip.** Loading a dumped record yields the attributes that were dumped. -/
theorem loadRecord_dump (specs : List FieldSpec) (nested : Json → Except PyExn Child) (nd : Child → Json)
    (attr : String → Option Val) (hnd : (specs.map fkey).Nodup)
    (hreq : ∀ f ∈ specs, attr f.name = none → f.required = false)
    (hval : ∀ f ∈ specs, ∀ v, attr f.name = some v → ValOK nested nd f v) :
    loadRecord specs nested (dumped specs attr nd) = .ok (loadedRec specs attr) := by
  have hres : ∀ f ∈ specs, fieldResult nested (dumped specs attr nd) f = (attr f.name).map Except.ok ∧
      (attr f.name = none → f.required = false) := by
    intro f hf
    refine ⟨?_, hreq f hf⟩
    simp only [fieldResult, get?_dumped specs attr nd hnd f hf]
    cases ha : attr f.name with
    | none => rfl
    | some v => simp [loadField_dump nested nd f v (hval f hf v ha)]
  simp only [loadRecord, collect_ok _ attr specs [] hres, knownKeys_dumped, List.nil_append, if_true]

/-! ## The generated child and node schemas; the registry -/

theorem childSchema_names_nodup : (Gen.childSchema.map fkey).Nodup := by decide
theorem nodeSchema_names_nodup : (Gen.nodeSchema.map fkey).Nodup := by decide

theorem saveChild_eq (c : Child) : saveChild c = .obj (dumped Gen.childSchema (childAttr c) fun _ => .null) := rfl
theorem saveNode_eq (id : Int) (n : Node) : saveNode id n = .obj (dumped Gen.nodeSchema (nodeAttr id n) saveChild) := rfl

/-- No legacy key among the members `dump` writes: the `pre_load` hook changes nothing. -/
theorem childPreLoad_saveChild (c : Child) : childPreLoad (saveChild c) = .ok (saveChild c) := by
  rfl

theorem nodePreLoad_saveNode (id : Int) (n : Node) : nodePreLoad (saveNode id n) = .ok (saveNode id n) := by
  rfl

/-- Value types of a child can be written and read back: distinct, within the digit limit. -/
structure ValuesOK (vs : PDict Int Str) : Prop where
  nodup : vs.keys.Nodup
  keys : ∀ k ∈ vs.keys, KeyOK k

theorem loadChild_saveChild (c : Child) (h : ValuesOK c.values) : loadChild (saveChild c) = .ok c := by
  have hrec := loadRecord_dump Gen.childSchema noNested (fun _ => Json.null) (childAttr c) childSchema_names_nodup
    (by
      intro f hf
      simp only [Gen.childSchema, List.mem_cons, List.not_mem_nil, or_false] at hf
      rcases hf with rfl | rfl | rfl | rfl <;> simp [childAttr])
    (by
      intro f hf v hv
      simp only [Gen.childSchema, List.mem_cons, List.not_mem_nil, or_false] at hf
      rcases hf with rfl | rfl | rfl | rfl <;> simp [childAttr] at hv <;> subst hv <;> simp [ValOK, inRange]
      exact ⟨h.nodup, h.keys⟩)
  simp only [loadChild, childPreLoad_saveChild]
  rw [saveChild_eq]
  simp only [hrec]
  rfl

/-- A child's dict key is printable and its values can be written back.  (Key and `child_id` are
independent in the file; that they coincide is not needed.) -/
structure ChildOK (key : Int) (c : Child) : Prop where
  key_ok : KeyOK key
  values : ValuesOK c.values

/-- What `load` accepts of a node: id and battery level within the schema's ranges, no child key twice. -/
structure NodeOK (id : Int) (n : Node) : Prop where
  id_lo : Gen.nodeIdMin ≤ id
  id_hi : id ≤ Gen.nodeIdMax
  bat_lo : Gen.minBattery ≤ n.battery
  bat_hi : n.battery ≤ Gen.maxBattery
  children_nodup : n.children.keys.Nodup
  children : ∀ kc ∈ n.children, ChildOK kc.1 kc.2

theorem saveChild_not_null (c : Child) : (saveChild c).isNull = false := rfl

theorem loadNode_saveNode (id : Int) (n : Node) (h : NodeOK id n) :
    loadNode (saveNode id n) = .ok (id, { n with reboot := false }) := by
  have hrec := loadRecord_dump Gen.nodeSchema loadChild saveChild (nodeAttr id n) nodeSchema_names_nodup
    (by
      intro f hf
      simp only [Gen.nodeSchema, List.mem_cons, List.not_mem_nil, or_false] at hf
      rcases hf with rfl | rfl | rfl | rfl | rfl | rfl | rfl | rfl | rfl <;> simp [nodeAttr])
    (by
      intro f hf v hv
      simp only [Gen.nodeSchema, List.mem_cons, List.not_mem_nil, or_false] at hf
      rcases hf with rfl | rfl | rfl | rfl | rfl | rfl | rfl | rfl | rfl <;> simp [nodeAttr] at hv <;> subst hv <;>
        simp [ValOK, inRange]
      · exact ⟨h.id_lo, h.id_hi⟩
      · refine ⟨h.children_nodup, ?_, fun _ _ _ => saveChild_not_null _, ?_⟩
        · intro k hk
          obtain ⟨kc, hkc, rfl⟩ := List.mem_map.mp hk
          exact (h.children kc hkc).key_ok
        · intro k c hkc
          exact loadChild_saveChild c (h.children (k, c) hkc).values
      · exact ⟨h.bat_lo, h.bat_hi⟩)
  simp only [loadNode, nodePreLoad_saveNode]
  rw [saveNode_eq]
  simp only [hrec]
  rfl

theorem keys_persisted (r : PDict Int Node) : PDict.keys (persisted r) = PDict.keys r := by
  simp [persisted, PDict.keys, List.map_map, Function.comp_def]

theorem loadNodes_save (r acc : PDict Int Node) (hnd : r.keys.Nodup) (hok : ∀ kn ∈ r, NodeOK kn.1 kn.2)
    (hdis : ∀ k ∈ r.keys, k ∉ acc.keys) :
    loadNodes acc (r.map fun kv => (dec kv.1, saveNode kv.1 kv.2)) = .ok (acc ++ persisted r) := by
  induction r generalizing acc with
  | nil => simp [loadNodes, persisted]
  | cons kn rest ih =>
    obtain ⟨id, n⟩ := kn
    simp only [PDict.keys, List.map_cons, List.nodup_cons, List.mem_cons, forall_eq_or_imp] at hnd hok hdis
    simp only [List.map_cons, loadNodes, loadNode_saveNode id n hok.1]
    rw [PDict.set_fresh _ _ _ hdis.1, ih _ hnd.2 hok.2]
    · simp [persisted]
    · intro k' hk'
      simp only [PDict.keys_append, List.mem_append, not_or]
      refine ⟨hdis.2 k' hk', ?_⟩
      simp [PDict.keys]
      intro e; subst e; exact hnd.1 hk'

/-- The hypothesis of C13 as a proposition. -/
structure RegOK (r : PDict Int Node) : Prop where
  nodup : r.keys.Nodup
  nodes : ∀ kn ∈ r, NodeOK kn.1 kn.2

theorem load_save_aux (r : PDict Int Node) (h : RegOK r) : load (save r) = .ok (persisted r) := by
  simp only [load, loadInto, save, loadRaw]
  rw [loadNodes_save r [] h.nodup h.nodes (by simp [PDict.keys])]
  simp [mapRead]

/-! ## The executable check `regOK` is the hypothesis `RegOK` -/

theorem intOK_iff (n : Int) : intOK n = true ↔ KeyOK n := by
  simp [intOK, KeyOK, digitCount]

theorem valuesOK_iff (vs : PDict Int Str) : valuesOK vs = true ↔ ValuesOK vs := by
  constructor
  · intro h
    simp only [valuesOK, distinctKeys, Bool.and_eq_true, decide_eq_true_eq, List.all_eq_true] at h
    refine ⟨h.1, ?_⟩
    intro k hk
    obtain ⟨kv, hkv, rfl⟩ := List.mem_map.mp hk
    exact (intOK_iff _).mp (h.2 kv hkv)
  · intro h
    simp only [valuesOK, distinctKeys, Bool.and_eq_true, decide_eq_true_eq, List.all_eq_true]
    exact ⟨h.nodup, fun kv hkv => (intOK_iff _).mpr (h.keys _ (List.mem_map.mpr ⟨kv, hkv, rfl⟩))⟩

theorem childOK_iff (k : Int) (c : Child) : childOK k c = true ↔ ChildOK k c := by
  simp only [childOK, Bool.and_eq_true, intOK_iff, valuesOK_iff]
  exact ⟨fun h => ⟨h.1, h.2⟩, fun h => ⟨h.key_ok, h.values⟩⟩

theorem nodeOK_iff (id : Int) (n : Node) : nodeOK id n = true ↔ NodeOK id n := by
  simp only [nodeOK, distinctKeys, Bool.and_eq_true, decide_eq_true_eq, List.all_eq_true, childOK_iff]
  exact ⟨fun h => ⟨h.1.1.1.1.1, h.1.1.1.1.2, h.1.1.1.2, h.1.1.2, h.1.2, h.2⟩,
    fun h => ⟨⟨⟨⟨⟨h.id_lo, h.id_hi⟩, h.bat_lo⟩, h.bat_hi⟩, h.children_nodup⟩, h.children⟩⟩

/-- The executable check the driver runs (`regok`) is the hypothesis of the theorems. -/
theorem regOK_iff (r : PDict Int Node) : regOK r = true ↔ RegOK r := by
  simp only [regOK, distinctKeys, Bool.and_eq_true, decide_eq_true_eq, List.all_eq_true, nodeOK_iff]
  exact ⟨fun h => ⟨h.1, h.2⟩, fun h => ⟨h.nodup, h.nodes⟩⟩

instance (r : PDict Int Node) : Decidable (RegOK r) := decidable_of_iff _ (regOK_iff r)

/-! ## The legacy (pymysensors) spelling loads like the native one -/

theorem saveNode_explicit (id : Int) (n : Node) : saveNode id n = .obj
  [(cs!"node_id", .int id), (cs!"node_type", .int n.ntype), (cs!"protocol_version", .str n.pv),
   (cs!"children", .obj (n.children.map fun kv => (dec kv.1, saveChild kv.2))),
   (cs!"sketch_name", .str n.sketchName), (cs!"sketch_version", .str n.sketchVersion),
   (cs!"battery_level", .int n.battery), (cs!"heartbeat", .int n.heartbeat), (cs!"sleeping", .bool n.sleeping)] := rfl

theorem saveChild_explicit (c : Child) : saveChild c = .obj
  [(cs!"child_id", .int c.cid), (cs!"child_type", .int c.ctype), (cs!"description", .str c.desc),
   (cs!"values", .obj (c.values.map fun kv => (dec kv.1, .str kv.2)))] := rfl

def legacyPre (id : Int) (n : Node) : List (Str × Json) :=
  [(cs!"protocol_version", .str n.pv),
   (cs!"children", .obj ((n.children.map fun kv => (dec kv.1, saveChild kv.2)).map fun c => (c.1, legacyChild c.2))),
   (cs!"sketch_name", .str n.sketchName), (cs!"sketch_version", .str n.sketchVersion),
   (cs!"battery_level", .int n.battery), (cs!"heartbeat", .int n.heartbeat), (cs!"sleeping", .bool n.sleeping),
   (cs!"node_id", .int id), (cs!"node_type", .int n.ntype)]

theorem pre_legacy (id : Int) (n : Node) : nodePreLoad (legacyNode (saveNode id n)) = .ok (.obj (legacyPre id n)) := by
  rw [saveNode_explicit]
  obtain ⟨ntype, pv, children, sn, sv, bat, hb, rb, sl⟩ := n
  cases sn <;> cases sv <;> rfl

theorem loadRecord_congr (specs : List FieldSpec) (nested : Json → Except PyExn Child) (kvs kvs' : List (Str × Json))
    (hf : ∀ f ∈ specs, fieldResult nested kvs f = fieldResult nested kvs' f)
    (hk : knownKeys specs kvs = knownKeys specs kvs') :
    loadRecord specs nested kvs = loadRecord specs nested kvs' := by
  simp only [loadRecord, hk]
  rw [List.map_congr_left (fun f hf' => by rw [hf f hf'])]

theorem loadChild_legacy (c : Child) : loadChild (legacyChild (saveChild c)) = loadChild (saveChild c) := by
  have eL : childPreLoad (legacyChild (saveChild c)) = .ok (.obj [(cs!"description", .str c.desc),
      (cs!"values", .obj (c.values.map fun kv => (dec kv.1, .str kv.2))), (cs!"child_id", .int c.cid),
      (cs!"child_type", .int c.ctype)]) := by rw [saveChild_explicit]; rfl
  have eN : childPreLoad (saveChild c) = .ok (.obj [(cs!"child_id", .int c.cid), (cs!"child_type", .int c.ctype),
      (cs!"description", .str c.desc), (cs!"values", .obj (c.values.map fun kv => (dec kv.1, .str kv.2)))]) := by
    rw [saveChild_explicit]; rfl
  simp only [loadChild, eL, eN]
  rfl

theorem loadNestedDict_congr (nested : Json → Except PyExn Child) (h : Json → Json) (l : List (Str × Json))
    (acc : PDict Int Child) (bad : Bool)
    (hl : ∀ kv ∈ l, nested (h kv.2) = nested kv.2 ∧ (h kv.2).isNull = kv.2.isNull) :
    loadNestedDict nested acc bad (l.map fun kv => (kv.1, h kv.2)) = loadNestedDict nested acc bad l := by
  induction l generalizing acc bad with
  | nil => rfl
  | cons kv rest ih =>
    obtain ⟨k, v⟩ := kv
    have h1 := hl (k, v) (by simp)
    have hr : ∀ kv ∈ rest, nested (h kv.2) = nested kv.2 ∧ (h kv.2).isNull = kv.2.isNull :=
      fun kv hkv => hl kv (by simp [hkv])
    simp only [List.map_cons, loadNestedDict, h1.1, h1.2, ih _ _ hr]

theorem loadNode_of_legacyPre (id : Int) (n : Node) (x : Json) (hx : nodePreLoad x = .ok (.obj (legacyPre id n))) :
    loadNode x = loadNode (saveNode id n) := by
  have hch : loadNestedDict loadChild [] false ((n.children.map fun kv => (dec kv.1, saveChild kv.2)).map fun c => (c.1, legacyChild c.2))
      = loadNestedDict loadChild [] false (n.children.map fun kv => (dec kv.1, saveChild kv.2)) := by
    apply loadNestedDict_congr
    intro kv hkv
    obtain ⟨kc, _, rfl⟩ := List.mem_map.mp hkv
    exact ⟨loadChild_legacy kc.2, rfl⟩
  have eN : nodePreLoad (saveNode id n) = .ok (saveNode id n) := nodePreLoad_saveNode id n
  simp only [loadNode, hx, eN]
  rw [saveNode_explicit]
  simp only []
  congr 1
  apply loadRecord_congr
  · intro f hf
    simp only [Gen.nodeSchema, List.mem_cons, List.not_mem_nil, or_false] at hf
    rcases hf with rfl | rfl | rfl | rfl | rfl | rfl | rfl | rfl | rfl
    case inr.inr.inr.inl =>
      change some (loadField loadChild ⟨"children", .dictIntNested, false, none⟩
          (.obj ((n.children.map fun kv => (dec kv.1, saveChild kv.2)).map fun c => (c.1, legacyChild c.2)))) =
        some (loadField loadChild ⟨"children", .dictIntNested, false, none⟩
          (.obj (n.children.map fun kv => (dec kv.1, saveChild kv.2))))
      simp only [loadField, Json.isNull]
      rw [hch]
      rfl
    all_goals rfl
  · rfl

theorem loadNode_legacy (id : Int) (n : Node) : loadNode (legacyNode (saveNode id n)) = loadNode (saveNode id n) :=
  loadNode_of_legacyPre id n _ (pre_legacy id n)

theorem loadNodes_congr (h : Json → Json) (l : List (Str × Json)) (acc : PDict Int Node)
    (hl : ∀ kv ∈ l, loadNode (h kv.2) = loadNode kv.2) :
    loadNodes acc (l.map fun kv => (kv.1, h kv.2)) = loadNodes acc l := by
  induction l generalizing acc with
  | nil => rfl
  | cons kv rest ih =>
    obtain ⟨k, v⟩ := kv
    have h1 := hl (k, v) (by simp)
    have hr : ∀ kv ∈ rest, loadNode (h kv.2) = loadNode kv.2 := fun kv hkv => hl kv (by simp [hkv])
    simp only [List.map_cons, loadNodes, h1]
    split
    · exact ih _ hr
    · rfl

theorem loadInto_legacy_save (cur r : PDict Int Node) : loadInto cur (legacyOf (save r)) = loadInto cur (save r) := by
  simp only [loadInto, save, legacyOf, loadRaw]
  rw [loadNodes_congr legacyNode]
  intro kv hkv
  obtain ⟨kn, _, rfl⟩ := List.mem_map.mp hkv
  exact loadNode_legacy kn.1 kn.2

/-! ## Which exception classes a load can raise (C14) -/

/-- Every exception `x` can raise satisfies `P`. -/
def Errs {α : Type} (P : PyExn → Prop) (x : Except PyExn α) : Prop := ∀ e, x = .error e → P e

theorem errs_ok {α : Type} {P : PyExn → Prop} (a : α) : Errs P (.ok a) := fun _ h => by cases h
theorem errs_error {α : Type} {P : PyExn → Prop} {c : PyExn} (h : P c) : Errs P (.error c : Except PyExn α) :=
  fun _ he => by cases he; exact h

theorem errs_mono {α : Type} {P Q : PyExn → Prop} {x : Except PyExn α} (h : Errs P x) (hpq : ∀ e, P e → Q e) : Errs Q x :=
  fun e he => hpq e (h e he)

theorem errs_bind {α β : Type} {P : PyExn → Prop} {x : Except PyExn α} {f : α → Except PyExn β}
    (hx : Errs P x) (hf : ∀ a, x = .ok a → Errs P (f a)) : Errs P (x.bind f) := by
  cases x with
  | error c => intro e he; exact hx e (by simpa [Except.bind] using he)
  | ok a => exact hf a rfl

/-- The classes the second `try` block of `load` is prepared for. -/
def ShapeErr (e : PyExn) : Prop := e = .ValidationError ∨ e = .TypeError ∨ e = .AttributeError

def Schema.Val.kind : Val → FieldKind
  | .int _ => .int | .str _ => .str | .bool _ => .bool | .strDict _ => .dictIntStr | .childDict _ => .dictIntNested

theorem loadNestedDict_errs {P : PyExn → Prop} (nested : Json → Except PyExn Child) (hv : P .ValidationError)
    (hn : ∀ v, Errs P (nested v)) (l : List (Str × Json)) (acc : PDict Int Child) (bad : Bool) :
    Errs P (loadNestedDict nested acc bad l) := by
  induction l generalizing acc bad with
  | nil => simp only [loadNestedDict]; split; exact errs_error hv; exact errs_ok _
  | cons kv rest ih =>
    obtain ⟨k, v⟩ := kv
    simp only [loadNestedDict]
    split
    · exact ih _ _
    · split
      · split <;> exact ih _ _
      · next e he =>
        split
        · exact ih _ _
        · exact errs_error (hn v e he)

theorem loadField_errs {P : PyExn → Prop} (nested : Json → Except PyExn Child) (f : FieldSpec) (v : Json)
    (hv : P .ValidationError) (hn : f.kind = .dictIntNested → ∀ v, Errs P (nested v)) :
    Errs P (loadField nested f v) := by
  simp only [loadField]
  split
  · exact errs_error hv
  · split
    · split
      · split; exact errs_ok _; exact errs_error hv
      · exact errs_error hv
    · split; exact errs_ok _; exact errs_error hv
    · split; exact errs_ok _; exact errs_error hv
    · split
      · split; exact errs_ok _; exact errs_error hv
      · exact errs_error hv
    · next hk =>
      split
      · next kvs _ =>
        have := loadNestedDict_errs nested hv (hn hk) kvs [] false
        split
        · exact errs_ok _
        · next e he => exact errs_error (this e he)
      · exact errs_error hv

theorem loadField_kind (nested : Json → Except PyExn Child) (f : FieldSpec) (v : Json) (x : Val)
    (h : loadField nested f v = .ok x) : x.kind = f.kind := by
  simp only [loadField] at h
  split at h
  · cases h
  · split at h
    · next hk => split at h
                 · split at h
                   · cases h; exact hk.symm
                   · cases h
                 · cases h
    · next hk => split at h
                 · cases h; exact hk.symm
                 · cases h
    · next hk => split at h
                 · cases h; exact hk.symm
                 · cases h
    · next hk => split at h
                 · split at h
                   · cases h; exact hk.symm
                   · cases h
                 · cases h
    · next hk => split at h
                 · split at h
                   · cases h; exact hk.symm
                   · cases h
                 · cases h

theorem collect_errs {P : PyExn → Prop} (hv : P .ValidationError)
    (l : List (FieldSpec × Option (Except PyExn Val))) (bad : Bool) (acc : Rec)
    (hl : ∀ p ∈ l, ∀ r, p.2 = some r → Errs P r) : Errs P (collect l bad acc) := by
  induction l generalizing bad acc with
  | nil => simp only [collect]; split; exact errs_error hv; exact errs_ok _
  | cons p rest ih =>
    have hr : ∀ q ∈ rest, ∀ r, q.2 = some r → Errs P r := fun q hq => hl q (by simp [hq])
    obtain ⟨f, o⟩ := p
    cases o with
    | none => simp only [collect]; exact ih _ _ hr
    | some r =>
      cases r with
      | ok v => simp only [collect]; exact ih _ _ hr
      | error e =>
        simp only [collect]
        split
        · exact ih _ _ hr
        · exact errs_error (hl (f, some (.error e)) (by simp) _ rfl e rfl)

/-- Every loaded entry belongs to a declared field and has that field's kind. -/
def Kinded (specs : List FieldSpec) (p : String × Val) : Prop := ∃ f ∈ specs, f.name = p.1 ∧ p.2.kind = f.kind

theorem collect_kinded (specs : List FieldSpec) (l : List (FieldSpec × Option (Except PyExn Val))) (bad : Bool) (acc r : Rec)
    (hl : ∀ p ∈ l, ∀ v, p.2 = some (.ok v) → Kinded specs (p.1.name, v))
    (hacc : ∀ p ∈ acc, Kinded specs p) (h : collect l bad acc = .ok r) : ∀ p ∈ r, Kinded specs p := by
  induction l generalizing bad acc with
  | nil =>
    simp only [collect] at h
    split at h
    · cases h
    · cases h; exact hacc
  | cons p rest ih =>
    have hr : ∀ q ∈ rest, ∀ v, q.2 = some (.ok v) → Kinded specs (q.1.name, v) := fun q hq => hl q (by simp [hq])
    obtain ⟨f, o⟩ := p
    cases o with
    | none => simp only [collect] at h; exact ih _ _ hr hacc h
    | some x =>
      cases x with
      | ok v =>
        simp only [collect] at h
        refine ih _ _ hr ?_ h
        intro q hq
        rcases List.mem_append.mp hq with hq | hq
        · exact hacc q hq
        · simp only [List.mem_singleton] at hq; subst hq
          exact hl (f, some (.ok v)) (by simp) v rfl
      | error e =>
        simp only [collect] at h
        split at h
        · exact ih _ _ hr hacc h
        · cases h

theorem loadRecord_errs {P : PyExn → Prop} (hv : P .ValidationError) (specs : List FieldSpec)
    (nested : Json → Except PyExn Child) (kvs : List (Str × Json))
    (hn : ∀ f ∈ specs, f.kind = .dictIntNested → ∀ v, Errs P (nested v)) :
    Errs P (loadRecord specs nested kvs) := by
  have hc := collect_errs (P := P) hv (specs.map fun f => (f, fieldResult nested kvs f)) false [] (by
    intro p hp r hr
    obtain ⟨f, hf, rfl⟩ := List.mem_map.mp hp
    simp only [fieldResult, Option.map_eq_some_iff] at hr
    obtain ⟨v, _, rfl⟩ := hr
    exact loadField_errs nested f v hv (hn f hf))
  simp only [loadRecord]
  split
  · split; exact errs_ok _; exact errs_error hv
  · next e he => exact errs_error (hc e he)

theorem loadRecord_kinded (specs : List FieldSpec) (nested : Json → Except PyExn Child) (kvs : List (Str × Json)) (r : Rec)
    (h : loadRecord specs nested kvs = .ok r) : ∀ p ∈ r, Kinded specs p := by
  simp only [loadRecord] at h
  split at h
  · next r' hc =>
    split at h
    · cases h
      refine collect_kinded specs _ false [] _ ?_ (by simp) hc
      intro p hp v hpv
      obtain ⟨f, hf, rfl⟩ := List.mem_map.mp hp
      simp only [fieldResult, Option.map_eq_some_iff] at hpv
      obtain ⟨j, _, hj⟩ := hpv
      exact ⟨f, hf, rfl, loadField_kind nested f j v hj⟩
    · cases h
  · cases h

theorem mem_of_lookup {α : Type} (l : List (String × α)) (k : String) (v : α) (h : l.lookup k = some v) : (k, v) ∈ l := by
  induction l with
  | nil => cases h
  | cons p rest ih =>
    obtain ⟨k', v'⟩ := p
    simp only [List.lookup] at h
    split at h
    · next heq => simp at heq; cases h; simp [heq]
    · exact List.mem_cons_of_mem _ (ih h)

/-- In a record loaded through `specs`, the entry called `name` has the kind the table gives it. -/
theorem kinded_lookup (specs : List FieldSpec) (r : Rec) (hr : ∀ p ∈ r, Kinded specs p) (name : String) (k : FieldKind)
    (hk : ∀ f ∈ specs, f.name = name → f.kind = k) (v : Val) (h : r.lookup name = some v) : v.kind = k := by
  obtain ⟨f, hf, hn, hkind⟩ := hr _ (mem_of_lookup r name v h)
  rw [hkind]; exact hk f hf hn

def IsTypeError (e : PyExn) : Prop := e = .TypeError

theorem argInt_errs (r : Rec) (name : String) (d : Option Int) (h : ∀ v, r.lookup name = some v → v.kind = .int) :
    Errs IsTypeError (argInt r name d) := by
  simp only [argInt]
  cases hl : r.lookup name with
  | none => cases d <;> simp [Errs, IsTypeError]
  | some v => have := h v hl; cases v <;> simp_all [Val.kind, Errs]

theorem argStr_errs (r : Rec) (name : String) (d : Option Str) (h : ∀ v, r.lookup name = some v → v.kind = .str) :
    Errs IsTypeError (argStr r name d) := by
  simp only [argStr]
  cases hl : r.lookup name with
  | none => cases d <;> simp [Errs, IsTypeError]
  | some v => have := h v hl; cases v <;> simp_all [Val.kind, Errs]

theorem argBool_errs (r : Rec) (name : String) (d : Bool) (h : ∀ v, r.lookup name = some v → v.kind = .bool) :
    Errs IsTypeError (argBool r name d) := by
  simp only [argBool]
  cases hl : r.lookup name with
  | none => simp [Errs]
  | some v => have := h v hl; cases v <;> simp_all [Val.kind, Errs]

theorem argStrDict_errs (r : Rec) (name : String) (h : ∀ v, r.lookup name = some v → v.kind = .dictIntStr) :
    Errs IsTypeError (argStrDict r name) := by
  simp only [argStrDict]
  cases hl : r.lookup name with
  | none => simp [Errs]
  | some v => have := h v hl; cases v <;> simp_all [Val.kind, Errs]

theorem argChildDict_errs (r : Rec) (name : String) (h : ∀ v, r.lookup name = some v → v.kind = .dictIntNested) :
    Errs IsTypeError (argChildDict r name) := by
  simp only [argChildDict]
  cases hl : r.lookup name with
  | none => simp [Errs]
  | some v => have := h v hl; cases v <;> simp_all [Val.kind, Errs]

theorem argsKnown_errs (r : Rec) (ps : List String) : Errs IsTypeError (argsKnown r ps) := by
  simp only [argsKnown]; split; exact errs_ok _; exact errs_error rfl

/-- With the generated child schema, `Child(**data)` can only fail with `TypeError`. -/
theorem mkChild_errs (r : Rec) (hr : ∀ p ∈ r, Kinded Gen.childSchema p) : Errs IsTypeError (mkChild r) := by
  have K := kinded_lookup Gen.childSchema r hr
  simp only [mkChild]
  refine errs_bind (argsKnown_errs _ _) fun _ _ => ?_
  refine errs_bind (argInt_errs _ _ _ (K _ _ (by decide))) fun _ _ => ?_
  refine errs_bind (argInt_errs _ _ _ (K _ _ (by decide))) fun _ _ => ?_
  refine errs_bind (argStr_errs _ _ _ (K _ _ (by decide))) fun _ _ => ?_
  refine errs_bind (argStrDict_errs _ _ (K _ _ (by decide))) fun _ _ => ?_
  exact errs_ok _

/-- With the generated node schema, `Node(**data)` can only fail with `TypeError`. -/
theorem mkNode_errs (r : Rec) (hr : ∀ p ∈ r, Kinded Gen.nodeSchema p) : Errs IsTypeError (mkNode r) := by
  have K := kinded_lookup Gen.nodeSchema r hr
  simp only [mkNode]
  refine errs_bind (argsKnown_errs _ _) fun _ _ => ?_
  refine errs_bind (argInt_errs _ _ _ (K _ _ (by decide))) fun _ _ => ?_
  refine errs_bind (argInt_errs _ _ _ (K _ _ (by decide))) fun _ _ => ?_
  refine errs_bind (argStr_errs _ _ _ (K _ _ (by decide))) fun _ _ => ?_
  refine errs_bind (argChildDict_errs _ _ (K _ _ (by decide))) fun _ _ => ?_
  refine errs_bind (argStr_errs _ _ _ (K _ _ (by decide))) fun _ _ => ?_
  refine errs_bind (argStr_errs _ _ _ (K _ _ (by decide))) fun _ _ => ?_
  refine errs_bind (argInt_errs _ _ _ (K _ _ (by decide))) fun _ _ => ?_
  refine errs_bind (argInt_errs _ _ _ (K _ _ (by decide))) fun _ _ => ?_
  refine errs_bind (argBool_errs _ _ _ (K _ _ (by decide))) fun _ _ => ?_
  exact errs_ok _

theorem isTypeError_shape (e : PyExn) (h : IsTypeError e) : ShapeErr e := Or.inr (Or.inl h)

theorem childPreLoad_errs (j : Json) : Errs ShapeErr (childPreLoad j) := by
  cases j <;> simp only [childPreLoad]
  case obj => exact errs_ok _
  case str => split; exact errs_error (Or.inr (Or.inr rfl)); exact errs_ok _
  case arr => split; exact errs_error (Or.inr (Or.inl rfl)); exact errs_ok _
  all_goals exact errs_error (Or.inr (Or.inl rfl))

theorem nodePreLoad_errs (j : Json) : Errs ShapeErr (nodePreLoad j) := by
  cases j <;> simp only [nodePreLoad]
  case obj => exact errs_ok _
  case str =>
    split
    · exact errs_error (Or.inr (Or.inr rfl))
    · split; exact errs_error (Or.inr (Or.inl rfl)); exact errs_ok _
  case arr => split; exact errs_error (Or.inr (Or.inl rfl)); exact errs_ok _
  all_goals exact errs_error (Or.inr (Or.inl rfl))

/-- `ChildSchema().load` raises nothing but `ValidationError`, `TypeError`, `AttributeError`. -/
theorem loadChild_errs (j : Json) : Errs ShapeErr (loadChild j) := by
  simp only [loadChild]
  split
  · next e he => exact errs_error (childPreLoad_errs j e he)
  · next kvs _ =>
    refine errs_bind (loadRecord_errs (Or.inl rfl) _ _ _ ?_) fun r hr => ?_
    · intro f hf hk
      exact absurd hk (by revert f; decide)
    · exact errs_mono (mkChild_errs r (loadRecord_kinded _ _ _ r hr)) isTypeError_shape
  · exact errs_error (Or.inl rfl)

/-- `NodeSchema().load` raises nothing but `ValidationError`, `TypeError`, `AttributeError`. -/
theorem loadNode_errs (j : Json) : Errs ShapeErr (loadNode j) := by
  simp only [loadNode]
  split
  · next e he => exact errs_error (nodePreLoad_errs j e he)
  · next kvs _ =>
    refine errs_bind (loadRecord_errs (Or.inl rfl) _ _ _ ?_) fun r hr => ?_
    · intro f _ _ v
      exact loadChild_errs v
    · exact errs_mono (mkNode_errs r (loadRecord_kinded _ _ _ r hr)) isTypeError_shape
  · exact errs_error (Or.inl rfl)

theorem loadNodes_errs (l : List (Str × Json)) (acc : PDict Int Node) : Errs ShapeErr (loadNodes acc l) := by
  induction l generalizing acc with
  | nil => exact errs_ok _
  | cons kv rest ih =>
    obtain ⟨k, v⟩ := kv
    simp only [loadNodes]
    split
    · exact ih _
    · next e he => exact errs_error (loadNode_errs v e he)

/-- The second `try` block raises nothing but `ValidationError`, `TypeError`, `AttributeError`
— whatever JSON value the file holds. -/
theorem loadRaw_errs (cur : PDict Int Node) (j : Json) : Errs ShapeErr (loadRaw cur j) := by
  cases j <;> simp only [loadRaw]
  case obj kvs => exact loadNodes_errs kvs cur
  all_goals exact errs_error (Or.inr (Or.inr rfl))

end AioMySensors
