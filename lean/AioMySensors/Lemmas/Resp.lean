/-
Non-interference: handling a message does not depend on WHICH version string was reported or which
protocol object is active, beyond the version `v` the dispatch is done with.  Two worlds that agree
on the registry, both buffers, the fault schedule, the write log and on *whether* a version is
known produce the same outcome and end in worlds that agree in the same way.
(The active protocol is read by `gateway.send` only to pick the outgoing handler table, which the
generated tables show to be the same for every version: `outgoing_table`.)
-/
import AioMySensors.Lemmas.Exact

namespace AioMySensors
open M

section
variable (v w : Ver)

/-- States that agree on everything except the reported version string and the active protocol;
the active protocols are the pair `(v, w)` under comparison or, after a version report, equal. -/
structure SimSt (s1 s2 : St) : Prop where
  nodes : s1.nodes = s2.nodes
  ibuf : s1.ibuf = s2.ibuf
  sbuf : s1.sbuf = s2.sbuf
  known : s1.pv.isSome = s2.pv.isSome
  proto : (s1.proto = v ∧ s2.proto = w) ∨ s1.proto = s2.proto

structure Sim (w1 w2 : W) : Prop where
  st : SimSt v w w1.st w2.st
  faults : w1.faults = w2.faults
  writes : w1.writes = w2.writes

/-- `x` and `y` behave alike on similar worlds. -/
structure Resp2 (x y : M α) : Prop where
  run : ∀ w1 w2, Sim v w w1 w2 → (x w1).1 = (y w2).1 ∧ Sim v w (x w1).2 (y w2).2

abbrev Resp (x : M α) : Prop := Resp2 v w x x
end

variable {v w : Ver}

local notation "SimSt'" => SimSt v w
local notation "Sim'" => Sim v w
local notation "Resp2'" => Resp2 v w
local notation "Resp'" => Resp v w

namespace Resp2

theorem pure (a : α) : Resp' (M.pure a) := ⟨fun _ _ h => ⟨rfl, h⟩⟩
theorem raise (e : Exn) : Resp' (M.raise e : M α) := ⟨fun _ _ h => ⟨rfl, h⟩⟩

theorem bind {x y : M α} {f g : α → M β} (hx : Resp2' x y) (hf : ∀ a, Resp2' (f a) (g a)) :
    Resp2' (M.bind x f) (M.bind y g) := ⟨fun w1 w2 h => by
  obtain ⟨h1, h2⟩ := hx.run w1 w2 h
  simp only [M.bind]
  cases hx1 : x w1 with
  | mk r1 w1' =>
    cases hy2 : y w2 with
    | mk r2 w2' =>
      rw [hx1, hy2] at h1 h2
      simp only at h1 h2
      subst h1
      cases r1 with
      | ok a => exact (hf a).run w1' w2' h2
      | error e => exact ⟨rfl, h2⟩⟩

theorem seq {x y : M Unit} {f g : M β} (hx : Resp2' x y) (hf : Resp2' f g) : Resp2' (M.seq x f) (M.seq y g) :=
  bind hx fun _ => hf

/-- Reading the state: the continuations must agree whenever the states they are given are similar. -/
theorem bind_getSt {f g : St → M β} (h : ∀ s1 s2, SimSt' s1 s2 → Resp2' (f s1) (g s2)) :
    Resp2' (M.bind M.getSt f) (M.bind M.getSt g) := ⟨fun w1 w2 hs => by
  simpa [M.bind, M.getSt] using (h w1.st w2.st hs.st).run w1 w2 hs⟩

theorem modifySt {f g : St → St} (h : ∀ s1 s2, SimSt' s1 s2 → SimSt' (f s1) (g s2)) :
    Resp2' (M.modifySt f) (M.modifySt g) := ⟨fun w1 w2 hs => by
  simp only [M.modifySt]
  exact ⟨trivial, ⟨h _ _ hs.st, hs.faults, hs.writes⟩⟩⟩

theorem transportWrite (line : Str) : Resp' (M.transportWrite line) := ⟨fun w1 w2 hs => by
  simp only [M.transportWrite, hs.faults]
  split
  · exact ⟨rfl, ⟨hs.st, rfl, by simp [hs.writes]⟩⟩
  · exact ⟨rfl, ⟨hs.st, rfl, by simp [hs.writes]⟩⟩
  · exact ⟨rfl, ⟨hs.st, rfl, by simp [hs.writes]⟩⟩
  · exact ⟨rfl, ⟨hs.st, by simpa using hs.faults ▸ rfl, by simp [hs.writes]⟩⟩⟩

theorem tryFinally {x y : M α} {f g : Except Exn α → M Unit} (hx : Resp2' x y) (hf : ∀ r, Resp2' (f r) (g r)) :
    Resp2' (M.tryFinally x f) (M.tryFinally y g) := ⟨fun w1 w2 h => by
  obtain ⟨h1, h2⟩ := hx.run w1 w2 h
  simp only [M.tryFinally]
  cases hx1 : x w1 with
  | mk r1 w1' =>
    cases hy2 : y w2 with
    | mk r2 w2' =>
      rw [hx1, hy2] at h1 h2
      simp only at h1 h2
      subst h1
      obtain ⟨h3, h4⟩ := (hf r1).run w1' w2' h2
      cases hf1 : f r1 w1' with
      | mk q1 v1 =>
        cases hg2 : g r1 w2' with
        | mk q2 v2 =>
          rw [hf1, hg2] at h3 h4
          simp only at h3 h4
          subst h3
          cases q1 <;> first | exact ⟨rfl, h4⟩ | exact ⟨trivial, h4⟩⟩

theorem tryCatch {x y : M α} {k l : Exn → Option (M α)} (hx : Resp2' x y)
    (hk : ∀ e, (k e = none ∧ l e = none) ∨ ∃ a b, k e = some a ∧ l e = some b ∧ Resp2' a b) :
    Resp2' (M.tryCatch x k) (M.tryCatch y l) := ⟨fun w1 w2 h => by
  obtain ⟨h1, h2⟩ := hx.run w1 w2 h
  simp only [M.tryCatch]
  cases hx1 : x w1 with
  | mk r1 w1' =>
    cases hy2 : y w2 with
    | mk r2 w2' =>
      rw [hx1, hy2] at h1 h2
      simp only at h1 h2
      subst h1
      cases r1 with
      | ok a => exact ⟨rfl, h2⟩
      | error e =>
        rcases hk e with ⟨ha, hb⟩ | ⟨a, b, ha, hb, hab⟩
        · simp only [ha, hb]; first | exact ⟨rfl, h2⟩ | exact ⟨trivial, h2⟩
        · simp only [ha, hb]; exact hab.run w1' w2' h2⟩

theorem convertExn (classes : List PyExn) (e : LibErr) (x : Except PyExn α) :
    Resp' (AioMySensors.convertExn classes e x) := by
  unfold AioMySensors.convertExn
  cases x with
  | ok a => exact pure a
  | error c => simp only []; split <;> exact raise _

end Resp2

/-! ### The handler model respects similarity -/

theorem resp_gwSend (sm : Msg) (b : Bool) : Resp' (gwSend sm b) := by
  unfold gwSend
  refine Resp2.bind_getSt fun s1 s2 hs => ?_
  rw [outgoing_table s1.proto, outgoing_table s2.proto, hs.nodes]
  split
  · exact Resp2.raise _
  · exact Resp2.raise _
  · exact Resp2.transportWrite _
  · split
    · split
      · exact Resp2.modifySt fun a b h => ⟨h.nodes, h.ibuf, by simp [h.sbuf], h.known, h.proto⟩
      · exact Resp2.transportWrite _
    · exact Resp2.transportWrite _

theorem resp_requireNode (id : Int) : Resp' (requireNode id) := by
  unfold requireNode
  refine Resp2.bind_getSt fun s1 s2 hs => ?_
  rw [hs.nodes]
  split
  · exact Resp2.pure _
  · exact Resp2.raise _

theorem resp_setNode (id : Int) (n : Node) : Resp' (setNode id n) :=
  Resp2.modifySt fun a b h => ⟨by simp [h.nodes], h.ibuf, h.sbuf, h.known, h.proto⟩

theorem resp_allocNode : Resp' allocNode :=
  Resp2.modifySt fun a b h => ⟨by simp [h.nodes], h.ibuf, h.sbuf, h.known, h.proto⟩

theorem resp_flushList (l : List (Key × Msg)) : Resp' (flushList l) := by
  induction l with
  | nil => exact Resp2.pure _
  | cons x xs ih =>
    obtain ⟨k, bm⟩ := x
    unfold flushList
    refine Resp2.seq (resp_gwSend _ _) (Resp2.seq ?_ ih)
    refine Resp2.modifySt fun a b h => ?_
    rw [h.sbuf]
    split
    · exact ⟨h.nodes, h.ibuf, by simp [h.sbuf], h.known, h.proto⟩
    · exact h

theorem resp_flush (m : Msg) : Resp' (flush m) := by
  unfold flush
  refine Resp2.bind_getSt fun s1 s2 hs => ?_
  rw [hs.sbuf]
  exact Resp2.seq (resp_flushList _) (Resp2.pure _)

/-- Proof search for `Resp`. -/
macro "resp_auto" : tactic => `(tactic| repeat' (first
  | exact Resp2.pure _ | exact Resp2.raise _ | exact Resp2.transportWrite _
  | exact resp_setNode _ _ | exact resp_allocNode | exact resp_requireNode _ | exact resp_gwSend _ _
  | exact Resp2.convertExn _ _ _ | exact resp_flush _
  | refine Resp2.seq ?_ ?_ | refine Resp2.bind ?_ (fun _ => ?_)
  | split | dsimp only))

theorem resp_wrapMissingPV {inner : Msg → M Msg} (m : Msg) (hi : Resp' (inner m)) : Resp' (wrapMissingPV inner m) := by
  unfold wrapMissingPV
  refine Resp2.tryFinally hi fun r => ?_
  refine Resp2.bind_getSt fun s1 s2 hs => ?_
  have hn : s1.pv.isNone = s2.pv.isNone := by
    have := hs.known
    cases h1 : s1.pv <;> cases h2 : s2.pv <;> simp_all
  rw [hn]
  cases r <;> (dsimp only; split; exact resp_gwSend _ _; exact Resp2.pure _)

theorem resp_wrapMissingNC {inner : Msg → M Msg} (m : Msg) (hi : Resp' (inner m)) : Resp' (wrapMissingNC inner m) := by
  unfold wrapMissingNC
  refine Resp2.tryCatch hi fun e => ?_
  by_cases hc : missingCaught e = true
  · right
    simp only [hc, if_true]
    refine ⟨_, _, rfl, rfl, ?_⟩
    refine Resp2.bind_getSt fun s1 s2 hs => ?_
    rw [hs.ibuf]
    split
    · exact Resp2.raise _
    · refine Resp2.seq (resp_gwSend _ _) (Resp2.seq ?_ (Resp2.raise _))
      exact Resp2.modifySt fun a b h => ⟨h.nodes, by simp [h.ibuf], h.sbuf, h.known, h.proto⟩
  · left
    simp [hc]

theorem resp_hVersion (m : Msg) : Resp' (hVersion m) := by
  unfold hVersion
  refine Resp2.bind (Resp2.convertExn _ _ _) fun v => ?_
  refine Resp2.seq ?_ (Resp2.pure _)
  exact Resp2.modifySt fun a b h => ⟨h.nodes, h.ibuf, h.sbuf, rfl, Or.inr rfl⟩

theorem resp_hIdRequest (m : Msg) : Resp' (hIdRequest m) := by
  unfold hIdRequest
  refine Resp2.bind_getSt fun s1 s2 hs => ?_
  rw [hs.nodes]
  resp_auto

theorem resp_runLeaf (env : Env) (b : Body) (f : Msg → M Msg) (hf : runLeaf env b = some f) (m : Msg) :
    Resp' (f m) := by
  cases b <;> simp only [runLeaf, Option.some.injEq] at hf <;> try (exact absurd hf (by simp))
  all_goals subst hf
  · unfold hSet; resp_auto
  · unfold hReq; resp_auto
  · exact resp_hVersion m
  · exact resp_hIdRequest m
  · unfold hConfig; resp_auto
  · unfold hTime; resp_auto
  · unfold hBattery; resp_auto
  · unfold hSketchName; resp_auto
  · unfold hSketchVersion; resp_auto
  · unfold hGatewayReady; resp_auto
  · unfold hDiscoverResponse; resp_auto
  · unfold hHeartbeat20 heartbeatValue; resp_auto
  · unfold hHeartbeat22 heartbeatValue; resp_auto
  · unfold hPreSleep22; resp_auto

theorem resp_runPre (b : Body) (m : Msg) : Resp' (runPre b m) := by
  cases b <;> first
    | exact Resp2.raise _
    | (simp only [runPre, prePresentation20]
       refine Resp2.modifySt fun a c h => ?_
       rw [h.ibuf]
       split
       · exact ⟨h.nodes, by simp [h.ibuf], h.sbuf, h.known, h.proto⟩
       · exact h)

theorem resp_applyLayers (ls : List Layer) (base : Msg → M Msg) (m : Msg) (hb : Resp' (base m)) :
    Resp' (applyLayers ls base m) := by
  induction ls with
  | nil => simpa [applyLayers] using hb
  | cons l ls ih =>
    cases l with
    | wrap wr =>
      cases wr with
      | missingPV => simpa [applyLayers] using resp_wrapMissingPV m ih
      | missingNC => simpa [applyLayers] using resp_wrapMissingNC m ih
    | pre b =>
      simp only [applyLayers]
      exact Resp2.seq (resp_runPre b m) ih

theorem resp_runTyped (env : Env) (och : Option Chain) (m : Msg) : Resp' (runTyped env och m) := by
  cases och with
  | none => exact Resp2.pure _
  | some ch =>
    simp only [runTyped, runInner]
    cases hf : runLeaf env ch.base with
    | none => exact Resp2.raise _
    | some f => exact resp_applyLayers _ f m (resp_runLeaf env _ f hf m)

theorem resp_runBase (env : Env) (v : Ver) (b : Body) (m : Msg) : Resp' (runBase env v b m) := by
  cases b
  case presentation14 =>
    simp only [runBase, hPresentation]
    split
    · refine Resp2.seq (resp_setNode _ _) ?_
      split
      · exact resp_runTyped env _ m
      · exact Resp2.pure _
    · resp_auto
  case internal14 =>
    simp only [runBase, hInternal]
    split
    · exact Resp2.raise _
    · exact resp_runTyped env _ m
  case stream14 =>
    simp only [runBase, hStream]
    refine Resp2.bind (resp_requireNode _) fun _ => ?_
    split
    · exact Resp2.raise _
    · exact resp_runTyped env _ m
  case presentation20 => exact Resp2.raise _
  case set14 => exact resp_runLeaf env .set14 _ rfl m
  case req14 => exact resp_runLeaf env .req14 _ rfl m
  case iVersion14 => exact resp_runLeaf env .iVersion14 _ rfl m
  case iIdRequest14 => exact resp_runLeaf env .iIdRequest14 _ rfl m
  case iConfig14 => exact resp_runLeaf env .iConfig14 _ rfl m
  case iTime14 => exact resp_runLeaf env .iTime14 _ rfl m
  case iBatteryLevel14 => exact resp_runLeaf env .iBatteryLevel14 _ rfl m
  case iSketchName14 => exact resp_runLeaf env .iSketchName14 _ rfl m
  case iSketchVersion14 => exact resp_runLeaf env .iSketchVersion14 _ rfl m
  case iGatewayReady20 => exact resp_runLeaf env .iGatewayReady20 _ rfl m
  case iDiscoverResponse20 => exact resp_runLeaf env .iDiscoverResponse20 _ rfl m
  case iHeartbeatResponse20 => exact resp_runLeaf env .iHeartbeatResponse20 _ rfl m
  case iHeartbeatResponse22 => exact resp_runLeaf env .iHeartbeatResponse22 _ rfl m
  case iPreSleepNotification22 => exact resp_runLeaf env .iPreSleepNotification22 _ rfl m

/-- **Dispatch respects similarity**: with the dispatch version fixed, the outcome, the writes, the
registry and both buffers do not depend on the reported version string or the active protocol. -/
theorem resp_dispatch (env : Env) (v : Ver) (m : Msg) : Resp' (dispatch env v m) := by
  unfold dispatch
  split
  · exact Resp2.raise _
  · exact resp_applyLayers _ _ m (resp_runBase env v _ m)

theorem resp_apiSend (obj : Option Msg) (b : Bool) : Resp' (apiSend obj b) := by
  unfold apiSend
  cases obj with
  | none => exact Resp2.raise _
  | some sm => exact resp_gwSend sm b

end AioMySensors
