/-
The generated control skeletons of the gateway context (Generated/LifecycleBodies.lean) mean what
`Model/Lifecycle.lean` implements.

Three parts.
1. (generic) Two machines whose trees agree on every path of possible outcomes (`Res.same`) pass through the same system
   states, whatever the schedule (`sim_run`).
2. (about the model only) The machine started on the phase program `tLoad` / `tSaverIter` — the hand-written trees of
   `Model/LitLifecycle.lean` — takes exactly the steps of `Lifecycle.step` (`ref_step`, `ref_run`): `mainStep` and
   `saverStep` FOLLOW that phase program, for every fault record, every kind of exception class, every state.
3. (about the generated text) The tree of `async with` over the generated `__aenter__` / `__aexit__` (with the generated
   `start`, `stop`, `cancel_save` inside) agrees with `tLoad`, and the tree of the generated saver loop body agrees with
   `tSaverIter` (`main_tree_same`, `saver_tree_same`: closed facts about the whole generated text, by evaluation).
Together: **`generated_runs_model`**.  The C16 theorems are transferred to the generated machine in `exit_clean_generated`.
-/
import AioMySensors.Generated.LifecycleBodies
import AioMySensors.Lemmas.Lifecycle
import AioMySensors.Lemmas.LifecycleEnter

namespace AioMySensors.LL
open AioMySensors AioMySensors.Lifecycle

/-! ### 1. Trees that agree run alike -/

theorem same_done_inv {o : Out} {r' : Res} (h : Res.same (.done o) r' = true) : r' = .done o := by
  cases r' <;> simp [Res.same] at h
  rw [h]

theorem same_await_inv {op : Op} {k : Out → Res} {r' : Res} (h : Res.same (.await op k) r' = true) :
    ∃ k', r' = .await op k' ∧ ∀ o ∈ possible op, Res.same (k o) (k' o) = true := by
  cases r' <;> simp [Res.same] at h
  next op' k' =>
    obtain ⟨h1, h2⟩ := h
    subst h1
    exact ⟨k', rfl, h2⟩

theorem same_test_inv {k : Bool → Res} {r' : Res} (h : Res.same (.test k) r' = true) :
    ∃ k', r' = .test k' ∧ ∀ b, Res.same (k b) (k' b) = true := by
  cases r' <;> simp [Res.same] at h
  next k' => exact ⟨k', rfl, fun b => by cases b; exact h.2; exact h.1⟩

theorem same_silent_inv {a : Silent} {r r' : Res} (h : Res.same (.silent a r) r' = true) :
    ∃ r2, r' = .silent a r2 ∧ Res.same r r2 = true := by
  cases r' <;> simp [Res.same] at h
  next a' r2 =>
    obtain ⟨h1, h2⟩ := h
    subst h1
    exact ⟨r2, rfl, h2⟩

theorem same_bad_inv {r' : Res} (h : Res.same .bad r' = true) : False := by
  cases r' <;> simp [Res.same] at h

theorem settle_await (op : Op) (k : Out → Res) (c : Bool) : settle (.await op k) c = (.await op k, c) := by
  simp [settle]

theorem settle_done (o : Out) (c : Bool) : settle (.done o) c = (.done o, c) := by
  simp [settle]

theorem settle_test (k : Bool → Res) (c : Bool) : settle (.test k) c = settle (k c) c := by
  simp [settle]

theorem settle_set (r : Res) (c : Bool) : settle (.silent .setCancel r) c = settle r true := by
  simp [settle]

theorem settle_clear (r : Res) (c : Bool) : settle (.silent .clearCancel r) c = settle r false := by
  simp [settle]

theorem same_settle (r r' : Res) (c : Bool) (h : Res.same r r' = true) :
    (settle r c).2 = (settle r' c).2 ∧ Res.same (settle r c).1 (settle r' c).1 = true := by
  induction r generalizing r' c with
  | done o => rw [same_done_inv h]; simp [settle_done, Res.same]
  | await op k _ =>
    obtain ⟨k', rfl, h2⟩ := same_await_inv h
    rw [settle_await, settle_await]
    exact ⟨rfl, h⟩
  | test k ih =>
    obtain ⟨k', rfl, h2⟩ := same_test_inv h
    simp only [settle_test]
    exact ih c _ c (h2 c)
  | silent a r ih =>
    obtain ⟨r2, rfl, h2⟩ := same_silent_inv h
    cases a
    · simp only [settle_set]; exact ih _ true h2
    · simp only [settle_clear]; exact ih _ false h2
  | bad => exact (same_bad_inv h).elim

theorem completeMain_possible (κ : Classes) (op : Op) (s : Sys) : (completeMain κ op s).2 ∈ possible op := by
  obtain ⟨a, b, c, d⟩ := κ
  cases op <;> simp only [completeMain, possible] <;> (repeat' split) <;> (try cases a) <;> (try cases b) <;>
    (try cases c) <;> (try cases d) <;> simp

theorem completeSaver_possible (op : Op) (s : Sys) (lands : Bool) : (completeSaver op s lands).2 ∈ possible op := by
  cases op <;> simp only [completeSaver, possible] <;> (repeat' split) <;> simp

theorem arriveMain_same {r r' : Res} (h : Res.same r r' = true) (s : Sys) : arriveMain r s = arriveMain r' s := by
  cases r with
  | done o => rw [same_done_inv h]
  | await op k => obtain ⟨k', rfl, _⟩ := same_await_inv h; rfl
  | test k => obtain ⟨k', rfl, _⟩ := same_test_inv h; rfl
  | silent a r => obtain ⟨r2, rfl, _⟩ := same_silent_inv h; rfl
  | bad => exact (same_bad_inv h).elim

theorem arriveSaver_same {r r' : Res} (h : Res.same r r' = true) (o : Out) (s : Sys) :
    arriveSaver r o s = arriveSaver r' o s := by
  cases r with
  | done o => rw [same_done_inv h]
  | await op k => obtain ⟨k', rfl, _⟩ := same_await_inv h; cases op <;> rfl
  | test k => obtain ⟨k', rfl, _⟩ := same_test_inv h; rfl
  | silent a r => obtain ⟨r2, rfl, _⟩ := same_silent_inv h; rfl
  | bad => exact (same_bad_inv h).elim

theorem loopBack_same {i i' r r' : Res} (hi : Res.same i i' = true) (h : Res.same r r' = true) :
    Res.same (loopBack i r) (loopBack i' r') = true := by
  cases r with
  | done o =>
    rw [same_done_inv h]
    cases o <;> simp only [loopBack] <;> first | exact hi | exact h | simp [Res.same]
  | await op k => obtain ⟨k', rfl, _⟩ := same_await_inv h; exact h
  | test k => obtain ⟨k', rfl, _⟩ := same_test_inv h; exact h
  | silent a r => obtain ⟨r2, rfl, _⟩ := same_silent_inv h; exact h
  | bad => exact (same_bad_inv h).elim

/-- Same system state, same `_cancel_save` flag, trees that agree. -/
def Sim (a b : St) : Prop :=
  a.sys = b.sys ∧ a.cancelSet = b.cancelSet ∧ Res.same a.ctl b.ctl = true ∧ Res.same a.iter b.iter = true ∧
  Res.same a.sctl b.sctl = true

theorem sim_main (κ : Classes) (a b : St) (h : Sim a b) : Sim (mainStepL κ a) (mainStepL κ b) := by
  obtain ⟨sa, ca, fa, ia, sca⟩ := a
  obtain ⟨sb, cb, fb, ib, scb⟩ := b
  obtain ⟨h1, h2, h3, h4, h5⟩ := h
  simp only at h1 h2 h3 h4 h5
  subst h1 h2
  cases ca with
  | await op k =>
    obtain ⟨k', rfl, hk⟩ := same_await_inv h3
    have hs := same_settle _ _ fa (hk _ (completeMain_possible κ op sa))
    simp only [mainStepL, Sim]
    exact ⟨arriveMain_same hs.2 _, hs.1, hs.2, h4, h5⟩
  | done o => rw [same_done_inv h3]; exact ⟨rfl, rfl, by simp [mainStepL, Res.same], h4, h5⟩
  | test k => obtain ⟨k', rfl, _⟩ := same_test_inv h3; exact ⟨rfl, rfl, h3, h4, h5⟩
  | silent x r => obtain ⟨r2, rfl, _⟩ := same_silent_inv h3; exact ⟨rfl, rfl, h3, h4, h5⟩
  | bad => exact (same_bad_inv h3).elim

theorem mainRunnableL_same (a b : St) (h : Sim a b) : mainRunnableL a = mainRunnableL b := by
  obtain ⟨sa, ca, fa, ia, sca⟩ := a
  obtain ⟨sb, cb, fb, ib, scb⟩ := b
  obtain ⟨h1, h2, h3, h4, h5⟩ := h
  simp only at h1 h2 h3 h4 h5
  subst h1 h2
  cases ca with
  | await op k => obtain ⟨k', rfl, _⟩ := same_await_inv h3; cases op <;> rfl
  | done o => have := same_done_inv h3; subst this; rfl
  | test k => obtain ⟨k', rfl, _⟩ := same_test_inv h3; rfl
  | silent x r => obtain ⟨r2, rfl, _⟩ := same_silent_inv h3; rfl
  | bad => exact (same_bad_inv h3).elim

theorem sim_saver (a b : St) (lands : Bool) (h : Sim a b) : Sim (saverStepL a lands) (saverStepL b lands) := by
  obtain ⟨sa, ca, fa, ia, sca⟩ := a
  obtain ⟨sb, cb, fb, ib, scb⟩ := b
  obtain ⟨h1, h2, h3, h4, h5⟩ := h
  simp only at h1 h2 h3 h4 h5
  subst h1 h2
  simp only [saverStepL]
  split
  · split
    · exact ⟨rfl, rfl, h3, h4, h5⟩
    · have hs := same_settle _ _ fa h4
      exact ⟨arriveSaver_same hs.2 _ _, hs.1, h3, h4, hs.2⟩
  · cases sca with
    | await op k =>
      obtain ⟨k', rfl, hk⟩ := same_await_inv h5
      have hs := same_settle _ _ fa (loopBack_same h4 (hk _ (completeSaver_possible op sa lands)))
      exact ⟨arriveSaver_same hs.2 _ _, hs.1, h3, h4, hs.2⟩
    | done o => rw [same_done_inv h5]; exact ⟨rfl, rfl, h3, h4, by simp [Res.same]⟩
    | test k => obtain ⟨k', rfl, _⟩ := same_test_inv h5; exact ⟨rfl, rfl, h3, h4, h5⟩
    | silent x r => obtain ⟨r2, rfl, _⟩ := same_silent_inv h5; exact ⟨rfl, rfl, h3, h4, h5⟩
    | bad => exact (same_bad_inv h5).elim

theorem sim_step (κ : Classes) (a b : St) (c : Choice) (h : Sim a b) : Sim (stepL κ a c) (stepL κ b c) := by
  cases c with
  | main =>
    simp only [stepL, mainRunnableL_same a b h]
    split
    · exact sim_main κ a b h
    · exact h
  | saver lands =>
    simp only [stepL, h.1]
    split
    · exact sim_saver a b lands h
    · exact h
  | tick d =>
    simp only [stepL, h.1]
    split
    · exact h
    · exact ⟨rfl, h.2.1, h.2.2.1, h.2.2.2.1, h.2.2.2.2⟩
  | mutate =>
    obtain ⟨sa, ca, fa, ia, sca⟩ := a
    obtain ⟨sb, cb, fb, ib, scb⟩ := b
    obtain ⟨h1, h2, h3, h4, h5⟩ := h
    simp only at h1 h2 h3 h4 h5
    subst h1 h2
    cases ca with
    | await op k => obtain ⟨k', rfl, _⟩ := same_await_inv h3; cases op <;> exact ⟨rfl, rfl, h3, h4, h5⟩
    | done o => have := same_done_inv h3; subst this; exact ⟨rfl, rfl, h3, h4, h5⟩
    | test k => obtain ⟨k', rfl, _⟩ := same_test_inv h3; exact ⟨rfl, rfl, h3, h4, h5⟩
    | silent x r => obtain ⟨r2, rfl, _⟩ := same_silent_inv h3; exact ⟨rfl, rfl, h3, h4, h5⟩
    | bad => exact (same_bad_inv h3).elim

theorem sim_run (κ : Classes) (a b : St) (cs : List Choice) (h : Sim a b) : Sim (runL κ a cs) (runL κ b cs) := by
  induction cs generalizing a b with
  | nil => exact h
  | cons c cs ih => exact ih _ _ (sim_step κ a b c h)

theorem sim_init (m m' i i' : Res) (hm : Res.same m m' = true) (hi : Res.same i i' = true) (f : Faults) (t v : Nat) :
    Sim (initL m i f t v) (initL m' i' f t v) := by
  have hs := same_settle _ _ false hm
  exact ⟨arriveMain_same hs.2 _, hs.1, hs.2, hi, hi⟩

/-! ### 2. `Lifecycle.step` follows the phase program -/

/-- The exception a fault position raises. -/
def exnOf (κ : Classes) : Exc → Exn
  | .loadErr => ⟨.loadErr, κ.load⟩
  | .connectErr => ⟨.connectErr, κ.connect⟩
  | .bodyErr => ⟨.bodyErr, κ.body⟩
  | .disconnectErr => ⟨.disconnectErr, κ.disconnect⟩
  | .saveErr => ⟨.saveErr, false⟩
  | .cancelled => ⟨.cancelled, true⟩
  | .bodyCancel => ⟨.bodyCancel, true⟩

/-- The model's `pending` as the exception in flight the tree carries. -/
def pendOut (κ : Classes) : Option Exc → Out
  | none => .ok
  | some x => .raise (exnOf κ x)

theorem tagOf_pendOut (κ : Classes) (p : Option Exc) : tagOf (pendOut κ p) = p := by
  cases p with
  | none => rfl
  | some x => cases x <;> rfl

/-- The model's state without its bookkeeping of the exception in flight (the tree carries that). -/
def hide (s : Sys) : Sys := { s with pending := none }

/-- Where the main coroutine of the model is in the phase program. -/
def MainAt (κ : Classes) (s : Sys) (ctl : Res) (cset : Bool) : Prop :=
  match s.main with
  | .load => ctl = tLoad
  | .start => ctl = tStart
  | .connect => ctl = tConnect ∧ cset = true
  | .body => ctl = tBody ∧ cset = true
  | .disconnect => ctl = tDisconnect (pendOut κ s.pending) ∧ cset = true
  | .stopCancel => ctl = tStopCancel (pendOut κ s.pending)
  | .stopAwait => ctl = tStopAwait (pendOut κ s.pending)
  | .finalSave .opening => ctl = tSave (pendOut κ s.pending)
  | .finalSave .writing => ctl = tSaveWrite (pendOut κ s.pending)
  | .finalSave .closing => ctl = tSaveClose (pendOut κ s.pending)
  | .finalSave .unwinding => False
  | .finished => ∃ o, ctl = .done o

/-- Where the saver of the model is in one iteration of its loop. -/
def SaverAt (s : Sys) (sctl : Res) : Prop :=
  match s.saver with
  | .inSave .opening => sctl = tSaverIter sleepCatchesCancel
  | .inSave .writing => sctl = tsWrite sleepCatchesCancel
  | .inSave .closing => sctl = tsClose sleepCatchesCancel
  | .inSave .unwinding => sctl = tSaveUnwind (.raise ⟨.cancelled, true⟩)
  | .sleeping _ => sctl = tsSleep sleepCatchesCancel
  | _ => True

theorem mainAt_congr (κ : Classes) {s s' : Sys} {ctl : Res} {c : Bool} (h1 : s'.main = s.main)
    (h2 : s'.pending = s.pending) (h : MainAt κ s ctl c) : MainAt κ s' ctl c := by
  unfold MainAt at *
  rw [h1, h2]
  exact h

def Ref (κ : Classes) (st : St) (s : Sys) : Prop :=
  st.sys = hide s ∧ MainAt κ s st.ctl st.cancelSet ∧ st.iter = tSaverIter sleepCatchesCancel ∧ SaverAt s st.sctl

theorem ref_init (κ : Classes) (f : Faults) (t v : Nat) :
    Ref κ (initL tLoad (tSaverIter sleepCatchesCancel) f t v) (init f t v) := by
  simp [Ref, initL, tLoad, settle_await, arriveMain, beginMain, phase, hide, init, MainAt, SaverAt]

theorem ref_main (κ : Classes) (st : St) (s : Sys) (h : Ref κ st s) :
    mainRunnableL st = mainRunnable s ∧ (mainRunnable s = true → Ref κ (mainStepL κ st) (mainStep s)) := by
  obtain ⟨sys, ctl, cset, iter, sctl⟩ := st
  obtain ⟨f, main, saver, cancelReq, now, t0, reg, snap, fsnap, file, saveStarts, loaded, started, entered,
    disconnectTried, finalSaveDone, pending, outcome⟩ := s
  obtain ⟨loadFails, connectFails, bodyRaises, disconnectFails, finalSaveFails, bodyCancelled⟩ := f
  obtain ⟨h1, h2, h3, h4⟩ := h
  simp only at h1 h2 h3 h4
  subst h1 h3
  have hsup := await_suppresses_cancel
  rcases main with _|_|_|_|_|_|_|⟨_|_|_|_⟩|_
  case load =>
    simp only [MainAt] at h2; subst h2
    cases file <;> cases loadFails <;>
      simp [Ref, MainAt, SaverAt, mainRunnableL, mainRunnable, mainStepL, mainStep, tLoad, tStart, completeMain, hide,
        settle_await, settle_done, arriveMain, beginMain, phase, tagOf] <;> exact h4
  case start =>
    simp only [MainAt] at h2; subst h2
    simp [Ref, MainAt, SaverAt, mainRunnableL, mainRunnable, mainStepL, mainStep, tStart, tConnect, completeMain, hide,
      settle_await, settle_set, arriveMain, beginMain, phase]
  case connect =>
    simp only [MainAt] at h2; obtain ⟨h2, rfl⟩ := h2; subst h2
    cases connectFails <;>
      simp [Ref, MainAt, SaverAt, mainRunnableL, mainRunnable, mainStepL, mainStep, tConnect, tBody, tStop, tStopCancel,
        completeMain, hide, settle_await, settle_test, arriveMain, beginMain, phase, pendOut, exnOf] <;> exact h4
  case body =>
    simp only [MainAt] at h2; obtain ⟨h2, rfl⟩ := h2; subst h2
    cases bodyCancelled <;> cases bodyRaises <;>
      simp [Ref, MainAt, SaverAt, mainRunnableL, mainRunnable, mainStepL, mainStep, tBody, tDisconnect, bodyExit,
        completeMain, hide, settle_await, arriveMain, beginMain, phase, pendOut, exnOf] <;> exact h4
  case disconnect =>
    simp only [MainAt] at h2; obtain ⟨h2, rfl⟩ := h2; subst h2
    cases disconnectFails <;>
      simp [Ref, MainAt, SaverAt, mainRunnableL, mainRunnable, mainStepL, mainStep, tDisconnect, tStop, tStopCancel,
        completeMain, hide, settle_await, settle_test, arriveMain, beginMain, phase, pendOut, exnOf] <;> exact h4
  case stopCancel =>
    simp only [MainAt] at h2; subst h2
    simp [Ref, MainAt, SaverAt, mainRunnableL, mainRunnable, mainStepL, mainStep, tStopCancel, tStopAwait,
      completeMain, hide, settle_await, arriveMain, beginMain, phase]
    exact h4
  case stopAwait =>
    simp only [MainAt] at h2; subst h2
    rcases saver with _|_|⟨_|_|_|_⟩|w|_|_|_ <;>
      simp [Ref, MainAt, SaverAt, mainRunnableL, mainRunnable, mainStepL, mainStep, tStopAwait, tSave, SaverPc.alive,
        completeMain, hide, settle_await, settle_clear, settle_done, arriveMain, beginMain, phase, tagOf, hsup]
  case finalSave.opening =>
    simp only [MainAt] at h2; subst h2
    cases finalSaveFails <;>
      simp [Ref, MainAt, SaverAt, mainRunnableL, mainRunnable, mainStepL, mainStep, tSave, tSaveWrite,
        completeMain, hide, settle_await, settle_done, arriveMain, beginMain, phase, tagOf] <;> exact h4
  case finalSave.writing =>
    simp only [MainAt] at h2; subst h2
    simp [Ref, MainAt, SaverAt, mainRunnableL, mainRunnable, mainStepL, mainStep, tSaveWrite, tSaveClose,
      completeMain, hide, settle_await, arriveMain, beginMain, phase]
    exact h4
  case finalSave.closing =>
    simp only [MainAt] at h2; subst h2
    simp [Ref, MainAt, SaverAt, mainRunnableL, mainRunnable, mainStepL, mainStep, tSaveClose,
      completeMain, hide, settle_done, arriveMain, tagOf_pendOut]
    exact h4
  case finalSave.unwinding => exact h2.elim
  case finished =>
    obtain ⟨o, rfl⟩ := h2
    simp [mainRunnableL, mainRunnable]

theorem ref_saver (κ : Classes) (st : St) (s : Sys) (lands : Bool) (h : Ref κ st s) (hr : saverRunnable s = true) :
    Ref κ (saverStepL st lands) (saverStep s lands) := by
  obtain ⟨sys, ctl, cset, iter, sctl⟩ := st
  obtain ⟨f, main, saver, cancelReq, now, t0, reg, snap, fsnap, file, saveStarts, loaded, started, entered,
    disconnectTried, finalSaveDone, pending, outcome⟩ := s
  obtain ⟨h1, h2, h3, h4⟩ := h
  simp only at h1 h2 h3 h4
  subst h1 h3
  have hpass := save_passes_cancel
  rcases Bool.eq_false_or_eq_true sleepCatchesCancel with hsc | hsc <;>
  rcases saver with _|_|⟨_|_|_|_⟩|w|_|_|_ <;> simp only [SaverAt, hsc] at h4 ⊢ <;> (try subst h4) <;> cases cancelReq <;>
    simp [saverRunnable] at hr <;>
    simp [Ref, SaverAt, saverStepL, saverStep, beginSave, tSaverIter, tsWrite, tsClose, tsSleep, tSaveUnwind,
      completeSaver, loopBack, hide, settle_await, settle_done, arriveSaver, hpass, hsc] <;>
    (try cases lands) <;> (try simp) <;> exact mainAt_congr κ rfl rfl h2

theorem hide_saverRunnable (s : Sys) : saverRunnable (hide s) = saverRunnable s := rfl

theorem hide_tick (s : Sys) (d : Nat) : tickStep (hide s) d = hide (tickStep s d) := by
  obtain ⟨f, main, saver, cancelReq, now, t0, reg, snap, fsnap, file, saveStarts, loaded, started, entered,
    disconnectTried, finalSaveDone, pending, outcome⟩ := s
  rcases saver with _|_|⟨_|_|_|_⟩|w|_|_|_ <;> rfl

/-- **`Lifecycle.step` follows the phase program**: from related states, whatever the scheduler chooses, the machine
running `tLoad` / `tSaverIter` and the model take the same step. -/
theorem ref_step (κ : Classes) (st : St) (s : Sys) (c : Choice) (h : Ref κ st s) : Ref κ (stepL κ st c) (step s c) := by
  cases c with
  | main =>
    obtain ⟨hr, hs⟩ := ref_main κ st s h
    simp only [stepL, step, hr]
    split
    · next hrun => exact hs hrun
    · exact h
  | saver lands =>
    simp only [stepL, step, h.1, hide_saverRunnable]
    split
    · next hrun => exact ref_saver κ st s lands h hrun
    · exact h
  | tick d =>
    simp only [stepL, step, h.1, hide_saverRunnable]
    split
    · exact h
    · have hsv : (tickStep s d).saver = s.saver := by unfold tickStep; split <;> rfl
      have hmn : (tickStep s d).main = s.main := by unfold tickStep; split <;> rfl
      have hpd : (tickStep s d).pending = s.pending := by unfold tickStep; split <;> rfl
      refine ⟨hide_tick s d, mainAt_congr κ hmn hpd h.2.1, h.2.2.1, ?_⟩
      have h4 := h.2.2.2
      unfold SaverAt at *
      rw [hsv]
      exact h4
  | mutate =>
    obtain ⟨sys, ctl, cset, iter, sctl⟩ := st
    obtain ⟨f, main, saver, cancelReq, now, t0, reg, snap, fsnap, file, saveStarts, loaded, started, entered,
      disconnectTried, finalSaveDone, pending, outcome⟩ := s
    obtain ⟨h1, h2, h3, h4⟩ := h
    simp only at h1 h2 h3 h4
    subst h1 h3
    rcases main with _|_|_|_|_|_|_|⟨_|_|_|_⟩|_ <;> simp only [MainAt] at h2
    all_goals first
      | (obtain ⟨o, rfl⟩ := h2; exact ⟨rfl, ⟨o, rfl⟩, rfl, h4⟩)
      | (obtain ⟨rfl, rfl⟩ := h2; exact ⟨rfl, ⟨rfl, rfl⟩, rfl, h4⟩)
      | (subst h2; exact ⟨rfl, rfl, rfl, h4⟩)

theorem ref_run (κ : Classes) (st : St) (s : Sys) (cs : List Choice) (h : Ref κ st s) :
    Ref κ (runL κ st cs) (run s cs) := by
  induction cs generalizing st s with
  | nil => exact h
  | cons c cs ih => exact ih _ _ (ref_step κ st s c h)

/-! ### 3. The generated skeletons -/

open GenLifecycle in
/-- The whole context statement over the generated `__aenter__` / `__aexit__` (with the generated `start`, `stop` and
`cancel_save` inside): its tree IS the phase program, on every path of possible outcomes. -/
theorem main_tree_same : Res.same (tree (contextStmt aenter aexit)) tLoad = true := by decide

open GenLifecycle in
/-- The generated body of `save_on_schedule`'s loop is one iteration of the saver as `saverStep` has it; whether a
cancellation in the sleep ends the loop or the task is what the generated except table says (`sleepCatchesCancel`). -/
theorem saver_tree_same : Res.same (tree saveOnSchedule.loopBody) (tSaverIter sleepCatchesCancel) = true := by decide

open GenLifecycle in
/-- Without a persistence file the generated context statement is connect, body, disconnect and nothing else (every
use of the persistence object is under an `if self.persistence`). -/
theorem plain_tree_same : Res.same (den false (contextStmt aenter aexit) .done) tPlain = true := by decide

/-- The generated `save_on_schedule` is a `while True:` loop (so that `loopBody` is its body). -/
theorem saver_is_loop : ∃ b, GenLifecycle.saveOnSchedule = .loopForever b := ⟨_, rfl⟩

/-- The system whose main coroutine runs the generated context statement and whose saver task runs the generated loop. -/
def genInit (f : Faults) (t v : Nat) : St :=
  initL (tree (contextStmt GenLifecycle.aenter GenLifecycle.aexit)) (tree GenLifecycle.saveOnSchedule.loopBody) f t v

/-- **The generated text runs like the model.**  For every fault record, every kind of exception class at the failing
steps, every start time and file content and EVERY schedule: the machine that interprets the skeletons generated from
`Gateway.__aenter__` / `__aexit__`, `Persistence.start` (`save_on_schedule`, `cancel_save`) and `Persistence.stop` is, step
for step, in the state `Lifecycle.run` is in (up to the model's private bookkeeping of the exception in flight). -/
theorem generated_runs_model (κ : Classes) (f : Faults) (t v : Nat) (cs : List Choice) :
    (runL κ (genInit f t v) cs).sys = hide (run (init f t v) cs) := by
  have h1 := sim_run κ _ _ cs (sim_init _ _ _ _ main_tree_same saver_tree_same f t v)
  have h2 := ref_run κ _ _ cs (ref_init κ f t v)
  exact h1.1.trans h2.1

/-- The main coroutine of the generated machine is finished exactly when the model's is, and runnable exactly when
the model's is. -/
theorem generated_main (κ : Classes) (f : Faults) (t v : Nat) (cs : List Choice) :
    (runL κ (genInit f t v) cs).sys.main = (run (init f t v) cs).main := by
  rw [generated_runs_model]; rfl

/-- **C16's `exit_clean`, about the generated text**: once the generated context statement has completed — any fault
record, any exception classes, any schedule — no saver task is alive, `disconnect` was attempted if the context was
entered, the final save completed with the registry as of exit unless it failed itself, and what propagates is the
failing step's exception, never the saver's leaked `CancelledError`. -/
theorem exit_clean_generated (κ : Classes) (f : Faults) (t v : Nat) (cs : List Choice)
    (hfin : (runL κ (genInit f t v) cs).sys.main = .finished) :
    let s := (runL κ (genInit f t v) cs).sys
    s.saver.alive = false ∧
    (s.entered = true → s.disconnectTried = true) ∧
    (s.started = true →
      (s.finalSaveDone = true ∧ s.file = .holds s.reg) ∨ (f.finalSaveFails = true ∧ s.outcome = some .saveErr)) ∧
    s.outcome = expectedOutcome f := by
  intro s
  have hs : s = hide (run (init f t v) cs) := generated_runs_model κ f t v cs
  have hm : (run (init f t v) cs).main = .finished := by rw [← generated_main κ]; exact hfin
  have hi : Lifecycle.Inv (run (init f t v) cs) := inv_run _ cs (inv_init f t v)
  have hf : (run (init f t v) cs).faults = f := faults_run _ cs
  unfold Lifecycle.Inv at hi
  rw [hm] at hi
  obtain ⟨h1, h2, h3, h4, _, _, _⟩ := hi
  rw [hf] at h3 h4
  rw [hs]
  exact ⟨h1, h2, h3, h4⟩

/-- **C16's `connect_failure_leaves_nothing`, about the generated text** — for every class of the connect failure.
`κ.connect = true` is the case the model of `Model/Lifecycle.lean` does not distinguish: the failure is cancellation-like
(the task running `__aenter__` is cancelled while it is inside `connect`); the generated `except` clause around
`connect` catches that too, so the saver is stopped, the final save happens and the cancellation propagates. -/
theorem connect_failure_leaves_nothing_generated (κ : Classes) (f : Faults) (t v : Nat) (cs : List Choice)
    (hl : f.loadFails = false) (hc : f.connectFails = true)
    (hfin : (runL κ (genInit f t v) cs).sys.main = .finished) :
    let s := (runL κ (genInit f t v) cs).sys
    s.saver.alive = false ∧ s.entered = false ∧
    s.outcome = (if f.finalSaveFails then some .saveErr else some .connectErr) ∧
    (f.finalSaveFails = false → s.finalSaveDone = true ∧ s.file = .holds s.reg) := by
  intro s
  obtain ⟨h1, _, h3, h4⟩ := exit_clean_generated κ f t v cs hfin
  have hs : s = hide (run (init f t v) cs) := generated_runs_model κ f t v cs
  have hm : (run (init f t v) cs).main = .finished := by rw [← generated_main κ]; exact hfin
  have hi : Lifecycle.Inv (run (init f t v) cs) := inv_run _ cs (inv_init f t v)
  have hf : (run (init f t v) cs).faults = f := faults_run _ cs
  unfold Lifecycle.Inv at hi
  rw [hm] at hi
  obtain ⟨_, _, _, _, h5, h6, _⟩ := hi
  rw [hf] at h5 h6
  have hent : s.entered = false := by rw [hs]; exact (h6 hl).mpr hc
  have hst : s.started = true := by
    rw [hs]
    show (run (init f t v) cs).started = true
    cases hst : (run (init f t v) cs).started with
    | true => rfl
    | false => exact absurd (h5 hst).1 (by simp [hl])
  refine ⟨h1, hent, ?_, ?_⟩
  · rw [h4]; simp [expectedOutcome, hl, hc]
  · intro hfs
    rcases h3 hst with h | h
    · exact h
    · exact absurd h.1 (by simp [hfs])

/-- **C16's `load_failure_touches_nothing`, about the generated text** - for every class of the load's failure.
`κ.load = true` is the case the model of `Model/Lifecycle.lean` does not distinguish: the failure is cancellation-like
(the task running `__aenter__` is cancelled while it is inside `load`: a start-up timeout, Ctrl-C).  Whatever the class,
and at every moment of every schedule, the machine interpreting the skeleton translated from `__aenter__` has created no
saver, begun no save, performed no final save, and the file holds what it held.  An `__aenter__` whose clean-up handler
(`persistence.stop()`: "save a final time") also covers the load does not have this tree: `main_tree_same` fails, and
the correspondence run (harness/props/enterfail.py) shows the overwritten file. -/
theorem load_failure_touches_nothing_generated (κ : Classes) (f : Faults) (t v : Nat) (cs : List Choice)
    (hl : f.loadFails = true) :
    let s := (runL κ (genInit f t v) cs).sys
    s.file = .holds v ∧ s.saver = .absent ∧ s.started = false ∧ s.saveStarts = [] ∧ s.finalSaveDone = false ∧
    s.entered = false ∧ s.disconnectTried = false ∧
    (s.main = .finished → s.outcome = some .loadErr) := by
  intro s
  have hs : s = hide (run (init f t v) cs) := generated_runs_model κ f t v cs
  have hf : (run (init f t v) cs).faults = f := faults_run _ cs
  have hi : LoadFailInv v (run (init f t v) cs) := loadFail_run v _ cs (loadFail_init f t v)
  obtain ⟨hm, hsv, _, hfile, hss, hfd, hst, _, hen, hdt, _⟩ := hi (by rw [hf]; exact hl)
  rw [hs]
  refine ⟨hfile, hsv, hst, hss, hfd, hen, hdt, fun hfin => ?_⟩
  rcases hm with ⟨h, _⟩ | ⟨_, h⟩
  · have : (run (init f t v) cs).main = .finished := hfin
    rw [h] at this; cases this
  · exact h

/-! ### Non-vacuity: the generated machine runs -/

/-- The task entering the context is cancelled inside `load` (file version 7): the statement ends with that failure, no
saver exists, nothing was saved, the file still holds version 7. -/
example :
    let s := (runL { load := true } (genInit { loadFails := true } 0 7) [.main, .saver true, .tick 5, .main]).sys
    s.main = .finished ∧ s.saver = .absent ∧ s.file = .holds 7 ∧ s.finalSaveDone = false ∧ s.outcome = some .loadErr := by
  decide

/-- The task entering the context is cancelled inside `connect` while the saver is in the `write` of its first save:
the generated handler stops the saver, saves a final time, and the cancellation (reported as the connect step's
failure) propagates. -/
example :
    let s := (runL { connect := true } (genInit { connectFails := true } 0 7)
      [.main, .main, .saver true, .saver true, .main, .main, .saver false, .saver false, .main, .main, .main, .main]).sys
    s.main = .finished ∧ s.saver = .cancelled ∧ s.entered = false ∧ s.finalSaveDone = true ∧ s.file = .holds 7 ∧
    s.outcome = some .connectErr := by
  decide

/-- A normal session: enter, one periodic save, the body changes the registry, exit while the saver sleeps. -/
example :
    let s := (runL {} (genInit {} 0 0)
      [.main, .main, .main, .saver true, .saver true, .saver true, .saver true, .mutate, .main, .main, .main,
       .saver true, .main, .main, .main, .main]).sys
    s.main = .finished ∧ s.saver.alive = false ∧ s.saveStarts = [0] ∧ s.file = .holds 1 ∧ s.outcome = none := by
  decide

end AioMySensors.LL
