/-
A fourth traversal of the receive path, about the *reason* of a missing error: handling the
message `m`
* fails with a `MissingNodeError` only if `m.node` is not a key of the registry the handler started
  from,
* fails with a `MissingChildError` only if that node is in the registry and `m.child` is not among
  its children — and only for bodies that check the child at all (`set` / `req`).
So whether "an unknown node or child is referenced" can be read off the registry: a node that is in
the registry — however it got there: loaded, presented, or registered as a placeholder by the
id-request handler — never makes a handler raise a missing error (`notMissing_of_registered`).
Like `Faithful`, no table facts are needed for the traversal itself; which bodies the generated
chains of a command use is a `decide` over the tables.
-/
import AioMySensors.Lemmas.Faithful
import AioMySensors.Lemmas.Across

namespace AioMySensors
open M

/-- `x` handles `m`: a missing-node error means the registry it started from does not hold `m.node`;
a missing-child error means it holds the node, the node lacks `m.child`, and `sr` (the body is one
that checks the child: set / req). -/
structure Absent (sr : Bool) (m : Msg) (x : M Msg) : Prop where
  node : ∀ w n, (x w).1 = .error (.lib (.missingNode n)) → w.st.nodes.get? m.node = none
  child : ∀ w c, (x w).1 = .error (.lib (.missingChild c)) →
    sr = true ∧ ∃ node, w.st.nodes.get? m.node = some node ∧ node.children.get? m.child = none

theorem absent_of_quiet {sr : Bool} {m : Msg} {x : M Msg} (hq : Quiet x) : Absent sr m x :=
  ⟨fun w n h => absurd h (hq.node w n), fun w c h => absurd h (hq.child w c)⟩

theorem Absent.weaken {m : Msg} {x : M Msg} (h : Absent false m x) (sr : Bool) : Absent sr m x :=
  ⟨h.node, fun w c hc => absurd (h.child w c hc).1 (by simp)⟩

theorem absent_of_same_or_plain {sr : Bool} {m : Msg} {x y : M Msg} (hx : Absent sr m x)
    (h : ∀ w, (y w).1 = (x w).1 ∨ Plain (y w).1) : Absent sr m y := by
  refine ⟨fun w n hn => ?_, fun w c hc => ?_⟩
  · rcases h w with he | hp
    · exact hx.node w n (he ▸ hn)
    · exact absurd hn (hp.2.1 n)
  · rcases h w with he | hp
    · exact hx.child w c (he ▸ hc)
    · exact absurd hc (hp.2.2 c)

/-- The node check: either the node is not there and the check fails, in the same world, or it is
and the body runs in the same world. -/
theorem require_cases (id : Int) (body : Node → M β) (w : W) :
    (w.st.nodes.get? id = none ∧ M.bind (requireNode id) body w = (.error (.lib (.missingNode id)), w)) ∨
    ∃ node, w.st.nodes.get? id = some node ∧ M.bind (requireNode id) body w = body node w := by
  simp only [M.bind, requireNode, M.getSt]
  cases hn : w.st.nodes.get? id with
  | none => left; simp [M.raise]
  | some node => right; exact ⟨node, rfl, by simp [M.pure]⟩

/-- A body that runs after the node check and is quiet. -/
theorem absent_require {sr : Bool} {m : Msg} {body : Node → M Msg} (hq : ∀ node, Quiet (body node)) :
    Absent sr m (M.bind (requireNode m.node) body) := by
  refine ⟨fun w n h => ?_, fun w c h => ?_⟩
  · rcases require_cases m.node body w with ⟨hn, _⟩ | ⟨node, _, hk⟩
    · exact hn
    · rw [hk] at h; exact absurd h ((hq node).node w n)
  · rcases require_cases m.node body w with ⟨_, hk⟩ | ⟨node, _, hk⟩
    · rw [hk] at h; simp at h
    · rw [hk] at h; exact absurd h ((hq node).child w c)

/-- A computation that runs after the node check and is itself `Absent`. -/
theorem absent_require_then {sr : Bool} {m : Msg} {rest : M Msg} (hr : Absent sr m rest) :
    Absent sr m (M.bind (requireNode m.node) fun _ => rest) := by
  refine ⟨fun w n h => ?_, fun w c h => ?_⟩
  · rcases require_cases m.node (fun _ => rest) w with ⟨hn, _⟩ | ⟨node, _, hk⟩
    · exact hn
    · rw [hk] at h; exact hr.node w n h
  · rcases require_cases m.node (fun _ => rest) w with ⟨_, hk⟩ | ⟨node, _, hk⟩
    · rw [hk] at h; simp at h
    · rw [hk] at h; exact hr.child w c h

/-- The node check followed by the child check of `handle_set` / `handle_req`. -/
theorem absent_require_child {m : Msg} {body : Node → Child → M Msg} (hq : ∀ node child, Quiet (body node child)) :
    Absent true m (M.bind (requireNode m.node) fun node =>
      match node.children.get? m.child with
      | none => M.raise (.lib (.missingChild m.child))
      | some child => body node child) := by
  refine ⟨fun w n h => ?_, fun w c h => ?_⟩
  · rcases require_cases m.node (fun node =>
      match node.children.get? m.child with
      | none => M.raise (.lib (.missingChild m.child))
      | some child => body node child) w with ⟨hn, _⟩ | ⟨node, _, hk⟩
    · exact hn
    · rw [hk] at h
      cases hc : node.children.get? m.child with
      | none => simp [hc, M.raise] at h
      | some child => simp only [hc] at h; exact absurd h ((hq node child).node w n)
  · rcases require_cases m.node (fun node =>
      match node.children.get? m.child with
      | none => M.raise (.lib (.missingChild m.child))
      | some child => body node child) w with ⟨_, hk⟩ | ⟨node, hn, hk⟩
    · rw [hk] at h; simp at h
    · rw [hk] at h
      cases hc : node.children.get? m.child with
      | none => exact ⟨rfl, node, hn, hc⟩
      | some child => simp only [hc] at h; exact absurd h ((hq node child).child w c)

/-- Is this a body that checks the child? -/
def Body.checksChild : Body → Bool
  | .set14 | .req14 => true
  | _ => false

theorem absent_runLeaf (env : Env) (b : Body) (f : Msg → M Msg) (hf : runLeaf env b = some f) (m : Msg) :
    Absent b.checksChild m (f m) := by
  cases b <;> simp only [runLeaf, Option.some.injEq] at hf <;> try (exact absurd hf (by simp))
  all_goals subst hf
  · -- set14
    unfold hSet
    refine absent_require_child (fun node child => ?_)
    unfold setNode; quiet_auto
  · -- req14
    unfold hReq
    refine absent_require_child (fun node child => ?_)
    quiet_auto
  · exact absent_of_quiet (by unfold hVersion; quiet_auto)
  · exact absent_of_quiet (by unfold hIdRequest allocNode; quiet_auto)
  · exact absent_of_quiet (by unfold hConfig; quiet_auto)
  · exact absent_of_quiet (by unfold hTime; quiet_auto)
  · unfold hBattery
    exact absent_require (fun node => by unfold setNode; quiet_auto)
  · unfold hSketchName
    exact absent_require (fun node => by unfold setNode; quiet_auto)
  · unfold hSketchVersion
    exact absent_require (fun node => by unfold setNode; quiet_auto)
  · exact absent_of_quiet (by unfold hGatewayReady; quiet_auto)
  · unfold hDiscoverResponse
    exact absent_require (fun node => by quiet_auto)
  · unfold hHeartbeat20
    exact absent_require (fun node => by unfold heartbeatValue setNode; quiet_auto)
  · unfold hHeartbeat22
    exact absent_require (fun node => by unfold heartbeatValue setNode; quiet_auto)
  · unfold hPreSleep22
    exact absent_require (fun node => by unfold setNode; quiet_auto)

theorem absent_wrapMissingPV {sr : Bool} {m : Msg} {inner : Msg → M Msg} (hi : Absent sr m (inner m)) :
    Absent sr m (wrapMissingPV inner m) :=
  absent_of_same_or_plain hi fun w => (wrapMissingPV_same_or_plain inner m w).2

theorem absent_wrapMissingNC {sr : Bool} {m : Msg} {inner : Msg → M Msg} (hi : Absent sr m (inner m)) :
    Absent sr m (wrapMissingNC inner m) :=
  absent_of_same_or_plain hi fun w => (wrapMissingNC_same_or_plain inner m w).2

/-- A step that runs first and leaves the registry alone (or ends in a foreign exception). -/
theorem absent_seq_pre {sr : Bool} {m : Msg} (p : M Unit) (x : M Msg)
    (hp : ∀ w, ((p w).1 = .ok () ∧ (p w).2.st.nodes = w.st.nodes) ∨ ∃ c, (p w).1 = .error (.foreign c))
    (hx : Absent sr m x) : Absent sr m (M.seq p x) := by
  refine ⟨fun w n h => ?_, fun w c h => ?_⟩ <;> simp only [M.seq, M.bind] at h
  all_goals
    cases hpw : p w with
    | mk r' w' =>
      rw [hpw] at h
      rcases hp w with ⟨h1, h2⟩ | ⟨c', h1⟩
      · rw [hpw] at h1 h2
        simp only at h1 h2
        subst h1
        simp only at h
        first
        | (have := hx.node w' _ h; rw [h2] at this; exact this)
        | (have := hx.child w' _ h; rw [h2] at this; exact this)
      · rw [hpw] at h1
        simp only at h1
        subst h1
        simp at h

theorem absent_applyLayers {sr : Bool} (ls : List Layer) (base : Msg → M Msg) (m : Msg) (hb : Absent sr m (base m)) :
    Absent sr m (applyLayers ls base m) := by
  induction ls with
  | nil => simpa [applyLayers] using hb
  | cons l ls ih =>
    cases l with
    | wrap w =>
      cases w with
      | missingPV => simpa [applyLayers] using absent_wrapMissingPV ih
      | missingNC => simpa [applyLayers] using absent_wrapMissingNC ih
    | pre b =>
      simp only [applyLayers]
      refine absent_seq_pre _ _ (fun w => ?_) ih
      cases b <;> first
        | exact Or.inl (prePresentation20_frame m w)
        | exact Or.inr ⟨_, rfl⟩

/-- Does the chain (if any) end in a body that checks the child? -/
def chainChecksChild : Option Chain → Bool
  | some ch => ch.base.checksChild
  | none => false

theorem absent_runTyped (env : Env) (och : Option Chain) (m : Msg) :
    Absent (chainChecksChild och) m (runTyped env och m) := by
  cases och with
  | none => exact absent_of_quiet (Quiet.pure m)
  | some ch =>
    simp only [runTyped, runInner, chainChecksChild]
    cases hf : runLeaf env ch.base with
    | none => exact absent_of_quiet (Quiet.raiseForeign _)
    | some f => exact absent_applyLayers _ f m (absent_runLeaf env _ f hf m)

/-! ### The command-level handler bodies -/

theorem quiet_versionHandler (env : Env) (v : Ver) (m : Msg) : Quiet (runTyped env (Gen.versionHandlerChain v) m) := by
  have hq : Quiet (hVersion m) := by unfold hVersion; quiet_auto
  cases v <;> simpa only [Gen.versionHandlerChain, runTyped, runInner, runLeaf, applyLayers] using hq

/-- A node presentation names no registry entry (it creates one); a child presentation names its node. -/
theorem absent_hPresentation (env : Env) (v : Ver) (m : Msg) : Absent false m (hPresentation env v m) := by
  unfold hPresentation
  split
  · refine absent_of_quiet ?_
    unfold setNode
    refine Quiet.seq (Quiet.modifySt _) ?_
    split
    · exact quiet_versionHandler env v m
    · exact Quiet.pure _
  · exact absent_require (fun node => by unfold setNode; quiet_auto)

theorem absent_hSet (m : Msg) : Absent true m (hSet m) := absent_runLeaf default .set14 _ rfl m

theorem absent_hReq (m : Msg) : Absent true m (hReq m) := absent_runLeaf default .req14 _ rfl m

/-- No type-level handler of any version is a body that checks the child. -/
theorem typed_chains_check_no_child : ∀ v : Ver,
    (∀ e ∈ Gen.internalChains v, chainChecksChild e.2 = false) ∧ (∀ e ∈ Gen.streamChains v, chainChecksChild e.2 = false) := by
  decide

theorem chainChecksChild_lookup (l : List (Int × Option Chain)) (h : ∀ e ∈ l, chainChecksChild e.2 = false) (t : Int) :
    chainChecksChild ((l.lookup t).join) = false := by
  cases hl : l.lookup t with
  | none => rfl
  | some och => exact h (t, och) (lookup_mem hl)

theorem absent_hInternal (env : Env) (v : Ver) (m : Msg) : Absent false m (hInternal env v m) := by
  unfold hInternal
  split
  · exact absent_of_quiet Quiet.raiseUnsupported
  · have := absent_runTyped env (((Gen.internalChains v).lookup m.type).join) m
    rwa [chainChecksChild_lookup _ (typed_chains_check_no_child v).1] at this

theorem absent_hStream (env : Env) (v : Ver) (m : Msg) : Absent false m (hStream env v m) := by
  unfold hStream
  refine absent_require_then ?_
  split
  · exact absent_of_quiet Quiet.raiseUnsupported
  · have := absent_runTyped env (((Gen.streamChains v).lookup m.type).join) m
    rwa [chainChecksChild_lookup _ (typed_chains_check_no_child v).2] at this

/-- **Why a handler raises a missing error.**  For every version and every message with a command
value of the protocol: the handler body (everything inside the version-query decorator) raises a
`MissingNodeError` only if the message's node is not in the registry, and a `MissingChildError` only
if the message is a set / req, its node is in the registry and its child is not among that node's
children. -/
theorem absent_handlerBody (env : Env) (v : Ver) (m : Msg) (hcmd : m.cmd ∈ [(0 : Int), 1, 2, 3, 4]) :
    Absent (decide (m.cmd = 1 ∨ m.cmd = 2)) m (handlerBody env v m) := by
  obtain ⟨h0, h1, h2, h3, h4⟩ := handlerBody_cases env v m
  simp only [List.mem_cons, List.mem_nil_iff, or_false] at hcmd
  rcases hcmd with h | h | h | h | h
  · rw [h0 h]; exact (absent_hPresentation env v m).weaken _
  · rw [h1 h]; simpa [h] using absent_hSet m
  · rw [h2 h]; simpa [h] using absent_hReq m
  · rw [h3 h]; exact (absent_hInternal env v m).weaken _
  · rw [h4 h]; exact (absent_hStream env v m).weaken _

/-- The registry of `s` holds what `m` names: its node and, for a set / req message, its child. -/
def Registered (s : St) (m : Msg) : Prop :=
  ∃ node, s.nodes.get? m.node = some node ∧ ((m.cmd = 1 ∨ m.cmd = 2) → ∃ child, node.children.get? m.child = some child)

theorem missingCaught_cases (e : Exn) (h : missingCaught e = true) :
    (∃ n, e = .lib (.missingNode n)) ∨ ∃ c, e = .lib (.missingChild c) := by
  cases e with
  | foreign c => simp [missingCaught] at h
  | lib l =>
    cases l with
    | missingNode n => exact Or.inl ⟨n, rfl⟩
    | missingChild c => exact Or.inr ⟨c, rfl⟩
    | _ => simp [missingCaught] at h

/-- **Membership in the registry decides it.**  If the registry holds the message's node (and, for
set / req, its child), the handler of no version raises a missing error — whatever else is or is
not known about that node: in particular a node that the id-request handler registered with default
values and that has not presented itself is a node of the registry like any other. -/
theorem notMissing_of_registered (env : Env) (v : Ver) (m : Msg) (hcmd : m.cmd ∈ [(0 : Int), 1, 2, 3, 4]) (w : W)
    (h : Registered w.st m) : ¬ RaisesMissing env v m w := by
  intro hr
  apply hr
  intro e he
  cases hc : missingCaught e with
  | false => rfl
  | true =>
    exfalso
    obtain ⟨node, hn, hch⟩ := h
    have ha := absent_handlerBody env v m hcmd
    rcases missingCaught_cases e hc with ⟨n, rfl⟩ | ⟨c, rfl⟩
    · have := ha.node w n he
      rw [hn] at this; exact absurd this (by simp)
    · obtain ⟨hsr, node', hn', hc'⟩ := ha.child w c he
      rw [hn] at hn'
      simp only [Option.some.injEq] at hn'
      subst hn'
      obtain ⟨child, hchild⟩ := hch (by simpa using hsr)
      rw [hchild] at hc'; exact absurd hc' (by simp)

/-! ### Messages that name no registry entry -/

theorem notMissing_of_quiet {x : M Msg} (hq : Quiet x) (w : W) : NotMissing (x w).1 := by
  intro e he
  cases hc : missingCaught e with
  | false => rfl
  | true =>
    exfalso
    rcases missingCaught_cases e hc with ⟨n, rfl⟩ | ⟨c, rfl⟩
    · exact hq.node w n he
    · exact hq.child w c he

/-- The internal types whose content is kept on the registry entry of the node that sent them (names
as in the generated type tables). -/
def nodeReports : List String :=
  ["i_battery_level", "i_sketch_name", "i_sketch_version", "i_discover_response", "i_heartbeat_response",
   "i_pre_sleep_notification", "i_post_sleep_notification"]

/-- The message names no registry entry: a node presentation creates one; an internal message that
is not a report about its sender (a request to the controller for an id, the configuration or the
time, a log message, ...) is not about an entry. -/
def NamesNothing (v : Ver) (m : Msg) : Prop :=
  (m.cmd = 0 ∧ m.child = Gen.systemChildId) ∨
  (m.cmd = 3 ∧ ∀ nm, (Gen.internalTypes v).lookup m.type = some nm → nm ∉ nodeReports)

/-- A body without a node check. -/
def Body.noNodeCheck : Body → Bool
  | .iVersion14 | .iIdRequest14 | .iConfig14 | .iTime14 | .iGatewayReady20 => true
  | _ => false

/-- No handler, or an undecorated handler without a node check. -/
def chainQuiet : Option Chain → Bool
  | none => true
  | some ch => ch.layers.isEmpty && ch.base.noNodeCheck

/-- In every version, every internal type that is not a node report has no handler or one without
a node check (generated tables). -/
theorem unreported_chains_quiet : ∀ v : Ver, ∀ e ∈ Gen.internalTypes v, e.2 ∉ nodeReports →
    chainQuiet (((Gen.internalChains v).lookup e.1).join) = true := by decide

theorem quiet_runTyped_of_chainQuiet (env : Env) (och : Option Chain) (m : Msg) (h : chainQuiet och = true) :
    Quiet (runTyped env och m) := by
  cases och with
  | none => exact Quiet.pure m
  | some ch =>
    obtain ⟨layers, base⟩ := ch
    simp only [chainQuiet, Bool.and_eq_true, List.isEmpty_iff] at h
    obtain ⟨hl, hb⟩ := h
    subst hl
    cases base <;> first | (exfalso; simp [Body.noNodeCheck] at hb; done) | skip
    all_goals simp only [runTyped, runInner, runLeaf, applyLayers]
    · unfold hVersion; quiet_auto
    · unfold hIdRequest allocNode; quiet_auto
    · unfold hConfig; quiet_auto
    · unfold hTime; quiet_auto
    · unfold hGatewayReady; quiet_auto

theorem quiet_hInternal_unreported (env : Env) (v : Ver) (m : Msg)
    (h : ∀ nm, (Gen.internalTypes v).lookup m.type = some nm → nm ∉ nodeReports) : Quiet (hInternal env v m) := by
  unfold hInternal
  cases hl : (Gen.internalTypes v).lookup m.type with
  | none => exact Quiet.raiseUnsupported
  | some nm =>
    exact quiet_runTyped_of_chainQuiet env _ m (unreported_chains_quiet v (m.type, nm) (lookup_mem hl) (h nm hl))

theorem quiet_hPresentation_node (env : Env) (v : Ver) (m : Msg) (h : m.child = Gen.systemChildId) :
    Quiet (hPresentation env v m) := by
  unfold hPresentation
  rw [h]
  simp only [beq_self_eq_true, if_true]
  unfold setNode
  refine Quiet.seq (Quiet.modifySt _) ?_
  split
  · exact quiet_versionHandler env v m
  · exact Quiet.pure _

/-- **A message that names no registry entry never makes a handler raise a missing error**, in any
version and any state. -/
theorem notMissing_of_namesNothing (env : Env) (v : Ver) (m : Msg) (w : W) (h : NamesNothing v m) :
    ¬ RaisesMissing env v m w := by
  intro hr
  apply hr
  rcases h with ⟨hc, hch⟩ | ⟨hc, hnm⟩
  · rw [(handlerBody_cases env v m).1 hc]
    exact notMissing_of_quiet (quiet_hPresentation_node env v m hch) w
  · rw [(handlerBody_cases env v m).2.2.2.1 hc]
    exact notMissing_of_quiet (quiet_hInternal_unreported env v m hnm) w

end AioMySensors
