/-
The lifecycle system with OTHER TASKS changing the registry (C16).

`Model/Lifecycle.lean` lets the registry change only while the body of the context runs (`Choice.mutate`).  In an
application other tasks change it as well — the listener registers a node that presents itself or asks for an id,
a node is dropped — and they do so at any moment: while `__aenter__` is still loading or connecting, while a periodic
save is between two of its file operations, while `__aexit__` is disconnecting, waiting for the cancelled saver or
writing the final save.  `ChoiceC.churn` is that change, allowed in EVERY state.

What makes this harmless in the model is that a save takes its snapshot of the registry in one atomic block
(`beginSave`, `mainStep` at `.stopAwait`) and that no decision of either coroutine looks at the registry: control is
blind to it.  This is made precise by an erasure (`erase`: forget the registry version, the snapshots and which version
the file holds): a step of the system with churn is, after erasure, a step of the system of `Model/Lifecycle.lean`
(`erase_runC`), so every control fact of `Lemmas/Lifecycle.lean` carries over (`inv_runC`, `cad_runC`); what the file
holds at the end is handled by a small invariant of its own (`FileInv`).
-/
import AioMySensors.Lemmas.Lifecycle

namespace AioMySensors.Lifecycle
open AioMySensors

set_option linter.unusedSimpArgs false

/-- A scheduler choice of the system in which other tasks change the registry too. -/
inductive ChoiceC where
  | base (c : Choice)       -- a choice of `Model/Lifecycle.lean`
  | churn                   -- another task changes the registry (any state)
  deriving DecidableEq, Repr

def stepC (s : Sys) : ChoiceC → Sys
  | .base c => step s c
  | .churn => { s with reg := s.reg + 1 }

def runC (s : Sys) (cs : List ChoiceC) : Sys := cs.foldl stepC s

/-- The choices of a schedule that are choices of the base system. -/
def baseOf : List ChoiceC → List Choice
  | [] => []
  | .base c :: cs => c :: baseOf cs
  | .churn :: cs => baseOf cs

def eraseFile : FileSt → FileSt
  | .holds _ => .holds 0
  | .truncated => .truncated

/-- Forget everything that depends on WHICH registry version is meant. -/
def erase (s : Sys) : Sys := { s with reg := 0, snap := 0, fsnap := 0, file := eraseFile s.file }

theorem erase_churn (s : Sys) : erase { s with reg := s.reg + 1 } = erase s := rfl

theorem erase_init (f : Faults) (t v : Nat) : erase (init f t v) = init f t 0 := rfl

theorem eraseFile_idem (x : FileSt) : eraseFile (eraseFile x) = eraseFile x := by cases x <;> rfl

theorem eraseFile_holds (v : Nat) : eraseFile (.holds v) = .holds 0 := rfl

theorem eraseFile_truncated : eraseFile .truncated = .truncated := rfl

/-- Control is blind to the registry: a step commutes with the erasure. -/
theorem erase_step (s : Sys) (c : Choice) : erase (step s c) = erase (step (erase s) c) := by
  obtain ⟨f, main, saver, cancelReq, now, t0, reg, snap, fsnap, file, saveStarts, loaded, started, entered,
    disconnectTried, finalSaveDone, pending, outcome⟩ := s
  cases c with
  | tick d =>
    rcases saver with _|_|⟨_|_|_|_⟩|w|_|_|_
    case sleeping =>
      cases cancelReq <;> by_cases hw : w ≤ now <;>
        simp [step, saverRunnable, tickStep, erase, hw, eraseFile_idem]
    all_goals simp [step, saverRunnable, tickStep, erase, eraseFile_idem]
  | mutate =>
    rcases main with _|_|_|_|_|_|_|⟨_|_|_|_⟩|_ <;> simp [step, erase, eraseFile_idem]
  | main =>
    rcases main with _|_|_|_|_|_|_|⟨_|_|_|_⟩|_ <;> rcases saver with _|_|⟨_|_|_|_⟩|w|_|_|_ <;>
      simp only [step, mainRunnable, mainStep, erase, SaverPc.alive] <;> (repeat' split) <;>
      simp_all [eraseFile_idem, eraseFile_holds, eraseFile_truncated]
  | saver lands =>
    rcases saver with _|_|⟨_|_|_|_⟩|w|_|_|_
    case sleeping =>
      cases cancelReq <;> by_cases hw : w ≤ now <;>
        simp [step, saverRunnable, saverStep, beginSave, erase, hw, eraseFile_idem]
    all_goals
      simp only [step, saverRunnable, saverStep, beginSave, erase] <;> (repeat' split) <;>
      simp_all [eraseFile_idem, eraseFile_holds, eraseFile_truncated]

theorem erase_run (s : Sys) (cs : List Choice) : erase (run s cs) = erase (run (erase s) cs) := by
  induction cs generalizing s with
  | nil => simp [run, erase, eraseFile_idem]
  | cons c cs ih =>
    show erase (run (step s c) cs) = erase (run (step (erase s) c) cs)
    rw [ih (step s c), ih (step (erase s) c), erase_step s c]

/-- After erasure, a schedule with churn is its base schedule. -/
theorem erase_runC (s : Sys) (cs : List ChoiceC) : erase (runC s cs) = erase (run (erase s) (baseOf cs)) := by
  induction cs generalizing s with
  | nil => simp [runC, run, baseOf, erase, eraseFile_idem]
  | cons c cs ih =>
    cases c with
    | churn =>
      show erase (runC { s with reg := s.reg + 1 } cs) = _
      rw [ih, erase_churn]; rfl
    | base b =>
      show erase (runC (step s b) cs) = erase (run (step (erase s) b) (baseOf cs))
      rw [ih, erase_run (step (erase s) b), erase_step s b]

/-- The control facts of `Inv`, for a state whose ERASURE satisfies `Inv` (the invariant looks at what is erased only
through two equations, which the erasure makes trivial). -/
theorem ctl_of_erase (s : Sys) (h : Inv (erase s)) :
    (s.main = .finished →
      s.saver.alive = false ∧ (s.entered = true → s.disconnectTried = true) ∧
      (s.started = true → s.finalSaveDone = true ∨ (s.faults.finalSaveFails = true ∧ s.outcome = some .saveErr)) ∧
      s.outcome = expectedOutcome s.faults) ∧
    (∀ ph, s.main = .finalSave ph → s.saver.alive = false ∧ ph ≠ .unwinding ∧
      (ph = .writing → s.faults.finalSaveFails = false) ∧ (ph = .closing → s.faults.finalSaveFails = false)) := by
  obtain ⟨f, main, saver, cancelReq, now, t0, reg, snap, fsnap, file, saveStarts, loaded, started, entered,
    disconnectTried, finalSaveDone, pending, outcome⟩ := s
  rcases main with _|_|_|_|_|_|_|⟨_|_|_|_⟩|_
  case finished =>
    refine ⟨fun _ => ?_, fun ph hph => (by cases hph)⟩
    obtain ⟨h1, h2, h3, h4, _⟩ := h
    refine ⟨h1, h2, fun hst => ?_, h4⟩
    rcases h3 hst with h5 | h5
    · exact Or.inl h5.1
    · exact Or.inr h5
  all_goals
    refine ⟨fun hm => (by cases hm), fun ph hph => ?_⟩
    first
      | (cases hph; done)
      | (cases hph; simp_all [Inv, erase])

theorem faults_runC (s : Sys) (cs : List ChoiceC) : (runC s cs).faults = s.faults := by
  induction cs generalizing s with
  | nil => rfl
  | cons c cs ih =>
    cases c with
    | churn => exact ih _
    | base b => exact (ih _).trans (faults_step s b)

theorem inv_erase (s : Sys) (h : Inv s) : Inv (erase s) := by
  obtain ⟨f, main, saver, cancelReq, now, t0, reg, snap, fsnap, file, saveStarts, loaded, started, entered,
    disconnectTried, finalSaveDone, pending, outcome⟩ := s
  rcases main with _|_|_|_|_|_|_|⟨_|_|_|_⟩|_
  case finished =>
    obtain ⟨h1, h2, h3, h4⟩ := h
    refine ⟨h1, h2, fun hst => ?_, h4⟩
    rcases h3 hst with ⟨h5, h6⟩ | h5
    · exact Or.inl ⟨h5, by simp only [erase]; rw [show file = .holds reg from h6]; rfl⟩
    · exact Or.inr h5
  all_goals simp_all [Inv, erase, StopCtx, eraseFile]

/-- Every reachable state of the system with churn satisfies the control invariant, after erasure. -/
theorem inv_runC (f : Faults) (t v : Nat) (cs : List ChoiceC) : Inv (erase (runC (init f t v) cs)) := by
  rw [erase_runC, erase_init]
  exact inv_erase _ (inv_run _ _ (inv_init f t 0))

theorem inv_erase_stepC (s : Sys) (c : ChoiceC) (h : Inv (erase s)) : Inv (erase (stepC s c)) := by
  cases c with
  | churn => exact h
  | base b =>
    show Inv (erase (step s b))
    rw [erase_step]
    exact inv_erase _ (inv_step _ b h)

/-- Erasure keeps every control field. -/
theorem ctl_eq (a b : Sys) (h : erase a = erase b) :
    a.main = b.main ∧ a.saver = b.saver ∧ a.cancelReq = b.cancelReq ∧ a.now = b.now ∧ a.t0 = b.t0 ∧
    a.saveStarts = b.saveStarts ∧ a.started = b.started ∧ a.entered = b.entered ∧ a.loaded = b.loaded ∧
    a.disconnectTried = b.disconnectTried ∧ a.finalSaveDone = b.finalSaveDone ∧ a.outcome = b.outcome ∧
    a.faults = b.faults := by
  have h1 := congrArg Sys.main h
  have h2 := congrArg Sys.saver h
  have h3 := congrArg Sys.cancelReq h
  have h4 := congrArg Sys.now h
  have h5 := congrArg Sys.t0 h
  have h6 := congrArg Sys.saveStarts h
  have h7 := congrArg Sys.started h
  have h8 := congrArg Sys.entered h
  have h9 := congrArg Sys.loaded h
  have h10 := congrArg Sys.disconnectTried h
  have h11 := congrArg Sys.finalSaveDone h
  have h12 := congrArg Sys.outcome h
  have h13 := congrArg Sys.faults h
  exact ⟨h1, h2, h3, h4, h5, h6, h7, h8, h9, h10, h11, h12, h13⟩

/-- The control fields of a run with churn are those of its base schedule run from the same start (any file). -/
theorem ctl_runC (f : Faults) (t v : Nat) (cs : List ChoiceC) :
    let a := runC (init f t v) cs
    let b := run (init f t 0) (baseOf cs)
    a.main = b.main ∧ a.saver = b.saver ∧ a.cancelReq = b.cancelReq ∧ a.now = b.now ∧ a.t0 = b.t0 ∧
    a.saveStarts = b.saveStarts ∧ a.started = b.started ∧ a.entered = b.entered ∧ a.loaded = b.loaded ∧
    a.disconnectTried = b.disconnectTried ∧ a.finalSaveDone = b.finalSaveDone ∧ a.outcome = b.outcome ∧
    a.faults = b.faults := by
  intro a b
  exact ctl_eq a b (by rw [erase_runC, erase_init])

/-! ### What the file holds at the end -/

/-- The final save's snapshot is a registry that existed (`fsnap ≤ reg`: versions only grow after `load`), the file
holds it once the final save has written, and `finalSaveDone` is raised by nothing but the final save's last step. -/
def FileInv (s : Sys) : Prop :=
  match s.main with
  | .finalSave .closing => s.finalSaveDone = false ∧ s.fsnap ≤ s.reg ∧ s.file = .holds s.fsnap
  | .finalSave _ => s.finalSaveDone = false ∧ s.fsnap ≤ s.reg
  | .finished => s.finalSaveDone = true → s.fsnap ≤ s.reg ∧ s.file = .holds s.fsnap
  | _ => s.finalSaveDone = false

theorem fileInv_init (f : Faults) (t v : Nat) : FileInv (init f t v) := by simp [FileInv, init]

/-- A saver step touches neither the main coroutine nor the registry nor the final save's data; a saver that is not
alive does nothing at all. -/
theorem saver_frame (s : Sys) (lands : Bool) :
    (step s (.saver lands)).main = s.main ∧ (step s (.saver lands)).reg = s.reg ∧
    (step s (.saver lands)).fsnap = s.fsnap ∧ (step s (.saver lands)).finalSaveDone = s.finalSaveDone ∧
    (s.saver.alive = false → step s (.saver lands) = s) := by
  obtain ⟨f, main, saver, cancelReq, now, t0, reg, snap, fsnap, file, saveStarts, loaded, started, entered,
    disconnectTried, finalSaveDone, pending, outcome⟩ := s
  rcases saver with _|_|⟨_|_|_|_⟩|w|_|_|_
  case sleeping =>
    cases cancelReq <;> by_cases hw : w ≤ now <;>
      simp [step, saverRunnable, saverStep, beginSave, hw, SaverPc.alive]
  all_goals
    cases cancelReq <;> simp [step, saverRunnable, saverStep, beginSave, SaverPc.alive]

/-- Time passing changes nothing but the clock. -/
theorem tick_frame (s : Sys) (d : Nat) :
    (step s (.tick d)).main = s.main ∧ (step s (.tick d)).reg = s.reg ∧ (step s (.tick d)).fsnap = s.fsnap ∧
    (step s (.tick d)).finalSaveDone = s.finalSaveDone ∧ (step s (.tick d)).file = s.file := by
  simp only [step, tickStep]
  (repeat' split) <;> simp

/-- A body mutation changes nothing but the registry version, and only while the body runs. -/
theorem mutate_frame (s : Sys) :
    (step s .mutate).main = s.main ∧ (step s .mutate).fsnap = s.fsnap ∧
    (step s .mutate).finalSaveDone = s.finalSaveDone ∧ (step s .mutate).file = s.file ∧
    s.reg ≤ (step s .mutate).reg ∧ (s.main ≠ .body → (step s .mutate).reg = s.reg) := by
  simp only [step]
  split <;> simp_all

theorem fileInv_congr (a b : Sys) (h1 : b.main = a.main) (h2 : a.reg ≤ b.reg) (h3 : b.fsnap = a.fsnap)
    (h4 : b.finalSaveDone = a.finalSaveDone) (h5 : b.file = a.file) (h : FileInv a) : FileInv b := by
  obtain ⟨f, main, saver, cancelReq, now, t0, reg, snap, fsnap, file, saveStarts, loaded, started, entered,
    disconnectTried, finalSaveDone, pending, outcome⟩ := a
  obtain ⟨f', main', saver', cancelReq', now', t0', reg', snap', fsnap', file', saveStarts', loaded', started', entered',
    disconnectTried', finalSaveDone', pending', outcome'⟩ := b
  simp only at h1 h2 h3 h4 h5
  subst h1 h3 h4 h5
  rcases main' with _|_|_|_|_|_|_|⟨_|_|_|_⟩|_ <;> simp only [FileInv] at h ⊢
  case finished => exact fun hd => ⟨Nat.le_trans (h hd).1 h2, (h hd).2⟩
  case finalSave.closing => exact ⟨h.1, Nat.le_trans h.2.1 h2, h.2.2⟩
  all_goals first | exact h | exact ⟨h.1, Nat.le_trans h.2 h2⟩

theorem fileInv_main (s : Sys) (hi : Inv (erase s)) (h : FileInv s) : FileInv (step s .main) := by
  obtain ⟨-, hsave⟩ := ctl_of_erase s hi
  obtain ⟨f, main, saver, cancelReq, now, t0, reg, snap, fsnap, file, saveStarts, loaded, started, entered,
    disconnectTried, finalSaveDone, pending, outcome⟩ := s
  rcases main with _|_|_|_|_|_|_|⟨_|_|_|_⟩|_
  case finalSave.unwinding => exact absurd rfl (hsave _ rfl).2.1
  case finalSave.opening =>
    clear hsave hi
    simp only [step, mainRunnable, mainStep]
    (repeat' split) <;> simp only [FileInv] at h ⊢ <;> simp_all
  case finalSave.writing =>
    clear hsave hi
    simp only [step, mainRunnable, mainStep]
    (repeat' split) <;> simp only [FileInv] at h ⊢ <;> simp_all
  case finalSave.closing =>
    clear hsave hi
    simp only [step, mainRunnable, mainStep]
    (repeat' split) <;> simp only [FileInv] at h ⊢ <;> simp_all
  case stopAwait =>
    clear hsave hi
    rcases saver with _|_|⟨_|_|_|_⟩|w|_|_|_ <;>
      simp only [step, mainRunnable, mainStep, SaverPc.alive] <;> (repeat' split) <;> simp only [FileInv] at h ⊢ <;> simp_all
  all_goals
    clear hsave hi
    simp only [step, mainRunnable, mainStep]
    (repeat' split) <;> simp only [FileInv] at h ⊢ <;> simp_all

theorem fileInv_stepC (s : Sys) (c : ChoiceC) (hi : Inv (erase s)) (h : FileInv s) : FileInv (stepC s c) := by
  cases c with
  | churn => exact fileInv_congr s _ rfl (Nat.le_succ _) rfl rfl rfl h
  | base b =>
    cases b with
    | tick d =>
      obtain ⟨h1, h2, h3, h4, h5⟩ := tick_frame s d
      exact fileInv_congr s _ h1 (Nat.le_of_eq h2.symm) h3 h4 h5 h
    | mutate =>
      obtain ⟨h1, h3, h4, h5, h2, _⟩ := mutate_frame s
      exact fileInv_congr s _ h1 h2 h3 h4 h5 h
    | saver lands =>
      obtain ⟨h1, h2, h3, h4, h5⟩ := saver_frame s lands
      by_cases hfinal : s.main = .finished ∨ ∃ ph, s.main = .finalSave ph
      · have hdead : s.saver.alive = false := by
          obtain ⟨hfin, hsave⟩ := ctl_of_erase s hi
          rcases hfinal with hm | ⟨ph, hm⟩
          · exact (hfin hm).1
          · exact (hsave ph hm).1
        show FileInv (step s (.saver lands))
        rw [h5 hdead]; exact h
      · -- before the final save the invariant only says that `finalSaveDone` is still false
        show FileInv (step s (.saver lands))
        generalize step s (.saver lands) = s' at h1 h4
        obtain ⟨f, main, saver, cancelReq, now, t0, reg, snap, fsnap, file, saveStarts, loaded, started, entered,
          disconnectTried, finalSaveDone, pending, outcome⟩ := s
        obtain ⟨f', main', saver', cancelReq', now', t0', reg', snap', fsnap', file', saveStarts', loaded', started',
          entered', disconnectTried', finalSaveDone', pending', outcome'⟩ := s'
        simp only at h1 h4 hfinal
        subst h1 h4
        rcases main' with _|_|_|_|_|_|_|⟨_|_|_|_⟩|_ <;> simp_all [FileInv]
    | main => exact fileInv_main s hi h

theorem fileInv_runC_from (s : Sys) (cs : List ChoiceC) (hi : Inv (erase s)) (h : FileInv s) :
    Inv (erase (runC s cs)) ∧ FileInv (runC s cs) := by
  induction cs generalizing s with
  | nil => exact ⟨hi, h⟩
  | cons c cs ih => exact ih _ (inv_erase_stepC s c hi) (fileInv_stepC s c hi h)

theorem fileInv_runC (f : Faults) (t v : Nat) (cs : List ChoiceC) : FileInv (runC (init f t v) cs) :=
  (fileInv_runC_from _ cs (by rw [erase_init]; exact inv_init f t 0) (fileInv_init f t v)).2

/-- From the moment the body has ended (`r0` = the registry then, or at any later moment before the final save's
snapshot), what the final save writes is no older than `r0`. -/
def ExitInv (r0 : Nat) (s : Sys) : Prop :=
  match s.main with
  | .disconnect | .stopCancel | .stopAwait => r0 ≤ s.reg
  | .finalSave _ => r0 ≤ s.fsnap
  | .finished => s.finalSaveDone = true → r0 ≤ s.fsnap
  | _ => False

theorem exitInv_congr (r0 : Nat) (a b : Sys) (h1 : b.main = a.main) (h2 : a.reg ≤ b.reg) (h3 : b.fsnap = a.fsnap)
    (h4 : b.finalSaveDone = a.finalSaveDone) (h : ExitInv r0 a) : ExitInv r0 b := by
  obtain ⟨f, main, saver, cancelReq, now, t0, reg, snap, fsnap, file, saveStarts, loaded, started, entered,
    disconnectTried, finalSaveDone, pending, outcome⟩ := a
  obtain ⟨f', main', saver', cancelReq', now', t0', reg', snap', fsnap', file', saveStarts', loaded', started', entered',
    disconnectTried', finalSaveDone', pending', outcome'⟩ := b
  simp only at h1 h2 h3 h4
  subst h1 h3 h4
  rcases main' with _|_|_|_|_|_|_|⟨_|_|_|_⟩|_ <;> simp only [ExitInv] at h ⊢ <;>
    first | exact h | exact Nat.le_trans h h2

theorem exitInv_main (r0 : Nat) (s : Sys) (hf : FileInv s) (h : ExitInv r0 s) : ExitInv r0 (step s .main) := by
  obtain ⟨f, main, saver, cancelReq, now, t0, reg, snap, fsnap, file, saveStarts, loaded, started, entered,
    disconnectTried, finalSaveDone, pending, outcome⟩ := s
  rcases main with _|_|_|_|_|_|_|⟨_|_|_|_⟩|_
  case stopAwait =>
    rcases saver with _|_|⟨_|_|_|_⟩|w|_|_|_ <;>
      simp only [step, mainRunnable, mainStep, SaverPc.alive] <;> (repeat' split) <;> simp_all [ExitInv, FileInv]
  all_goals
    simp only [step, mainRunnable, mainStep]
    (repeat' split) <;> simp_all [ExitInv, FileInv]

theorem exitInv_stepC (r0 : Nat) (s : Sys) (c : ChoiceC) (hf : FileInv s) (h : ExitInv r0 s) :
    ExitInv r0 (stepC s c) := by
  cases c with
  | churn => exact exitInv_congr r0 s _ rfl (Nat.le_succ _) rfl rfl h
  | base b =>
    cases b with
    | tick d =>
      obtain ⟨h1, h2, h3, h4, _⟩ := tick_frame s d
      exact exitInv_congr r0 s _ h1 (Nat.le_of_eq h2.symm) h3 h4 h
    | mutate =>
      obtain ⟨h1, h3, h4, _, h2, _⟩ := mutate_frame s
      exact exitInv_congr r0 s _ h1 h2 h3 h4 h
    | saver lands =>
      obtain ⟨h1, h2, h3, h4, _⟩ := saver_frame s lands
      exact exitInv_congr r0 s _ h1 (Nat.le_of_eq h2.symm) h3 h4 h
    | main => exact exitInv_main r0 s hf h

theorem exitInv_runC_from (r0 : Nat) (s : Sys) (cs : List ChoiceC) (hi : Inv (erase s)) (hf : FileInv s)
    (h : ExitInv r0 s) : ExitInv r0 (runC s cs) := by
  induction cs generalizing s with
  | nil => exact h
  | cons c cs ih =>
    exact ih _ (inv_erase_stepC s c hi) (fileInv_stepC s c hi hf) (exitInv_stepC r0 s c hf h)

theorem runC_append (s : Sys) (as bs : List ChoiceC) : runC s (as ++ bs) = runC (runC s as) bs := by
  simp [runC, List.foldl_append]

end AioMySensors.Lifecycle
