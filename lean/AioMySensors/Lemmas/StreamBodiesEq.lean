/-
The tie between the generated `StreamTransport` methods (`Generated/StreamBodies.lean`, written by
`tools/translate.py` from the Python of the working tree on every run of C03 / C17) and the hand-written
`Transport.connect / disconnect / read / write` of `Model/Stream.lean` that the C17 theorems speak about: each
generated method, run on any transport object with any injected fault, has exactly the outcome and the resulting
transport of its hand-written counterpart.
-/
import AioMySensors.Generated.StreamBodies

set_option linter.unusedSimpArgs false

namespace AioMySensors.StreamBodiesEq
open AioMySensors AioMySensors.Stream

theorem clause_connect : clause Gen.excStreamConnect 0 = [.OSError] := rfl
theorem clause_disconnect : clause Gen.excStreamDisconnect 0 = [.OSError] := rfl
theorem clause_write : clause Gen.excStreamWrite 0 = [.OSError] := rfl
theorem clause_read0 : clause Gen.excStreamRead 0 = [.LimitOverrunError] := rfl
theorem clause_read1 : clause Gen.excStreamRead 1 = [.IncompleteReadError] := rfl
theorem clause_read2 : clause Gen.excStreamRead 2 = [.OSError] := rfl
theorem clause_read3 : clause Gen.excStreamRead 3 = [.UnicodeDecodeError] := rfl

attribute [local simp] TM.bind TM.seq TM.pure TM.raise TM.catchMap TM.suppress LS.readerIsNone LS.writerIsNone
  LS.openConnection LS.readuntil LS.decode LS.writerWrite LS.drain LS.close LS.waitClosed unitOutcome readOutcome mapBy absorb
  clause_connect clause_disconnect clause_write clause_read0 clause_read1 clause_read2 clause_read3

theorem connect_eq (t : Transport) (limit : Nat) (fault : Option PyExn) :
    unitOutcome (GenStream.connect limit fault t) = Transport.connect t limit fault := by
  cases fault with
  | none => simp [GenStream.connect, Transport.connect]
  | some c => cases h : pyCaught c [.OSError] <;> simp [GenStream.connect, Transport.connect, h]

theorem disconnect_eq (t : Transport) (fault : CloseFault) :
    unitOutcome (GenStream.disconnect fault t) = Transport.disconnect t fault := by
  cases ht : t.conn with
  | none => simp [GenStream.disconnect, Transport.disconnect, ht]
  | some cn =>
    cases fault with
    | clean => simp [GenStream.disconnect, Transport.disconnect, ht]
    | atClose c => cases h : pyCaught c [.OSError] <;> simp [GenStream.disconnect, Transport.disconnect, ht, h]
    | atWaitClosed c => cases h : pyCaught c [.OSError] <;> simp [GenStream.disconnect, Transport.disconnect, ht, h]

theorem write_eq (t : Transport) (line : Str) (fault : WriteFault) :
    unitOutcome (GenStream.write line fault t) = Transport.write t line fault := by
  cases ht : t.conn with
  | none => simp [GenStream.write, Transport.write, ht]
  | some cn =>
    cases fault with
    | clean => simp [GenStream.write, Transport.write, ht]
    | atWrite c => cases h : pyCaught c [.OSError] <;> simp [GenStream.write, Transport.write, ht, h]
    | atDrain c => cases h : pyCaught c [.OSError] <;> simp [GenStream.write, Transport.write, ht, h]

theorem read_eq (d : Bytes → Option Str) (t : Transport) :
    readOutcome (GenStream.read d t) = Transport.read d t := by
  cases ht : t.conn with
  | none => simp [GenStream.read, Transport.read, ht]
  | some cn =>
    cases hr : cn.reader.readuntil with
    | mk raw r' =>
      cases raw with
      | line b =>
        cases hd : d b with
        | some s => simp [GenStream.read, Transport.read, ht, hr, finish, hd]
        | none =>
          cases hu : pyCaught .UnicodeDecodeError [.UnicodeDecodeError] <;>
            simp [GenStream.read, Transport.read, ht, hr, finish, hd, decodeExn, hu]
      | wait => simp [GenStream.read, Transport.read, ht, hr, finish]
      | limitOverrun =>
        cases h0 : pyCaught .LimitOverrunError [.LimitOverrunError] <;>
        cases h1 : pyCaught .LimitOverrunError [.IncompleteReadError] <;>
        cases h2 : pyCaught .LimitOverrunError [.OSError] <;>
          simp [GenStream.read, Transport.read, ht, hr, finish, mapReadExn, List.find?, h0, h1, h2]
      | incomplete p =>
        cases h0 : pyCaught .IncompleteReadError [.LimitOverrunError] <;>
        cases h1 : pyCaught .IncompleteReadError [.IncompleteReadError] <;>
        cases h2 : pyCaught .IncompleteReadError [.OSError] <;>
          simp [GenStream.read, Transport.read, ht, hr, finish, mapReadExn, List.find?, h0, h1, h2]
      | raised c =>
        cases h0 : pyCaught c [.LimitOverrunError] <;>
        cases h1 : pyCaught c [.IncompleteReadError] <;>
        cases h2 : pyCaught c [.OSError] <;>
          simp [GenStream.read, Transport.read, ht, hr, finish, mapReadExn, List.find?, h0, h1, h2]

end AioMySensors.StreamBodiesEq
