/-
The tie between the generated `StreamTransport` methods (`Generated/StreamBodies.lean`, written by
`tools/translate.py` from the Python of the working tree on every run of C03 / C16 / C17) and the hand-written
`Transport.connect / disconnect / read / write` of `Model/Stream.lean` that the C17 theorems speak about: each
generated method, run on any transport object with any injected fault, has exactly the outcome and the resulting
transport of its hand-written counterpart.
-/
import AioMySensors.Generated.StreamBodies

set_option linter.unusedSimpArgs false

namespace AioMySensors.StreamBodiesEq
open AioMySensors AioMySensors.Stream

theorem clause_connect : clause Gen.excStreamConnect 0 = [.OSError] := rfl
theorem clause_disconnect : clause Gen.excStreamDisconnect 0 = [.OSError] := rfl
theorem clause_write : clause Gen.excStreamWrite 0 = [.OSError] := rfl

attribute [local simp] TM.bind TM.seq TM.pure TM.raise TM.catchMap TM.suppress LS.readerIsNone LS.writerIsNone
  LS.openConnection LS.readuntil LS.decode LS.writerWrite LS.drain LS.close LS.waitClosed unitOutcome readOutcome mapBy absorb
  clause_connect clause_disconnect clause_write

theorem connect_eq (t : Transport) (limit : Nat) (fault : Option PyExn) :
    unitOutcome (GenStream.connect limit fault t) = Transport.connect t limit fault := by
  cases fault with
  | none => simp [GenStream.connect, Transport.connect]
  | some c => cases h : pyCaught c [.OSError] <;> simp [GenStream.connect, Transport.connect, h]

theorem disconnect_eq (t : Transport) (fault : CloseFault) :
    unitOutcome (GenStream.disconnect fault t) = Transport.disconnect t fault := by
  cases ht : t.conn with
  | none => simp [GenStream.disconnect, Transport.disconnect, ht]
  | some cn =>
    cases fault with
    | clean => simp [GenStream.disconnect, Transport.disconnect, ht]
    | atClose c => cases h : pyCaught c [.OSError] <;> simp [GenStream.disconnect, Transport.disconnect, ht, h]
    | atWaitClosed c => cases h : pyCaught c [.OSError] <;> simp [GenStream.disconnect, Transport.disconnect, ht, h]

theorem write_eq (t : Transport) (line : Str) (fault : WriteFault) :
    unitOutcome (GenStream.write line fault t) = Transport.write t line fault := by
  cases ht : t.conn with
  | none => simp [GenStream.write, Transport.write, ht]
  | some cn =>
    cases fault with
    | clean => simp [GenStream.write, Transport.write, ht]
    | atWrite c => cases h : pyCaught c [.OSError] <;> simp [GenStream.write, Transport.write, ht, h]
    | atDrain c => cases h : pyCaught c [.OSError] <;> simp [GenStream.write, Transport.write, ht, h]

/-- A block of the generated table with its library errors resolved (`none`: some clause does something else than
raising a transport error). -/
def resolve (block : List (List PyExn × String)) : Option (List (List PyExn × TErr)) :=
  block.mapM fun cl => (clauseErr cl.2).map fun e => (cl.1, e)

/-- The clause lists the translator found in `read` are the blocks of the table the model reads, whatever their shape
(both come from the same `try` statements). -/
theorem readClauses0_table : resolve (Gen.excStreamReadBlocks.getD 0 []) = some GenStream.readClauses0 := by decide
theorem readClauses1_table : resolve (Gen.excStreamReadBlocks.getD 1 []) = some GenStream.readClauses1 := by decide

/-- First-match over a resolved block is `mapBlock` over the table's block. -/
theorem mapBlock_resolved (c : PyExn) : ∀ (block : List (List PyExn × String)) (cls : List (List PyExn × TErr)),
    resolve block = some cls →
    mapBlock block c = (match cls.find? fun cl => pyCaught c cl.1 with | some cl => .lib cl.2 | none => .foreign c) := by
  intro block
  induction block with
  | nil => intro cls h; simp [resolve] at h; subst h; simp [mapBlock]
  | cons x xs ih =>
    intro cls h
    obtain ⟨cs, nm⟩ := x
    simp only [resolve, List.mapM_cons, Option.bind_eq_bind] at h
    cases he : clauseErr nm with
    | none => simp [he] at h
    | some e =>
      simp only [he, Option.map_some, Option.bind_some] at h
      cases hr : (xs.mapM fun cl => (clauseErr cl.2).map fun e => (cl.1, e)) with
      | none => simp [hr] at h
      | some rest =>
        simp only [hr, Option.bind_some, Option.pure_def, Option.some.injEq] at h
        subst h
        have := ih rest hr
        cases hc : pyCaught c cs with
        | true => simp [mapBlock, List.find?, hc, he]
        | false =>
          simp only [mapBlock, List.find?, hc] at this ⊢
          exact this

theorem read_eq (d : Bytes → Option Str) (t : Transport) :
    readOutcome (GenStream.read d t) = Transport.read d t := by
  have m0 := fun c => mapBlock_resolved c _ _ readClauses0_table
  have m1 := mapBlock_resolved .UnicodeDecodeError _ _ readClauses1_table
  simp only [List.getD_eq_getElem?_getD] at m0 m1
  cases ht : t.conn with
  | none => simp [GenStream.read, Transport.read, ht]
  | some cn =>
    cases hr : cn.reader.readuntil with
    | mk raw r' =>
      cases raw with
      | line b =>
        cases hd : d b with
        | some s => simp [GenStream.read, Transport.read, ht, hr, finish, hd]
        | none =>
          cases hf : GenStream.readClauses1.find? (fun cl => pyCaught .UnicodeDecodeError cl.1) <;>
            simp [GenStream.read, Transport.read, ht, hr, finish, hd, decodeExn, m1, hf]
      | wait => simp [GenStream.read, Transport.read, ht, hr, finish]
      | limitOverrun =>
        cases hf : GenStream.readClauses0.find? (fun cl => pyCaught .LimitOverrunError cl.1) <;>
          simp [GenStream.read, Transport.read, ht, hr, finish, mapReadExn, m0, hf]
      | incomplete p =>
        cases hf : GenStream.readClauses0.find? (fun cl => pyCaught .IncompleteReadError cl.1) <;>
          simp [GenStream.read, Transport.read, ht, hr, finish, mapReadExn, m0, hf]
      | raised c =>
        cases hf : GenStream.readClauses0.find? (fun cl => pyCaught c cl.1) <;>
          simp [GenStream.read, Transport.read, ht, hr, finish, mapReadExn, m0, hf]

end AioMySensors.StreamBodiesEq
