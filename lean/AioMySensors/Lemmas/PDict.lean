/- Membership lemmas for the association-list dictionaries. -/
import AioMySensors.Model.PDict

namespace AioMySensors.PDict
variable {κ α : Type} [DecidableEq κ]

theorem mem_set {d : PDict κ α} {k : κ} {v : α} {e : κ × α} (h : e ∈ set d k v) : e ∈ d ∨ e = (k, v) := by
  induction d with
  | nil => simp [set] at h; exact Or.inr h
  | cons x xs ih =>
    obtain ⟨k', v'⟩ := x
    simp only [set] at h
    split at h
    · next hk =>
      simp at h
      rcases h with h | h
      · right; subst hk; exact h
      · left; simp [h]
    · simp at h
      rcases h with h | h
      · left; simp [h]
      · rcases ih h with h | h
        · left; simp [h]
        · right; exact h

theorem mem_erase {d : PDict κ α} {k : κ} {e : κ × α} (h : e ∈ erase d k) : e ∈ d := by
  induction d with
  | nil => simp [erase] at h
  | cons x xs ih =>
    obtain ⟨k', v'⟩ := x
    simp only [erase] at h
    split at h
    · simp [h]
    · simp at h
      rcases h with h | h
      · simp [h]
      · simp [ih h]

theorem get?_eq_some_mem {d : PDict κ α} {k : κ} {v : α} (h : get? d k = some v) : (k, v) ∈ d := by
  induction d with
  | nil => simp [get?] at h
  | cons x xs ih =>
    obtain ⟨k', v'⟩ := x
    simp only [get?] at h
    split at h
    · next hk => simp at h; subst hk; subst h; simp
    · simp [ih h]

theorem has_set_self (d : PDict κ α) (k : κ) (v : α) : has (set d k v) k = true := by
  induction d with
  | nil => simp [set, has, get?]
  | cons x xs ih =>
    obtain ⟨k', v'⟩ := x
    simp only [set]
    split
    · next hk => simp [has, get?, hk]
    · next hk => simpa [has, get?, hk] using ih

theorem get?_set_self (d : PDict κ α) (k : κ) (v : α) : get? (set d k v) k = some v := by
  induction d with
  | nil => simp [set, get?]
  | cons x xs ih =>
    obtain ⟨k', v'⟩ := x
    simp only [set]
    split
    · next hk => simp [get?, hk]
    · next hk => simpa [get?, hk] using ih

theorem get?_set_ne (d : PDict κ α) {k k' : κ} (v : α) (h : k' ≠ k) : get? (set d k v) k' = get? d k' := by
  induction d with
  | nil => simp [set, get?, Ne.symm h]
  | cons x xs ih =>
    obtain ⟨k'', v''⟩ := x
    simp only [set]
    split
    · next hk => subst hk; simp [get?, Ne.symm h]
    · next hk =>
      simp only [get?]
      split
      · rfl
      · exact ih

theorem keys_set_of_has {d : PDict κ α} {k : κ} (v : α) (h : has d k = true) : keys (set d k v) = keys d := by
  induction d with
  | nil => simp [has, get?] at h
  | cons x xs ih =>
    obtain ⟨k', v'⟩ := x
    simp only [set]
    split
    · simp [keys]
    · next hk =>
      have : has xs k = true := by simpa [has, get?, hk] using h
      simp [keys] at ih ⊢
      exact ih this

theorem keys_set_of_not_has {d : PDict κ α} {k : κ} (v : α) (h : has d k = false) : keys (set d k v) = keys d ++ [k] := by
  induction d with
  | nil => simp [set, keys]
  | cons x xs ih =>
    obtain ⟨k', v'⟩ := x
    simp only [set]
    split
    · next hk => simp [has, get?, hk] at h
    · next hk =>
      have : has xs k = false := by simpa [has, get?, hk] using h
      simp [keys] at ih ⊢
      exact ih this

theorem has_iff_mem_keys (d : PDict κ α) (k : κ) : has d k = true ↔ k ∈ keys d := by
  induction d with
  | nil => simp [has, get?, keys]
  | cons x xs ih =>
    obtain ⟨k', v'⟩ := x
    simp only [has, get?, keys, List.map_cons, List.mem_cons]
    split
    · next hk => simp [hk]
    · next hk =>
      have : ¬ k = k' := fun e => hk e.symm
      simp only [this, false_or]
      exact ih

theorem get?_erase_ne (d : PDict κ α) {k k' : κ} (h : k' ≠ k) : get? (erase d k) k' = get? d k' := by
  induction d with
  | nil => simp [erase, get?]
  | cons x xs ih =>
    obtain ⟨k'', v''⟩ := x
    simp only [erase]
    split
    · next hk => subst hk; simp [get?, Ne.symm h]
    · simp only [get?]
      split
      · rfl
      · exact ih

theorem keys_erase_subset (d : PDict κ α) (k : κ) : ∀ x ∈ keys (erase d k), x ∈ keys d := by
  intro x hx
  simp only [keys, List.mem_map] at hx ⊢
  obtain ⟨e, he, rfl⟩ := hx
  exact ⟨e, mem_erase he, rfl⟩

theorem wf_set {d : PDict κ α} (h : WF d) (k : κ) (v : α) : WF (set d k v) := by
  unfold WF at *
  by_cases hk : has d k = true
  · rw [keys_set_of_has v hk]; exact h
  · have : has d k = false := by simpa using hk
    rw [keys_set_of_not_has v this]
    rw [List.nodup_append]
    refine ⟨h, by simp, ?_⟩
    intro a ha b hb
    simp at hb; subst hb
    intro e; subst e
    exact hk ((has_iff_mem_keys d a).mpr ha)

theorem wf_erase {d : PDict κ α} (h : WF d) (k : κ) : WF (erase d k) := by
  unfold WF at *
  induction d with
  | nil => simp [erase, keys]
  | cons x xs ih =>
    obtain ⟨k', v'⟩ := x
    simp only [keys, List.map_cons, List.nodup_cons] at h
    simp only [erase]
    split
    · exact h.2
    · simp only [keys, List.map_cons, List.nodup_cons]
      refine ⟨?_, ih h.2⟩
      intro hm
      exact h.1 (keys_erase_subset xs k k' hm)

theorem has_erase_self {d : PDict κ α} (h : WF d) (k : κ) : has (erase d k) k = false := by
  unfold WF at h
  induction d with
  | nil => simp [erase, has, get?]
  | cons x xs ih =>
    obtain ⟨k', v'⟩ := x
    simp only [keys, List.map_cons, List.nodup_cons] at h
    simp only [erase]
    split
    · next hk =>
      subst hk
      cases hh : has xs k' with
      | false => rfl
      | true => exact absurd ((has_iff_mem_keys xs k').mp hh) h.1
    · next hk => simpa [has, get?, hk] using ih h.2

theorem has_set_ne (d : PDict κ α) {k k' : κ} (v : α) (h : k' ≠ k) : has (set d k v) k' = has d k' := by
  simp [has, get?_set_ne d v h]

theorem has_erase_ne (d : PDict κ α) {k k' : κ} (h : k' ≠ k) : has (erase d k) k' = has d k' := by
  simp [has, get?_erase_ne d h]

/-- Two stores under the same key: the second wins (the position in the dict does not change). -/
theorem set_set_self (d : PDict κ α) (k : κ) (a b : α) : set (set d k a) k b = set d k b := by
  induction d with
  | nil => simp [set]
  | cons x xs ih =>
    obtain ⟨k', v'⟩ := x
    simp only [set]
    split
    · next hk => simp [set, hk]
    · next hk => simp [set, hk, ih]

end AioMySensors.PDict
