/-
The tie between the generated marshmallow hooks and constructors of `model/node.py` (`Generated/NodeSchemaBodies.lean`,
written by `tools/translate_nodeschema.py` from the working tree on every run of C13 / C14) and the hand-written
`Schema.nodePreLoad` / `childPreLoad` / `mkNode` / `mkChild` / `loadNode` / `loadChild` that `Persist.loadFile` — what
C13's and C14's theorems speak about — is built from.
-/
import AioMySensors.Generated.NodeSchemaBodies
import AioMySensors.Model.LitPersist

set_option linter.unusedSimpArgs false
set_option linter.unusedVariables false

namespace AioMySensors.NodeSchemaBodiesEq
open AioMySensors Schema

/-! ### A dict up to the insertion order of different keys

`vals k d`: the values stored under `k`, in order (at most one for a dict `json.loads` produced; the model's
association lists are not restricted to that, and neither are the theorems below). -/

def vals (k : Str) (d : List (Str × Json)) : List Json :=
  (d.filter fun kv => decide (kv.1 = k)).map (·.2)

@[simp] theorem vals_nil (k : Str) : vals k [] = [] := rfl

theorem vals_cons (k a : Str) (v : Json) (d : List (Str × Json)) :
    vals k ((a, v) :: d) = if a = k then v :: vals k d else vals k d := by
  by_cases h : a = k <;> simp [vals, List.filter_cons, h]

theorem get?_vals (d : List (Str × Json)) (k : Str) : PDict.get? d k = (vals k d).head? := by
  induction d with
  | nil => rfl
  | cons x xs ih =>
    obtain ⟨a, v⟩ := x
    by_cases h : a = k <;> simp [PDict.get?, vals_cons, h, ih]

theorem has_vals (d : List (Str × Json)) (k : Str) : PDict.has d k = (vals k d).head?.isSome := by
  simp [PDict.has, get?_vals]

theorem vals_set (d : List (Str × Json)) (a k : Str) (v : Json) :
    vals k (PDict.set d a v) = if a = k then v :: (vals k d).tail else vals k d := by
  induction d with
  | nil => by_cases h : a = k <;> simp [PDict.set, vals_cons, h]
  | cons x xs ih =>
    obtain ⟨b, w⟩ := x
    by_cases hb : b = a
    · subst hb
      by_cases h : b = k <;> simp [PDict.set, vals_cons, h]
    · by_cases h : a = k
      · subst h
        simp [PDict.set, vals_cons, hb, ih]
      · by_cases h' : b = k
        · subst h'; simp [PDict.set, vals_cons, hb, h, ih]
        · simp [PDict.set, vals_cons, hb, h, h', ih]

theorem vals_erase (d : List (Str × Json)) (a k : Str) :
    vals k (PDict.erase d a) = if a = k then (vals k d).tail else vals k d := by
  induction d with
  | nil => simp [PDict.erase]
  | cons x xs ih =>
    obtain ⟨b, w⟩ := x
    by_cases hb : b = a
    · subst hb
      by_cases h : b = k <;> simp [PDict.erase, vals_cons, h]
    · by_cases h : a = k
      · subst h
        simp [PDict.erase, vals_cons, hb, ih]
      · by_cases h' : b = k
        · subst h'; simp [PDict.erase, vals_cons, hb, h, ih]
        · simp [PDict.erase, vals_cons, hb, h, h', ih]

/-- The same Python dict: the same values under the same keys (the insertion order of different keys aside). -/
def SameDict (a b : List (Str × Json)) : Prop := ∀ k, vals k a = vals k b

theorem SameDict.get? {a b : List (Str × Json)} (h : SameDict a b) (k : Str) : PDict.get? a k = PDict.get? b k := by
  rw [get?_vals, get?_vals, h k]

theorem mem_vals {d : List (Str × Json)} {kv : Str × Json} (h : kv ∈ d) : kv.2 ∈ vals kv.1 d := by
  simp only [vals, List.mem_map, List.mem_filter]
  exact ⟨kv, ⟨h, by simp⟩, rfl⟩

theorem of_mem_vals {d : List (Str × Json)} {k : Str} {v : Json} (h : v ∈ vals k d) : (k, v) ∈ d := by
  simp only [vals, List.mem_map, List.mem_filter] at h
  obtain ⟨⟨k', v'⟩, ⟨hm, hk⟩, hv⟩ := h
  simp at hk hv
  subst hk; subst hv; exact hm

theorem SameDict.all {a b : List (Str × Json)} (h : SameDict a b) (p : Str → Bool) :
    (a.all fun kv => p kv.1) = (b.all fun kv => p kv.1) := by
  rw [Bool.eq_iff_iff, List.all_eq_true, List.all_eq_true]
  constructor
  · intro ha kv hkv
    have := mem_vals hkv
    rw [← h kv.1] at this
    exact ha _ (of_mem_vals this)
  · intro hb kv hkv
    have := mem_vals hkv
    rw [h kv.1] at this
    exact hb _ (of_mem_vals this)

/-- marshmallow's deserialisation reads a dict by key only: field by field through `get`, and the unknown-key test. -/
theorem loadRecord_congr (specs : List FieldSpec) (nested : Json → Except PyExn Child) {a b : List (Str × Json)}
    (h : SameDict a b) : loadRecord specs nested a = loadRecord specs nested b := by
  have h1 : (specs.map fun f => (f, fieldResult nested a f)) = (specs.map fun f => (f, fieldResult nested b f)) := by
    apply List.map_congr_left
    intro f _
    simp only [fieldResult, h.get?]
  have h2 : knownKeys specs a = knownKeys specs b := h.all fun k => specs.any fun f => f.name.toList == k
  simp only [loadRecord, h1, h2]

/-! ### The constructors -/

theorem kwargs_eq (r : Rec) (ps : List String) : LN.kwargs r ps = argsKnown r ps := rfl

/-- Case analysis on the keyword arguments present, one parameter after the other (`n`: how many parameters the model's
constructor has); a branch where both sides have stopped with the same exception, or built the same object, closes by
`rfl`. -/
syntax "ctor_cases " ident num : tactic
macro_rules
  | `(tactic| ctor_cases $r $n) =>
    match n.getNat with
    | 0 => `(tactic| rfl)
    | k + 1 => `(tactic|
      first
      | rfl
      | (generalize List.lookup _ $r = o
         rcases o with _ | (_ | _ | _ | _ | _) <;> ctor_cases $r $(Lean.Syntax.mkNumLit (toString k))))

/-- `Child.__init__` as translated (parameter list, defaults, `values or {}`) is the model's `Child(**data)`. -/
theorem Child_init_eq (r : Rec) : GenNodeSchema.Child_init r = mkChild r := by
  unfold GenNodeSchema.Child_init mkChild
  rw [kwargs_eq]
  unfold childParams
  generalize argsKnown r _ = a
  rcases a with e | ⟨⟩
  · rfl
  simp only [LN.argInt, LN.argStr, LN.argBool, LN.argStrDictOrNone, LN.argChildDictOrNone, Schema.argInt, Schema.argStr,
    Schema.argBool, Schema.argStrDict, Schema.argChildDict, LN.orEmpty, LN.pyIntOfInt]
  ctor_cases r 4

theorem ChildSchema_post_load_eq (r : Rec) : GenNodeSchema.ChildSchema_post_load r = mkChild r := by
  unfold GenNodeSchema.ChildSchema_post_load
  exact Child_init_eq r

/-- `Node.__init__` as translated (parameter list, defaults, `int(node_type)`, `children or {}`, `reboot = False`) is the
model's `Node(**data)`. -/
theorem Node_init_eq (r : Rec) : GenNodeSchema.Node_init r = mkNode r := by
  unfold GenNodeSchema.Node_init mkNode
  rw [kwargs_eq]
  unfold nodeParams
  generalize argsKnown r _ = a
  rcases a with e | ⟨⟩
  · rfl
  simp only [LN.argInt, LN.argStr, LN.argBool, LN.argStrDictOrNone, LN.argChildDictOrNone, Schema.argInt, Schema.argStr,
    Schema.argBool, Schema.argStrDict, Schema.argChildDict, LN.orEmpty, LN.pyIntOfInt]
  ctor_cases r 9

theorem NodeSchema_post_load_eq (r : Rec) : GenNodeSchema.NodeSchema_post_load r = mkNode r := by
  unfold GenNodeSchema.NodeSchema_post_load
  exact Node_init_eq r

/-! ### The `pre_load` hooks -/

/-- The same object up to the insertion order of different keys of the top-level dict (which nothing downstream
reads: `loadRecord_congr`). -/
def SameTop : Json → Json → Prop
  | .obj a, .obj b => SameDict a b
  | .null, .null => True
  | .bool a, .bool b => a = b
  | .int a, .int b => a = b
  | .real a, .real b => a = b
  | .str a, .str b => a = b
  | .arr a, .arr b => a = b
  | _, _ => False

/-- The same outcome of a hook: the same exception class, or the same object in the sense of `SameTop`. -/
def SameRes : Except PyExn Json → Except PyExn Json → Prop
  | .ok a, .ok b => SameTop a b
  | .error e, .error e' => e = e'
  | _, _ => False

theorem ite_app {α β : Type} (c : Prop) [Decidable c] (f g : α → β) (x : α) :
    (if c then f else g) x = if c then f x else g x := by
  split <;> rfl

/-- Case analysis on whether the key `k` is one of the listed constants. -/
syntax "key_split " ident " [" term,* "] " " => " tactic : tactic
macro_rules
  | `(tactic| key_split $k [] => $t:tactic) => `(tactic| $t:tactic)
  | `(tactic| key_split $k [$a] => $t:tactic) =>
    `(tactic| (by_cases hk : $a = $k; (subst hk; $t:tactic); $t:tactic))
  | `(tactic| key_split $k [$a, $as,*] => $t:tactic) =>
    `(tactic| (by_cases hk : $a = $k; (subst hk; $t:tactic); (key_split $k [$as,*] => $t:tactic)))

/-- `ChildSchema.handle_compatibility` as translated has the outcome of the model's `childPreLoad` on every JSON value:
the same exception class on whatever is no dict, and on a dict the same dict (`SameDict`: the renamed keys may have been
appended in another order, which `loadRecord_congr` shows nothing reads — so two independent `if` blocks may be swapped). -/
theorem ChildSchema_pre_load_eq (j : Json) : SameRes (LN.run GenNodeSchema.ChildSchema_pre_load j) (childPreLoad j) := by
  cases j with
  | obj kvs =>
    rcases h1 : vals cs!"id" kvs with _ | ⟨a1, t1⟩ <;> rcases h2 : vals cs!"type" kvs with _ | ⟨a2, t2⟩ <;>
    simp [GenNodeSchema.ChildSchema_pre_load, childPreLoad, LN.run, LN.bind, LN.seq, LN.contains, LN.pop, LN.getItem,
      LN.setItem, LN.skip, LN.pure, LN.retData, LN.isNone, ite_app, moveKey, has_vals, get?_vals, vals_set, vals_erase,
      h1, h2, SameRes, SameTop, SameDict]
    all_goals try (
      intro (k : Str)
      key_split k [cs!"id", cs!"type", cs!"child_id", cs!"child_type"] =>
        (simp [vals_set, vals_erase, h1, h2, *]))
  | str s =>
    cases h1 : hasSub cs!"id" s <;> cases h2 : hasSub cs!"type" s <;>
    simp [GenNodeSchema.ChildSchema_pre_load, childPreLoad, LN.run, LN.bind, LN.seq, LN.contains, LN.pop, LN.getItem,
      LN.setItem, LN.skip, LN.pure, LN.retData, LN.isNone, ite_app, h1, h2, SameRes, SameTop]
  | arr xs =>
    cases h1 : xs.any (Json.isStr cs!"id") <;> cases h2 : xs.any (Json.isStr cs!"type") <;>
    simp [GenNodeSchema.ChildSchema_pre_load, childPreLoad, LN.run, LN.bind, LN.seq, LN.contains, LN.pop, LN.getItem,
      LN.setItem, LN.skip, LN.pure, LN.retData, LN.isNone, ite_app, h1, h2, SameRes, SameTop]
  | _ =>
    simp [GenNodeSchema.ChildSchema_pre_load, childPreLoad, LN.run, LN.bind, LN.seq, LN.contains, LN.pop, LN.getItem,
      LN.setItem, LN.skip, LN.pure, LN.retData, LN.isNone, ite_app, SameRes, SameTop]

theorem nullToEmpty_eq (k : Str) (kvs : List (Str × Json)) :
    nullToEmpty k kvs = if (PDict.get? kvs k).map Json.isNull = some true then PDict.set kvs k (.str []) else kvs := by
  unfold nullToEmpty
  cases PDict.get? kvs k with
  | none => simp
  | some v => cases v <;> simp [Json.isNull]

/-- `NodeSchema.handle_compatibility` as translated (`sensor_id` → `node_id`; `type` → `node_type` with `None` → 18;
`sketch_name` / `sketch_version` `None` → `""`) has the outcome of the model's `nodePreLoad` on every JSON value. -/
theorem NodeSchema_pre_load_eq (j : Json) : SameRes (LN.run GenNodeSchema.NodeSchema_pre_load j) (nodePreLoad j) := by
  cases j with
  | obj kvs =>
    rcases h1 : vals cs!"sensor_id" kvs with _ | ⟨a1, t1⟩ <;> rcases h2 : vals cs!"type" kvs with _ | ⟨a2, t2⟩ <;>
    rcases h3 : vals cs!"sketch_name" kvs with _ | ⟨a3, t3⟩ <;>
    rcases h4 : vals cs!"sketch_version" kvs with _ | ⟨a4, t4⟩ <;>
    (try cases n2 : a2.isNull) <;> (try cases n3 : a3.isNull) <;> (try cases n4 : a4.isNull) <;>
    simp [GenNodeSchema.NodeSchema_pre_load, nodePreLoad, LN.run, LN.bind, LN.seq, LN.contains, LN.pop, LN.getItem,
      LN.setItem, LN.skip, LN.pure, LN.retData, LN.isNone, ite_app, moveKey, nullToEmpty_eq, legacyGatewayType, has_vals,
      get?_vals, vals_set, vals_erase, SameRes, SameTop, SameDict, *]
    all_goals try (
      intro (k : Str)
      key_split k [cs!"sensor_id", cs!"type", cs!"node_id", cs!"node_type", cs!"sketch_name", cs!"sketch_version"] =>
        (simp [vals_set, vals_erase, *]))
  | str s =>
    cases h1 : hasSub cs!"sensor_id" s <;> cases h2 : hasSub cs!"type" s <;>
    cases h3 : hasSub cs!"sketch_name" s <;> cases h4 : hasSub cs!"sketch_version" s <;>
    simp [GenNodeSchema.NodeSchema_pre_load, nodePreLoad, LN.run, LN.bind, LN.seq, LN.contains, LN.pop, LN.getItem,
      LN.setItem, LN.skip, LN.pure, LN.retData, LN.isNone, ite_app, h1, h2, h3, h4, SameRes, SameTop]
  | arr xs =>
    cases h1 : xs.any (Json.isStr cs!"sensor_id") <;> cases h2 : xs.any (Json.isStr cs!"type") <;>
    cases h3 : xs.any (Json.isStr cs!"sketch_name") <;> cases h4 : xs.any (Json.isStr cs!"sketch_version") <;>
    simp [GenNodeSchema.NodeSchema_pre_load, nodePreLoad, LN.run, LN.bind, LN.seq, LN.contains, LN.pop, LN.getItem,
      LN.setItem, LN.skip, LN.pure, LN.retData, LN.isNone, ite_app, h1, h2, h3, h4, SameRes, SameTop]
  | _ =>
    simp [GenNodeSchema.NodeSchema_pre_load, nodePreLoad, LN.run, LN.bind, LN.seq, LN.contains, LN.pop, LN.getItem,
      LN.setItem, LN.skip, LN.pure, LN.retData, LN.isNone, ite_app, SameRes, SameTop]

/-! ### The assembled loads -/

/-- `ChildSchema().load`, assembled from the translated hooks, is the model's, for every JSON value. -/
theorem loadChild_eq (j : Json) : GenNodeSchema.loadChild j = Schema.loadChild j := by
  have h := ChildSchema_pre_load_eq j
  have hp : GenNodeSchema.ChildSchema_post_load = mkChild := funext ChildSchema_post_load_eq
  unfold GenNodeSchema.loadChild Schema.loadChild
  generalize LN.run GenNodeSchema.ChildSchema_pre_load j = x at h ⊢
  generalize childPreLoad j = y at h ⊢
  rcases x with e | a <;> rcases y with e' | b
  · simp only [SameRes] at h; subst h; rfl
  · simp only [SameRes] at h
  · simp only [SameRes] at h
  · cases a <;> cases b <;> simp only [SameRes, SameTop] at h <;> try rfl
    show (loadRecord _ _ _).bind _ = (loadRecord _ _ _).bind _
    rw [loadRecord_congr _ _ h, hp]

theorem loadChild_fun_eq : GenNodeSchema.loadChild = Schema.loadChild := funext loadChild_eq

/-- `NodeSchema().load`, assembled from the translated hooks (the nested children through the translated
`ChildSchema` hooks), is the model's `loadNode`, for every JSON value. -/
theorem loadNode_eq (j : Json) : GenNodeSchema.loadNode j = Schema.loadNode j := by
  have h := NodeSchema_pre_load_eq j
  have hp : GenNodeSchema.NodeSchema_post_load = mkNode := funext NodeSchema_post_load_eq
  unfold GenNodeSchema.loadNode Schema.loadNode
  generalize LN.run GenNodeSchema.NodeSchema_pre_load j = x at h ⊢
  generalize nodePreLoad j = y at h ⊢
  rcases x with e | a <;> rcases y with e' | b
  · simp only [SameRes] at h; subst h; rfl
  · simp only [SameRes] at h
  · simp only [SameRes] at h
  · cases a <;> cases b <;> simp only [SameRes, SameTop] at h <;> try rfl
    show (loadRecord _ _ _).bind _ = (loadRecord _ _ _).bind _
    rw [loadRecord_congr _ _ h, hp, loadChild_fun_eq]

theorem loadNode_fun_eq : GenNodeSchema.loadNode = Schema.loadNode := funext loadNode_eq

theorem loadNodes_eq (acc : PDict Int Node) (kvs : List (Str × Json)) :
    GenNodeSchema.loadNodes acc kvs = Persist.loadNodes acc kvs := by
  induction kvs generalizing acc with
  | nil => rfl
  | cons x xs ih =>
    obtain ⟨k, v⟩ := x
    simp only [GenNodeSchema.loadNodes, Persist.loadNodes, loadNode_eq]
    cases Schema.loadNode v with
    | error e => rfl
    | ok r => obtain ⟨id, n⟩ := r; exact ih _

/-- The loop of `Persistence.load` — the `LP.loadEach` of the translated `GenPersist.load`, hence of `Persist.loadFile`
(`PersistBodiesEq.load_eq`) — with every record going through the translated hooks and constructors. -/
theorem loadEach_eq (cur : PDict Int Node) (data : Json) : GenNodeSchema.loadEach cur data = LP.loadEach cur data := by
  cases data <;> simp only [GenNodeSchema.loadEach, LP.loadEach, Persist.loadRaw, loadNodes_eq]

/-- All the way: `Persist.loadFile` (the subject of C13's and C14's theorems, equal to the translated `Persistence.load` by
`PersistBodiesEq.load_eq`) is the two `try` statements around the loop that sends every record through the translated
hooks and constructors. -/
theorem loadFile_through_generated (cur : PDict Int Node) (fs : Persist.FileState) :
    Persist.loadFile cur fs =
      match Persist.readFile fs with
      | .ok j =>
        match Persist.mapRead (clause Gen.excPersistLoad 2) (GenNodeSchema.loadEach cur j) with
        | .ok r => .ok ⟨r, none⟩
        | .error e => .error e
      | .error c =>
        if pyCaught c (clause Gen.excPersistLoad 0) then .ok ⟨cur, some (Persist.save cur)⟩
        else if pyCaught c (clause Gen.excPersistLoad 1) then .error (.lib .persistenceRead)
        else .error (.foreign c) := by
  unfold Persist.loadFile Persist.loadInto
  cases Persist.readFile fs with
  | error c => rfl
  | ok j =>
    simp only [loadEach_eq, LP.loadEach]
    cases Persist.mapRead (clause Gen.excPersistLoad 2) (Persist.loadRaw cur j) <;> rfl

end AioMySensors.NodeSchemaBodiesEq
