/-
Exact, step-level facts: what the generated dispatch resolves to for each command / type, what the
two decorators do around a handler's outcome, and what `gateway.send` does for each command.
The property files combine these into the reaction theorems.
-/
import AioMySensors.Lemmas.Rel
import AioMySensors.Lemmas.PDict

namespace AioMySensors
open M

/-- The missing-node/child decorator is present from protocol 2.0 on. -/
def wrapNC (v : Ver) (inner : Msg → M Msg) : Msg → M Msg :=
  if Ver.v20 ≤ v then wrapMissingNC inner else inner

/-! ### What the generated tables resolve to -/

theorem dispatch_presentation (env : Env) (v : Ver) (m : Msg) (h : m.cmd = 0) :
    dispatch env v m =
      (if Ver.v20 ≤ v then wrapMissingNC (fun m => seq (prePresentation20 m) (wrapMissingPV (hPresentation env v) m))
       else wrapMissingPV (hPresentation env v)) m := by
  unfold dispatch; rw [h]; cases v <;> rfl

theorem dispatch_set (env : Env) (v : Ver) (m : Msg) (h : m.cmd = 1) :
    dispatch env v m = wrapNC v (wrapMissingPV hSet) m := by
  unfold dispatch; rw [h]; cases v <;> rfl

theorem dispatch_req (env : Env) (v : Ver) (m : Msg) (h : m.cmd = 2) :
    dispatch env v m = wrapNC v (wrapMissingPV hReq) m := by
  unfold dispatch; rw [h]; cases v <;> rfl

theorem dispatch_internal (env : Env) (v : Ver) (m : Msg) (h : m.cmd = 3) :
    dispatch env v m = wrapMissingPV (hInternal env v) m := by
  unfold dispatch; rw [h]; cases v <;> rfl

theorem dispatch_stream (env : Env) (v : Ver) (m : Msg) (h : m.cmd = 4) :
    dispatch env v m = wrapNC v (wrapMissingPV (hStream env v)) m := by
  unfold dispatch; rw [h]; cases v <;> rfl

/-- Internal types handled identically in every version (no decorator at the type level). -/
theorem internal_id_request (env : Env) (v : Ver) (m : Msg) (h : m.type = 3) : hInternal env v m = hIdRequest m := by
  unfold hInternal; rw [h]; cases v <;> rfl

theorem internal_config (env : Env) (v : Ver) (m : Msg) (h : m.type = 6) : hInternal env v m = hConfig env m := by
  unfold hInternal; rw [h]; cases v <;> rfl

theorem internal_time (env : Env) (v : Ver) (m : Msg) (h : m.type = 1) : hInternal env v m = hTime env m := by
  unfold hInternal; rw [h]; cases v <;> rfl

theorem internal_version (env : Env) (v : Ver) (m : Msg) (h : m.type = 2) : hInternal env v m = hVersion m := by
  unfold hInternal; rw [h]; cases v <;> rfl

theorem internal_battery (env : Env) (v : Ver) (m : Msg) (h : m.type = 0) : hInternal env v m = wrapNC v hBattery m := by
  unfold hInternal; rw [h]; cases v <;> rfl

theorem internal_sketch_name (env : Env) (v : Ver) (m : Msg) (h : m.type = 11) : hInternal env v m = wrapNC v hSketchName m := by
  unfold hInternal; rw [h]; cases v <;> rfl

theorem internal_sketch_version (env : Env) (v : Ver) (m : Msg) (h : m.type = 12) :
    hInternal env v m = wrapNC v hSketchVersion m := by
  unfold hInternal; rw [h]; cases v <;> rfl

/-- Gateway ready: a discover broadcast from 2.0 on, nothing before. -/
theorem internal_gateway_ready (env : Env) (v : Ver) (m : Msg) (h : m.type = 14) :
    hInternal env v m = (if Ver.v20 ≤ v then hGatewayReady m else pure m) := by
  unfold hInternal; rw [h]; cases v <;> rfl

/-- Heartbeat response: wake signal in 2.0/2.1, a plain report in 2.2, unsupported before. -/
theorem internal_heartbeat_response (env : Env) (v : Ver) (m : Msg) (h : m.type = 22) :
    hInternal env v m =
      match v with
      | .v14 | .v15 => raise (.lib .unsupported)
      | .v20 | .v21 => wrapMissingNC hHeartbeat20 m
      | .v22 => wrapMissingNC hHeartbeat22 m := by
  unfold hInternal; rw [h]; cases v <;> rfl

/-- Pre-sleep notification: exists only in 2.2, where it is the wake signal. -/
theorem internal_pre_sleep (env : Env) (v : Ver) (m : Msg) (h : m.type = 32) :
    hInternal env v m = (if v = .v22 then wrapMissingNC hPreSleep22 m else raise (.lib .unsupported)) := by
  unfold hInternal; rw [h]; cases v <;> rfl

/-- Log messages have no handler: returned as they are. -/
theorem internal_log (env : Env) (v : Ver) (m : Msg) (h : m.type = 9) : hInternal env v m = pure m := by
  unfold hInternal; rw [h]; cases v <;> rfl

/-! ### `gateway.send` -/

/-- Outgoing handlers (generated): `set` parks for sleeping nodes, every other command is written at once. -/
theorem outgoing_table : ∀ v : Ver, Gen.outgoingHandlers v =
    [(0, some .direct), (1, some .set14), (2, some .direct), (3, some .direct), (4, some .direct)] := by decide

theorem gwSend_direct (sm : Msg) (b : Bool) (h : sm.cmd = 0 ∨ sm.cmd = 2 ∨ sm.cmd = 3 ∨ sm.cmd = 4) :
    gwSend sm b = transportWrite (encode sm) := by
  funext w
  simp only [gwSend, M.bind, M.getSt, outgoing_table]
  rcases h with h | h | h | h <;> simp [h, List.lookup]

/-- A set command: parked iff buffering is allowed and the destination is known to be sleeping. -/
theorem gwSend_set (sm : Msg) (b : Bool) (w : W) (h : sm.cmd = 1) :
    gwSend sm b w =
      if b = true ∧ (∃ n, w.st.nodes.get? sm.node = some n ∧ n.sleeping = true) then
        (.ok (), { w with st := { w.st with sbuf := w.st.sbuf.set sm.key sm } })
      else transportWrite (encode sm) w := by
  simp only [gwSend, M.bind, M.getSt, outgoing_table, h, List.lookup]
  cases hn : w.st.nodes.get? sm.node with
  | none => simp
  | some n =>
    cases hb : b <;> cases hs : n.sleeping <;> simp [hs, M.modifySt]

theorem transportWrite_ok (line : Str) (w : W) (h : w.faults = []) :
    transportWrite line w = (.ok (), { w with writes := w.writes ++ [⟨line, true⟩] }) := by
  simp [transportWrite, h]

theorem transportWrite_fail (line : Str) (w : W) (rest : List Fault) (h : w.faults = .fail :: rest) :
    transportWrite line w = (.error (.lib .transportFailed), { w with faults := rest, writes := w.writes ++ [⟨line, false⟩] }) := by
  simp [transportWrite, h]

/-- The task is cancelled while it waits in the write. -/
theorem transportWrite_cancel (line : Str) (w : W) (rest : List Fault) (h : w.faults = .cancel :: rest) :
    transportWrite line w = (.error (.foreign .CancelledError), { w with faults := rest, writes := w.writes ++ [⟨line, false⟩] }) := by
  simp [transportWrite, h]

/-- Either way the write does not complete: the exception is the one the fault stands for. -/
theorem transportWrite_abort (line : Str) (w : W) (f : Fault) (e : Exn) (rest : List Fault) (h : w.faults = f :: rest)
    (he : f.exn = some e) :
    transportWrite line w = (.error e, { w with faults := rest, writes := w.writes ++ [⟨line, false⟩] }) := by
  cases f <;> simp [Fault.exn] at he <;> subst he <;> simp [transportWrite, h]

theorem transportWrite_pass (line : Str) (w : W) (rest : List Fault) (h : w.faults = .pass :: rest) :
    transportWrite line w = (.ok (), { w with faults := rest, writes := w.writes ++ [⟨line, true⟩] }) := by
  simp [transportWrite, h]

/-! ### The version-query decorator -/

theorem versionQuery_cmd : versionQuery.cmd = 3 := by decide

/-- `handle_missing_protocol_version`, spelled out. -/
theorem wrapMissingPV_eq (inner : Msg → M Msg) (m : Msg) (w : W) :
    wrapMissingPV inner m w =
      (let r := (inner m w).1
       let w' := (inner m w).2
       let m' := match r with | .ok m' => m' | .error _ => m
       if w'.st.pv.isNone && wantsVersionQuery m' then
         match transportWrite (encode versionQuery) w' with
         | (.ok (), w'') => (r, w'')
         | (.error e, w'') => (.error e, w'')
       else (r, w')) := by
  simp only [wrapMissingPV, M.tryFinally, M.bind, M.getSt, gwSend_direct versionQuery _ (Or.inr (Or.inr (Or.inl versionQuery_cmd)))]
  cases hi : inner m w with
  | mk r w' =>
    cases hw : transportWrite (encode versionQuery) w' with
    | mk r2 w'' =>
      cases r with
      | ok m' =>
        cases hp : w'.st.pv <;> cases hq : wantsVersionQuery m' <;> cases r2 <;> simp_all [M.pure]
      | error e =>
        cases hp : w'.st.pv <;> cases hq : wantsVersionQuery m <;> cases r2 <;> simp_all [M.pure]

/-- With the version known afterwards, the decorator adds nothing. -/
theorem wrapMissingPV_known (inner : Msg → M Msg) (m : Msg) (w : W) (h : (inner m w).2.st.pv.isSome = true) :
    wrapMissingPV inner m w = inner m w := by
  rw [wrapMissingPV_eq]
  have : (inner m w).2.st.pv.isNone = false := by
    cases hp : (inner m w).2.st.pv <;> simp_all
  simp [this]

/-! ### The missing-node/child decorator -/

theorem wrapMissingNC_ok (inner : Msg → M Msg) (m r : Msg) (w w' : W) (h : inner m w = (.ok r, w')) :
    wrapMissingNC inner m w = (.ok r, w') := by
  simp [wrapMissingNC, M.tryCatch, h]

theorem wrapMissingNC_other (inner : Msg → M Msg) (m : Msg) (e : Exn) (w w' : W) (h : inner m w = (.error e, w'))
    (he : missingCaught e = false) : wrapMissingNC inner m w = (.error e, w') := by
  simp [wrapMissingNC, M.tryCatch, h, he]

theorem presentationRequest_cmd (n : Int) : (presentationRequest n).cmd = 3 := rfl

/-- An outstanding request: nothing is written, the error goes through. -/
theorem wrapMissingNC_marked (inner : Msg → M Msg) (m : Msg) (e : Exn) (w w' : W) (h : inner m w = (.error e, w'))
    (he : missingCaught e = true) (hm : w'.st.ibuf.has (presentationRequest m.node).key = true) :
    wrapMissingNC inner m w = (.error e, w') := by
  simp [wrapMissingNC, M.tryCatch, h, he, M.bind, M.getSt, hm, M.raise]

/-- No outstanding request: one request is written; it is recorded only if the write succeeded,
and a failed write replaces the error. -/
theorem wrapMissingNC_unmarked (inner : Msg → M Msg) (m : Msg) (e : Exn) (w w' : W) (h : inner m w = (.error e, w'))
    (he : missingCaught e = true) (hm : w'.st.ibuf.has (presentationRequest m.node).key = false) :
    wrapMissingNC inner m w =
      match transportWrite (encode (presentationRequest m.node)) w' with
      | (.ok (), w'') => (.error e, { w'' with st := { w''.st with ibuf := w''.st.ibuf.set (presentationRequest m.node).key (presentationRequest m.node) } })
      | (.error e', w'') => (.error e', w'') := by
  simp only [wrapMissingNC, M.tryCatch, h, he, if_true, M.bind, M.getSt, hm, M.seq,
    gwSend_direct (presentationRequest m.node) _ (Or.inr (Or.inr (Or.inl (presentationRequest_cmd _))))]
  cases hw : transportWrite (encode (presentationRequest m.node)) w' with
  | mk r w'' =>
    cases r with
    | ok u => simp [M.bind, hw, M.modifySt, M.raise]
    | error e' => simp [M.bind, hw]

theorem wrapNC_old (v : Ver) (inner : Msg → M Msg) (h : ¬ Ver.v20 ≤ v) : wrapNC v inner = inner := by
  simp [wrapNC, h]

theorem wrapNC_new (v : Ver) (inner : Msg → M Msg) (h : Ver.v20 ≤ v) : wrapNC v inner = wrapMissingNC inner := by
  simp [wrapNC, h]

theorem wrapNC_ok (v : Ver) (inner : Msg → M Msg) (m r : Msg) (w w' : W) (h : inner m w = (.ok r, w')) :
    wrapNC v inner m w = (.ok r, w') := by
  unfold wrapNC; split
  · exact wrapMissingNC_ok inner m r w w' h
  · exact h

end AioMySensors
