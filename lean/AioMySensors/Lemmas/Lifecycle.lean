/-
Invariants of the lifecycle small-step system (Model/Lifecycle.lean), preserved by every scheduler
choice, hence true after every schedule.  Used by Properties/C16.lean.
-/
import AioMySensors.Model.Lifecycle

namespace AioMySensors.Lifecycle
open AioMySensors

/-! ### What the generated except-clause tables have to say (re-checked on every build) -/

/-! Whether the saver's sleep has its own `except asyncio.CancelledError: break` is NOT needed: without it the saver
task ends cancelled instead of returning, and `cancel_save`'s `suppress` absorbs that — the invariant below is proved
for both readings of `sleepCatchesCancel`. -/

/-- `with contextlib.suppress(asyncio.CancelledError): await task`. -/
theorem await_suppresses_cancel : awaitSuppressesCancel = true := by decide

/-- `save`'s `except OSError` does not swallow a cancellation. -/
theorem save_passes_cancel : saveCatchesCancel = false := by decide

theorem interval_pos : 0 < interval := by decide

/-! ### The control invariant -/

/-- The exception in flight when `stop` begins. -/
def pendingAtStop (f : Faults) (entered : Bool) : Option Exc :=
  if entered then
    (if f.disconnectFails then some .disconnectErr else bodyExit f)
  else some .connectErr

/-- What has to be true once the context statement has completed. -/
def Final (s : Sys) : Prop :=
  -- no task alive
  s.saver.alive = false ∧
  -- entered -> disconnect attempted
  (s.entered = true → s.disconnectTried = true) ∧
  -- persistence started -> stop ran to the end (final save of the registry as of exit), unless the final save failed
  (s.started = true →
    (s.finalSaveDone = true ∧ s.file = .holds s.reg) ∨ (s.faults.finalSaveFails = true ∧ s.outcome = some .saveErr)) ∧
  -- the exception is the failing step's
  s.outcome = expectedOutcome s.faults ∧
  (s.started = false → s.faults.loadFails = true ∧ s.saver = .absent) ∧
  (s.faults.loadFails = false → (s.entered = false ↔ s.faults.connectFails = true)) ∧
  (s.faults.loadFails = true → s.started = false)

/-- Facts shared by all phases of `stop`. -/
def StopCtx (s : Sys) : Prop :=
  s.started = true ∧ s.faults.loadFails = false ∧
  (s.entered = true → s.disconnectTried = true ∧ s.faults.connectFails = false) ∧
  (s.entered = false → s.faults.connectFails = true) ∧
  s.pending = pendingAtStop s.faults s.entered

def Inv (s : Sys) : Prop :=
  match s.main with
  | .load => s.saver = .absent ∧ s.started = false ∧ s.entered = false ∧ s.cancelReq = false
  | .start => s.saver = .absent ∧ s.started = false ∧ s.entered = false ∧ s.cancelReq = false ∧
      s.faults.loadFails = false ∧ s.loaded = true
  | .connect => s.saver.alive = true ∧ s.saver ≠ .inSave .unwinding ∧ s.started = true ∧ s.entered = false ∧
      s.cancelReq = false ∧ s.faults.loadFails = false ∧ s.loaded = true
  | .body => s.saver.alive = true ∧ s.saver ≠ .inSave .unwinding ∧ s.started = true ∧ s.entered = true ∧
      s.cancelReq = false ∧ s.faults.loadFails = false ∧ s.faults.connectFails = false ∧ s.loaded = true
  | .disconnect => s.saver.alive = true ∧ s.saver ≠ .inSave .unwinding ∧ s.started = true ∧ s.entered = true ∧
      s.cancelReq = false ∧ s.faults.loadFails = false ∧ s.faults.connectFails = false ∧
      s.pending = bodyExit s.faults
  | .stopCancel => s.saver.alive = true ∧ s.saver ≠ .inSave .unwinding ∧ s.cancelReq = false ∧ StopCtx s
  | .stopAwait => (s.saver.alive = true → s.cancelReq = true) ∧ s.saver ≠ .absent ∧ s.saver ≠ .failed ∧ StopCtx s
  | .finalSave ph => s.saver.alive = false ∧ s.saver ≠ .absent ∧ s.saver ≠ .failed ∧ StopCtx s ∧ s.fsnap = s.reg ∧
      ph ≠ .unwinding ∧ (ph = .writing → s.faults.finalSaveFails = false) ∧
      (ph = .closing → s.faults.finalSaveFails = false ∧ s.file = .holds s.reg)
  | .finished => Final s

theorem inv_init (f : Faults) (t v : Nat) : Inv (init f t v) := by
  simp [Inv, init]

theorem inv_now (s : Sys) (n : Nat) : Inv { s with now := n } = Inv s := by
  obtain ⟨f, main, saver, cancelReq, now, t0, reg, snap, fsnap, file, saveStarts, loaded, started, entered,
    disconnectTried, finalSaveDone, pending, outcome⟩ := s
  cases main <;> rfl

theorem inv_tick (s : Sys) (d : Nat) (h : Inv s) : Inv (tickStep s d) := by
  unfold tickStep
  split <;> (rw [inv_now]; exact h)

theorem inv_mutate (s : Sys) (hm : s.main = .body) (h : Inv s) : Inv { s with reg := s.reg + 1 } := by
  obtain ⟨f, main, saver, cancelReq, now, t0, reg, snap, fsnap, file, saveStarts, loaded, started, entered,
    disconnectTried, finalSaveDone, pending, outcome⟩ := s
  simp only at hm
  subst hm
  exact h

theorem inv_saver (s : Sys) (lands : Bool) (hr : saverRunnable s = true) (h : Inv s) : Inv (saverStep s lands) := by
  obtain ⟨f, main, saver, cancelReq, now, t0, reg, snap, fsnap, file, saveStarts, loaded, started, entered,
    disconnectTried, finalSaveDone, pending, outcome⟩ := s
  rcases hsc : sleepCatchesCancel with _|_ <;>
  rcases main with _|_|_|_|_|_|_|⟨_|_|_|_⟩|_ <;> rcases saver with _|_|⟨_|_|_|_⟩|w|_|_|_ <;>
    simp_all [Inv, saverStep, saverRunnable, beginSave, Final, StopCtx, SaverPc.alive, save_passes_cancel]

theorem inv_main (s : Sys) (hr : mainRunnable s = true) (h : Inv s) : Inv (mainStep s) := by
  obtain ⟨f, main, saver, cancelReq, now, t0, reg, snap, fsnap, file, saveStarts, loaded, started, entered,
    disconnectTried, finalSaveDone, pending, outcome⟩ := s
  obtain ⟨loadFails, connectFails, bodyRaises, disconnectFails, finalSaveFails, bodyCancelled⟩ := f
  rcases main with _|_|_|_|_|_|_|⟨_|_|_|_⟩|_
  case load => cases loadFails <;> simp_all [Inv, mainStep, Final, expectedOutcome, SaverPc.alive]
  case start => simp_all [Inv, mainStep, SaverPc.alive]
  case connect => cases connectFails <;> simp_all [Inv, mainStep, StopCtx, pendingAtStop]
  case body => simp_all [Inv, mainStep]
  case disconnect => cases disconnectFails <;> cases bodyRaises <;> simp_all [Inv, mainStep, StopCtx, pendingAtStop]
  case stopCancel =>
    rcases saver with _|_|⟨_|_|_|_⟩|w|_|_|_ <;> simp_all [Inv, mainStep, StopCtx, SaverPc.alive]
  case stopAwait =>
    rcases saver with _|_|⟨_|_|_|_⟩|w|_|_|_ <;>
      simp_all [Inv, mainStep, mainRunnable, StopCtx, SaverPc.alive, await_suppresses_cancel]
  case finalSave.opening =>
    cases finalSaveFails <;> cases connectFails <;> simp_all [Inv, mainStep, StopCtx, Final, expectedOutcome]
  case finalSave.writing => simp_all [Inv, mainStep, StopCtx]
  case finalSave.closing =>
    cases connectFails <;> cases disconnectFails <;> cases bodyRaises <;> cases entered <;>
      simp_all [Inv, mainStep, StopCtx, Final, expectedOutcome, pendingAtStop]
  case finalSave.unwinding => simp_all [Inv]
  case finished => simp_all [mainRunnable]

theorem inv_step (s : Sys) (c : Choice) (h : Inv s) : Inv (step s c) := by
  cases c with
  | tick d => simp only [step]; split; exact h; exact inv_tick s d h
  | mutate => simp only [step]; split; next hm => exact inv_mutate s hm h
              exact h
  | main => simp only [step]; split; next hr => exact inv_main s hr h
            exact h
  | saver lands => simp only [step]; split; next hr => exact inv_saver s lands hr h
                   exact h

theorem inv_run (s : Sys) (cs : List Choice) (h : Inv s) : Inv (run s cs) := by
  induction cs generalizing s with
  | nil => exact h
  | cons c cs ih => exact ih _ (inv_step s c h)

/-! ### The faults never change -/

theorem faults_step (s : Sys) (c : Choice) : (step s c).faults = s.faults := by
  obtain ⟨f, main, saver, cancelReq, now, t0, reg, snap, fsnap, file, saveStarts, loaded, started, entered,
    disconnectTried, finalSaveDone, pending, outcome⟩ := s
  cases c with
  | tick d => simp only [step, tickStep]; split <;> (try split) <;> rfl
  | mutate => simp only [step]; split <;> rfl
  | main =>
    simp only [step]; split
    · rcases main with _|_|_|_|_|_|_|⟨_|_|_|_⟩|_ <;> simp only [mainStep] <;> (repeat' split) <;> rfl
    · rfl
  | saver lands =>
    simp only [step]; split
    · rcases saver with _|_|⟨_|_|_|_⟩|w|_|_|_ <;> simp only [saverStep, beginSave] <;> (repeat' split) <;> rfl
    · rfl

theorem faults_run (s : Sys) (cs : List Choice) : (run s cs).faults = s.faults := by
  induction cs generalizing s with
  | nil => rfl
  | cons c cs ih => exact (ih _).trans (faults_step s c)

/-! ### The cadence invariant -/

/-- `t0, t0 + I, …, t0 + (n-1)·I`. -/
def prog (t0 n : Nat) : List Nat := (List.range n).map fun k => t0 + k * interval

theorem prog_succ (t0 n : Nat) : prog t0 (n + 1) = prog t0 n ++ [t0 + n * interval] := by
  simp [prog, List.range_succ]

theorem length_prog (t0 n : Nat) : (prog t0 n).length = n := by simp [prog]

theorem countP_prog (t0 n T : Nat) :
    (prog t0 n).countP (fun t => decide (t0 ≤ t ∧ t ≤ t0 + T)) = min n (T / interval + 1) := by
  induction n with
  | zero => simp [prog]
  | succ n ih =>
    rw [prog_succ, List.countP_append, ih]
    have hle : (n * interval ≤ T) ↔ n ≤ T / interval := (Nat.le_div_iff_mul_le interval_pos).symm
    by_cases h : n ≤ T / interval
    · have : n * interval ≤ T := hle.mpr h
      simp [this]; omega
    · have : ¬ n * interval ≤ T := fun h' => h (hle.mp h')
      simp [this]; omega

/-- `l` is the progression `t0, t0 + I, …` of its own length. -/
def ProgOk (t0 : Nat) (l : List Nat) : Prop := l = prog t0 l.length

theorem progOk_nil (t0 : Nat) : ProgOk t0 [] := rfl

theorem progOk_snoc (t0 : Nat) (l : List Nat) (h : ProgOk t0 l) : ProgOk t0 (l ++ [t0 + l.length * interval]) := by
  unfold ProgOk at *
  rw [List.length_append, List.length_singleton, prog_succ, ← h]

/-- While the saver has not been cancelled it is alive, its saves began exactly at
`t0, t0 + I, t0 + 2I, …`, and it is either about to save (time has not moved since the save began)
or asleep until the next multiple. -/
def CadInv (s : Sys) : Prop :=
  (s.started = false → s.saveStarts = []) ∧
  (s.started = true → s.cancelReq = false →
    ProgOk s.t0 s.saveStarts ∧
    match s.saver with
    | .notStarted => s.saveStarts = [] ∧ s.now = s.t0
    | .inSave ph => ph ≠ .unwinding ∧ 0 < s.saveStarts.length ∧ s.now + interval = s.t0 + s.saveStarts.length * interval
    | .sleeping w => 0 < s.saveStarts.length ∧ w = s.t0 + s.saveStarts.length * interval ∧ s.now ≤ w
    | _ => False)

theorem cad_init (f : Faults) (t v : Nat) : CadInv (init f t v) := by
  simp [CadInv, init]

theorem inv_started (s : Sys) (hi : Inv s) (ha : s.saver.alive = true) : s.started = true := by
  obtain ⟨f, main, saver, cancelReq, now, t0, reg, snap, fsnap, file, saveStarts, loaded, started, entered,
    disconnectTried, finalSaveDone, pending, outcome⟩ := s
  rcases main with _|_|_|_|_|_|_|⟨_|_|_|_⟩|_ <;> simp_all [Inv, StopCtx, Final, SaverPc.alive]

theorem runnable_alive (s : Sys) (hr : saverRunnable s = true) : s.saver.alive = true := by
  obtain ⟨f, main, saver, cancelReq, now, t0, reg, snap, fsnap, file, saveStarts, loaded, started, entered,
    disconnectTried, finalSaveDone, pending, outcome⟩ := s
  rcases saver with _|_|⟨_|_|_|_⟩|w|_|_|_ <;> simp_all [saverRunnable, SaverPc.alive]

theorem cad_step (s : Sys) (c : Choice) (hi : Inv s) (h : CadInv s) : CadInv (step s c) := by
  obtain ⟨f, main, saver, cancelReq, now, t0, reg, snap, fsnap, file, saveStarts, loaded, started, entered,
    disconnectTried, finalSaveDone, pending, outcome⟩ := s
  cases c with
  | tick d =>
    simp only [step]; split
    · exact h
    · next hr =>
      rcases saver with _|_|⟨_|_|_|_⟩|w|_|_|_ <;> simp_all [CadInv, tickStep, saverRunnable]
      all_goals first | omega | (intros; omega) | exact Nat.min_le_right _ _ | (intros; exact Nat.min_le_right _ _)
  | mutate => simp only [step]; split <;> simpa [CadInv] using h
  | main =>
    simp only [step]; split
    · rcases main with _|_|_|_|_|_|_|⟨_|_|_|_⟩|_ <;>
        simp only [mainStep] <;> (repeat' split) <;>
        first
        | exact h
        | (rcases saver with _|_|⟨_|_|_|_⟩|w|_|_|_ <;> simp_all [CadInv, Inv, SaverPc.alive, progOk_nil])
    · exact h
  | saver lands =>
    simp only [step]; split
    · next hr =>
      have hst := inv_started _ hi (runnable_alive _ hr)
      simp only at hst
      subst hst
      cases cancelReq
      · rcases saver with _|_|⟨_|_|_|_⟩|w|_|_|_ <;> simp_all [CadInv, saverStep, saverRunnable, beginSave]
        · have := progOk_snoc t0 [] (progOk_nil t0)
          simpa using this
        · omega
        · obtain ⟨hp, hl, hw, hn⟩ := h
          have hnow : now = t0 + saveStarts.length * interval := by omega
          refine ⟨?_, ?_⟩
          · rw [hnow]; exact progOk_snoc t0 saveStarts hp
          · rw [Nat.succ_mul]; omega
      · rcases saver with _|_|⟨_|_|_|_⟩|w|_|_|_ <;> simp_all [CadInv, saverStep, saverRunnable]
    · exact h

theorem cad_run (s : Sys) (cs : List Choice) (hi : Inv s) (h : CadInv s) : CadInv (run s cs) := by
  induction cs generalizing s with
  | nil => exact h
  | cons c cs ih => exact ih _ (inv_step s c hi) (cad_step s c hi h)

theorem run_append (s : Sys) (as bs : List Choice) : run s (as ++ bs) = run (run s as) bs := by
  simp [run, List.foldl_append]

/-! ### Progress: `await task` never blocks for good, the context statement completes -/

def rank : MainPc → Nat
  | .load => 12 | .start => 11 | .connect => 10 | .body => 9 | .disconnect => 8 | .stopCancel => 7
  | .stopAwait => 6 | .finalSave .opening => 5 | .finalSave .writing => 4 | .finalSave _ => 3 | .finished => 0

theorem main_progress (s : Sys) (hr : mainRunnable s = true) : rank (mainStep s).main < rank s.main := by
  obtain ⟨f, main, saver, cancelReq, now, t0, reg, snap, fsnap, file, saveStarts, loaded, started, entered,
    disconnectTried, finalSaveDone, pending, outcome⟩ := s
  rcases main with _|_|_|_|_|_|_|⟨_|_|_|_⟩|_ <;> simp only [mainStep] <;> (repeat' split) <;>
    simp_all [rank, mainRunnable]

/-- Once `stop` has cancelled the saver, at most two saver steps finish it (two only when the
cancellation arrives inside `write` and the file is closed while the exception propagates). -/
theorem saver_finishes (s : Sys) (b : Bool) (hi : Inv s) (hm : s.main = .stopAwait) (ha : s.saver.alive = true) :
    (step (step s (.saver b)) (.saver b)).saver.alive = false ∧ (step (step s (.saver b)) (.saver b)).main = .stopAwait := by
  obtain ⟨f, main, saver, cancelReq, now, t0, reg, snap, fsnap, file, saveStarts, loaded, started, entered,
    disconnectTried, finalSaveDone, pending, outcome⟩ := s
  simp only at hm
  subst hm
  rcases hsc : sleepCatchesCancel with _|_ <;> rcases saver with _|_|⟨_|_|_|_⟩|w|_|_|_ <;>
    simp_all [Inv, step, saverStep, saverRunnable, SaverPc.alive, save_passes_cancel]

theorem completes (s : Sys) (hi : Inv s) : ∃ cs, (run s cs).main = .finished := by
  generalize hn : rank s.main = n
  induction n using Nat.strongRecOn generalizing s with
  | _ n ih =>
    by_cases hr : mainRunnable s = true
    · have hlt := main_progress s hr
      have hstep : step s .main = mainStep s := by simp [step, hr]
      obtain ⟨cs, hcs⟩ := ih _ (hn ▸ hlt) (mainStep s) (hstep ▸ inv_step s .main hi) rfl
      exact ⟨.main :: cs, by simpa [run, hstep] using hcs⟩
    · by_cases hf : s.main = .finished
      · exact ⟨[], hf⟩
      · -- the only other blocked position is `await task` with the saver still alive
        have hm : s.main = .stopAwait ∧ s.saver.alive = true := by
          obtain ⟨f, main, saver, cancelReq, now, t0, reg, snap, fsnap, file, saveStarts, loaded, started, entered,
            disconnectTried, finalSaveDone, pending, outcome⟩ := s
          rcases main with _|_|_|_|_|_|_|⟨_|_|_|_⟩|_ <;> simp_all [mainRunnable]
        obtain ⟨h1, h2⟩ := saver_finishes s true hi hm.1 hm.2
        let s2 := step (step s (.saver true)) (.saver true)
        have hi2 : Inv s2 := inv_step _ _ (inv_step _ _ hi)
        have hr2 : mainRunnable s2 = true := by simp [mainRunnable, s2, h2, h1]
        have hlt := main_progress s2 hr2
        have hstep : step s2 .main = mainStep s2 := by simp [step, hr2]
        have hrk : rank s2.main = n := by rw [← hn, hm.1]; simp [s2, h2]
        obtain ⟨cs, hcs⟩ := ih _ (hrk ▸ hlt) (mainStep s2) (hstep ▸ inv_step s2 .main hi2) rfl
        exact ⟨.saver true :: .saver true :: .main :: cs, by simpa [run, s2, hstep] using hcs⟩

/-! ### Small facts -/

/-- Only `load` and the body change the registry: what the final save writes is the registry as of exit. -/
theorem reg_step (s : Sys) (c : Choice) (h : s.main ≠ .body) (hl : s.main ≠ .load) : (step s c).reg = s.reg := by
  obtain ⟨f, main, saver, cancelReq, now, t0, reg, snap, fsnap, file, saveStarts, loaded, started, entered,
    disconnectTried, finalSaveDone, pending, outcome⟩ := s
  cases c with
  | tick d => simp only [step, tickStep]; split <;> (try split) <;> rfl
  | mutate => simp only [step]; split <;> simp_all
  | main =>
    simp only [step]; split
    · rcases main with _|_|_|_|_|_|_|⟨_|_|_|_⟩|_ <;> simp only [mainStep] <;> (repeat' split) <;>
        first | rfl | exact absurd rfl hl
    · rfl
  | saver lands =>
    simp only [step]; split
    · rcases saver with _|_|⟨_|_|_|_⟩|w|_|_|_ <;> simp only [saverStep, beginSave] <;> (repeat' split) <;> rfl
    · rfl

/-- Entering implies started implies loaded. -/
def LoadInv (s : Sys) : Prop := (s.started = true → s.loaded = true) ∧ (s.entered = true → s.started = true)

theorem load_step (s : Sys) (c : Choice) (hi : Inv s) (h : LoadInv s) : LoadInv (step s c) := by
  obtain ⟨f, main, saver, cancelReq, now, t0, reg, snap, fsnap, file, saveStarts, loaded, started, entered,
    disconnectTried, finalSaveDone, pending, outcome⟩ := s
  cases c with
  | tick d => simp only [step, tickStep]; split <;> (try split) <;> exact h
  | mutate => simp only [step]; split <;> exact h
  | main =>
    simp only [step]; split
    · rcases main with _|_|_|_|_|_|_|⟨_|_|_|_⟩|_ <;> simp only [mainStep] <;> (repeat' split) <;>
        simp_all [LoadInv, Inv]
    · exact h
  | saver lands =>
    simp only [step]; split
    · rcases saver with _|_|⟨_|_|_|_⟩|w|_|_|_ <;> simp only [saverStep, beginSave] <;> (repeat' split) <;> exact h
    · exact h

theorem load_run (s : Sys) (cs : List Choice) (hi : Inv s) (h : LoadInv s) : LoadInv (run s cs) := by
  induction cs generalizing s with
  | nil => exact h
  | cons c cs ih => exact ih _ (inv_step s c hi) (load_step s c hi h)

theorem head_prog (t0 n : Nat) (h : 0 < n) : (prog t0 n).head? = some t0 := by
  cases n with
  | zero => omega
  | succ n => simp [prog, List.range_succ_eq_map]

end AioMySensors.Lifecycle
