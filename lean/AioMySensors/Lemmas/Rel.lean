/-
One generic traversal of the whole receive path: if a relation `R` on worlds is a preorder and
every primitive state change the handlers can make is an `R`-step, then `recv`, `apiSend` and
every history only make `R`-steps.  Each property then instantiates `R` (an invariant, a frame
condition, …) and proves the handful of primitive facts.
-/
import AioMySensors.Lemmas.Effects
import AioMySensors.Model.Gateway

namespace AioMySensors
open M

/-- Parking a set command in the sleep buffer (`handle_set` of the outgoing handler). -/
def parkMod (m : Msg) : M Unit := modifySt fun s => { s with sbuf := s.sbuf.set m.key m }

/-- Removing a flushed entry (`_handle_sleep_buffer`). -/
def eraseMod (k : Key) (bm : Msg) : M Unit :=
  modifySt fun s => if s.sbuf.get? k = some bm then { s with sbuf := s.sbuf.erase k } else s

/-- Recording a sent presentation request (`handle_missing_node_child`). -/
def markMod (pm : Msg) : M Unit := modifySt fun s => { s with ibuf := s.ibuf.set pm.key pm }

/-- Installing a reported version (`handle_i_version` → the `protocol_version` setter). -/
def versionMod (payload : Str) (v : Ver) : M Unit := modifySt fun s => { s with pv := some payload, proto := v }

/-- The `message_buffer=` flags of every reaction the handlers send (generated). -/
def reactionFlags : List Bool :=
  [Gen.bufVersionQuery, Gen.bufPresentationRequest, Gen.bufReboot, Gen.bufReqReply, Gen.bufIdResponse,
   Gen.bufConfig, Gen.bufTime, Gen.bufDiscover, Gen.bufFlush]

/-- **The messages the controller may write while handling the received message `m`** — the
reaction table of C06 as a predicate (payloads of the config and time replies are pinned down by
their own theorems; here only their shape matters). -/
inductive Reaction (m : Msg) : Msg → Prop where
  /-- the version query `0;255;3;0;2;` -/
  | versionQuery : Reaction m versionQuery
  /-- the presentation request to the sender (C10) -/
  | presentationRequest : Reaction m (presentationRequest m.node)
  /-- the reboot command to the sender -/
  | reboot : Reaction m ⟨m.node, Gen.systemChildId, Gen.cmdInternal, 0, Gen.iReboot, []⟩
  /-- a stored value, as a set message to the asker -/
  | reqReply (value : Str) : Reaction m ⟨m.node, m.child, Gen.cmdSet, 0, m.type, value⟩
  /-- the id response, addressed like the request -/
  | idResponse (id : Int) : Reaction m ⟨m.node, m.child, m.cmd, 0, Gen.iIdResponse, dec id⟩
  /-- config / time reply: same address, command and type as the request -/
  | echoReply (payload : Str) : Reaction m ⟨m.node, m.child, m.cmd, 0, m.type, payload⟩
  /-- the discover broadcast -/
  | discover : Reaction m ⟨Gen.broadcastId, m.child, m.cmd, 0, Gen.iDiscover, []⟩
  /-- a parked command of the node that just woke (C07) -/
  | released (bm : Msg) (h : bm.node = m.node) : Reaction m bm

/-- Everything handling the message `m` can do to the world as `R`-steps, EXCEPT removing flushed entries
from the sleep buffer: what suffices for every handler that does not release. -/
structure StepRel0 (R : W → W → Prop) (m : Msg) : Prop where
  pre : PreO R
  /-- only reactions are ever handed to the transport -/
  write : ∀ sm, Reaction m sm → Rel R (transportWrite (encode sm))
  /-- handlers only ever (re)write the node the message is from … -/
  setNode : ∀ n, Rel R (AioMySensors.setNode m.node n)
  /-- … or register a placeholder under the next free id (id request) -/
  alloc : Rel R allocNode
  mark : Rel R (markMod (presentationRequest m.node))
  unmark : Rel R (prePresentation20 m)
  version : ∀ v, getProtocolE m.payload = .ok v → Rel R (versionMod m.payload v)

/-- Everything handling the message `m` can do to the world, as `R`-steps. -/
structure StepRel (R : W → W → Prop) (m : Msg) : Prop extends StepRel0 R m where
  /-- the flush removes entries of the woken node only -/
  erase : ∀ k bm, bm.node = m.node → Rel R (eraseMod k bm)

variable {R : W → W → Prop} {m : Msg} {line : Str}

/-- The command has the parking outgoing handler in some version. -/
def ParksCmd (cmd : Int) : Prop := ∃ v, (Gen.outgoingHandlers v).lookup cmd = some (some .set14)

theorem rel_gwSend (hR : StepRel0 R m) (sm : Msg) (b : Bool) (hr : Reaction m sm)
    (hpark : b = true → ParksCmd sm.cmd → Rel R (parkMod sm)) :
    Rel R (gwSend sm b) := by
  unfold gwSend
  refine Rel.bind hR.pre (Rel.getSt hR.pre) fun st => ?_
  split
  · exact Rel.raise hR.pre _
  · exact Rel.raise hR.pre _
  · exact hR.write _ hr
  · next hl =>
    split
    · split
      · next hb =>
        simp only [Bool.and_eq_true] at hb
        exact hpark hb.1 ⟨_, hl⟩
      · exact hR.write _ hr
    · exact hR.write _ hr

/-- What the generic traversal needs to know about parking at the reaction call sites. -/
def ParkOK (R : W → W → Prop) : Prop := ∀ b ∈ reactionFlags, b = true → ∀ m, ParksCmd m.cmd → Rel R (parkMod m)

theorem rel_gwSend_site (hR : StepRel0 R m) (hp : ParkOK R) (sm : Msg) (b : Bool) (hr : Reaction m sm)
    (hb : b ∈ reactionFlags) : Rel R (gwSend sm b) :=
  rel_gwSend hR sm b hr fun h hc => hp b hb h sm hc

/-- Which reaction a call site sends. -/
macro "reaction_tac" : tactic => `(tactic| first
  | exact Reaction.versionQuery | exact Reaction.presentationRequest | exact Reaction.reboot
  | exact Reaction.reqReply _ | exact Reaction.idResponse _ | exact Reaction.echoReply _ | exact Reaction.discover)

theorem rel_requireNode (hR : StepRel0 R m) (id : Int) : Rel R (requireNode id) := by
  unfold requireNode
  refine Rel.bind hR.pre (Rel.getSt hR.pre) fun st => ?_
  split
  · exact Rel.pure hR.pre _
  · exact Rel.raise hR.pre _

/-- Syntax-directed search for `Rel R`. -/
macro "rel_auto" hR:ident hp:ident : tactic => `(tactic| repeat' (first
  | exact Rel.pure (StepRel0.pre $hR) _ | exact Rel.raise (StepRel0.pre $hR) _ | exact Rel.getSt (StepRel0.pre $hR)
  | exact StepRel0.setNode $hR _ | exact StepRel0.alloc $hR | exact rel_requireNode $hR _
  | exact Rel.convertExn (StepRel0.pre $hR) _ _ _
  | exact rel_gwSend_site $hR $hp _ _ (by reaction_tac) (by simp [reactionFlags])
  | refine Rel.seq (StepRel0.pre $hR) ?_ ?_ | refine Rel.bind (StepRel0.pre $hR) ?_ (fun _ => ?_)
  | split
  | dsimp only))

theorem rel_wrapMissingPV (hR : StepRel0 R m) (hp : ParkOK R) {inner : Msg → M Msg} (hi : Rel R (inner m)) :
    Rel R (wrapMissingPV inner m) := by
  unfold wrapMissingPV
  refine Rel.tryFinally hR.pre hi fun r => ?_
  cases r <;> rel_auto hR hp

theorem rel_wrapMissingNC (hR : StepRel0 R m) (hp : ParkOK R) {inner : Msg → M Msg} (hi : Rel R (inner m)) :
    Rel R (wrapMissingNC inner m) := by
  unfold wrapMissingNC
  refine Rel.tryCatch hR.pre hi fun e y hy => ?_
  split at hy
  · simp only [Option.some.injEq] at hy
    subst hy
    refine Rel.bind hR.pre (Rel.getSt hR.pre) fun st => ?_
    split
    · exact Rel.raise hR.pre _
    · refine Rel.seq hR.pre (rel_gwSend_site hR hp _ _ Reaction.presentationRequest (by simp [reactionFlags])) ?_
      exact Rel.seq hR.pre hR.mark (Rel.raise hR.pre _)
  · exact absurd hy (by simp)

theorem rel_flushList (hR : StepRel R m) (hp : ParkOK R) (l : List (Key × Msg)) (hl : ∀ e ∈ l, e.2.node = m.node) :
    Rel R (flushList l) := by
  induction l with
  | nil => exact Rel.pure hR.pre _
  | cons x xs ih =>
    obtain ⟨k, bm⟩ := x
    unfold flushList
    exact Rel.seq hR.pre (rel_gwSend_site hR.toStepRel0 hp _ _ (Reaction.released bm (hl (k, bm) (by simp))) (by simp [reactionFlags]))
      (Rel.seq hR.pre (hR.erase k bm (hl (k, bm) (by simp))) (ih fun e he => hl e (by simp [he])))

theorem rel_flush (hR : StepRel R m) (hp : ParkOK R) : Rel R (flush m) := by
  unfold flush
  refine Rel.bind hR.pre (Rel.getSt hR.pre) fun st => ?_
  refine Rel.seq hR.pre (rel_flushList hR hp _ fun e he => ?_) (Rel.pure hR.pre _)
  simpa using (List.mem_filter.mp he).2

theorem rel_hVersion (hR : StepRel0 R m) : Rel R (hVersion m) := ⟨fun w => by
  unfold hVersion AioMySensors.convertExn
  cases h : getProtocolE m.payload with
  | error c =>
    by_cases hc : pyCaught c (clause Gen.excVersion 0) = true
    · simpa [M.bind, M.raise, hc] using hR.pre.refl w
    · simpa [M.bind, M.raise, hc] using hR.pre.refl w
  | ok v =>
    have := (hR.version v h).step w
    simpa [M.bind, M.pure, M.seq, versionMod, M.modifySt] using this⟩

/-- Bodies that release parked commands. -/
def flushing : Body → Bool
  | .iHeartbeatResponse20 => true
  | .iPreSleepNotification22 => true
  | _ => false

/-- Every leaf handler except the two releasing ones, without the `erase` obligation. -/
theorem rel_runLeaf0 (hR : StepRel0 R m) (hp : ParkOK R) (env : Env) (b : Body) (f : Msg → M Msg)
    (hf : runLeaf env b = some f) (hb : flushing b = false) : Rel R (f m) := by
  cases b <;> simp only [runLeaf, Option.some.injEq] at hf <;> try (exact absurd hf (by simp))
  all_goals first
    | (simp [flushing] at hb; done)
    | subst hf
  · unfold hSet; rel_auto hR hp
  · unfold hReq; rel_auto hR hp
  · exact rel_hVersion hR
  · unfold hIdRequest; rel_auto hR hp
  · unfold hConfig; rel_auto hR hp
  · unfold hTime; rel_auto hR hp
  · unfold hBattery; rel_auto hR hp
  · unfold hSketchName; rel_auto hR hp
  · unfold hSketchVersion; rel_auto hR hp
  · unfold hGatewayReady; rel_auto hR hp
  · unfold hDiscoverResponse; rel_auto hR hp
  · unfold hHeartbeat22 heartbeatValue; rel_auto hR hp

theorem rel_runLeaf (hR : StepRel R m) (hp : ParkOK R) (env : Env) (b : Body) (f : Msg → M Msg)
    (hf : runLeaf env b = some f) : Rel R (f m) := by
  cases hb : flushing b with
  | false => exact rel_runLeaf0 hR.toStepRel0 hp env b f hf hb
  | true =>
    have h0 := hR.toStepRel0
    cases b <;> first
      | (simp [flushing] at hb; done)
      | skip
    all_goals simp only [runLeaf, Option.some.injEq] at hf
    all_goals subst hf
    · unfold hHeartbeat20 heartbeatValue
      refine Rel.bind hR.pre (rel_requireNode h0 _) fun node => ?_
      refine Rel.bind hR.pre (Rel.convertExn hR.pre _ _ _) fun hb => ?_
      exact Rel.seq hR.pre (hR.setNode _) (rel_flush hR hp)
    · unfold hPreSleep22
      refine Rel.bind hR.pre (rel_requireNode h0 _) fun node => ?_
      exact Rel.seq hR.pre (hR.setNode _) (rel_flush hR hp)

theorem rel_runPre (hR : StepRel0 R m) (b : Body) : Rel R (runPre b m) := by
  cases b <;> first | exact hR.unmark | exact Rel.raise hR.pre _

theorem rel_applyLayers (hR : StepRel0 R m) (hp : ParkOK R) (ls : List Layer) (base : Msg → M Msg)
    (hb : Rel R (base m)) : Rel R (applyLayers ls base m) := by
  induction ls with
  | nil => simpa [applyLayers] using hb
  | cons l ls ih =>
    cases l with
    | wrap w =>
      cases w with
      | missingPV => simpa [applyLayers] using rel_wrapMissingPV hR hp ih
      | missingNC => simpa [applyLayers] using rel_wrapMissingNC hR hp ih
    | pre b =>
      simp only [applyLayers]
      exact Rel.seq hR.pre (rel_runPre hR b) ih

theorem rel_runTyped (hR : StepRel R m) (hp : ParkOK R) (env : Env) (och : Option Chain) :
    Rel R (runTyped env och m) := by
  cases och with
  | none => exact Rel.pure hR.pre _
  | some ch =>
    simp only [runTyped, runInner]
    cases hf : runLeaf env ch.base with
    | none => exact Rel.raise hR.pre _
    | some f => exact rel_applyLayers hR.toStepRel0 hp _ f (rel_runLeaf hR hp env _ f hf)

/-- The handler reached through the type name does not release. -/
def chainNoFlush (och : Option Chain) : Bool :=
  match och with
  | none => true
  | some ch => !flushing ch.base

theorem rel_runTyped0 (hR : StepRel0 R m) (hp : ParkOK R) (env : Env) (och : Option Chain) (hn : chainNoFlush och = true) :
    Rel R (runTyped env och m) := by
  cases och with
  | none => exact Rel.pure hR.pre _
  | some ch =>
    simp only [runTyped, runInner]
    cases hf : runLeaf env ch.base with
    | none => exact Rel.raise hR.pre _
    | some f => exact rel_applyLayers hR hp _ f (rel_runLeaf0 hR hp env _ f hf (by simpa [chainNoFlush] using hn))

/-- No handler that `m` can reach under protocol `v` through the body `b` releases parked commands. -/
def baseNoFlush (v : Ver) (m : Msg) : Body → Bool
  | .presentation14 => chainNoFlush (Gen.versionHandlerChain v)
  | .internal14 => chainNoFlush (((Gen.internalChains v).lookup m.type).join)
  | .stream14 => chainNoFlush (((Gen.streamChains v).lookup m.type).join)
  | b => !flushing b

theorem rel_runBase (hR : StepRel R m) (hp : ParkOK R) (env : Env) (v : Ver) (b : Body) :
    Rel R (runBase env v b m) := by
  have h0 := hR.toStepRel0
  cases b
  case presentation14 =>
    simp only [runBase, hPresentation]
    split
    · refine Rel.seq hR.pre (hR.setNode _) ?_
      split
      · exact rel_runTyped hR hp env _
      · exact Rel.pure hR.pre _
    · rel_auto h0 hp
  case internal14 =>
    simp only [runBase, hInternal]
    split
    · exact Rel.raise hR.pre _
    · exact rel_runTyped hR hp env _
  case stream14 =>
    simp only [runBase, hStream]
    refine Rel.bind hR.pre (rel_requireNode h0 _) fun _ => ?_
    split
    · exact Rel.raise hR.pre _
    · exact rel_runTyped hR hp env _
  case presentation20 => exact Rel.raise hR.pre _
  case set14 => exact rel_runLeaf hR hp env .set14 _ rfl
  case req14 => exact rel_runLeaf hR hp env .req14 _ rfl
  case iVersion14 => exact rel_runLeaf hR hp env .iVersion14 _ rfl
  case iIdRequest14 => exact rel_runLeaf hR hp env .iIdRequest14 _ rfl
  case iConfig14 => exact rel_runLeaf hR hp env .iConfig14 _ rfl
  case iTime14 => exact rel_runLeaf hR hp env .iTime14 _ rfl
  case iBatteryLevel14 => exact rel_runLeaf hR hp env .iBatteryLevel14 _ rfl
  case iSketchName14 => exact rel_runLeaf hR hp env .iSketchName14 _ rfl
  case iSketchVersion14 => exact rel_runLeaf hR hp env .iSketchVersion14 _ rfl
  case iGatewayReady20 => exact rel_runLeaf hR hp env .iGatewayReady20 _ rfl
  case iDiscoverResponse20 => exact rel_runLeaf hR hp env .iDiscoverResponse20 _ rfl
  case iHeartbeatResponse20 => exact rel_runLeaf hR hp env .iHeartbeatResponse20 _ rfl
  case iHeartbeatResponse22 => exact rel_runLeaf hR hp env .iHeartbeatResponse22 _ rfl
  case iPreSleepNotification22 => exact rel_runLeaf hR hp env .iPreSleepNotification22 _ rfl

theorem rel_runBase0 (hR : StepRel0 R m) (hp : ParkOK R) (env : Env) (v : Ver) (b : Body) (hn : baseNoFlush v m b = true) :
    Rel R (runBase env v b m) := by
  cases b
  case presentation14 =>
    simp only [runBase, hPresentation]
    split
    · refine Rel.seq hR.pre (hR.setNode _) ?_
      split
      · exact rel_runTyped0 hR hp env _ hn
      · exact Rel.pure hR.pre _
    · rel_auto hR hp
  case internal14 =>
    simp only [runBase, hInternal]
    split
    · exact Rel.raise hR.pre _
    · exact rel_runTyped0 hR hp env _ hn
  case stream14 =>
    simp only [runBase, hStream]
    refine Rel.bind hR.pre (rel_requireNode hR _) fun _ => ?_
    split
    · exact Rel.raise hR.pre _
    · exact rel_runTyped0 hR hp env _ hn
  case presentation20 => exact Rel.raise hR.pre _
  case iHeartbeatResponse20 => simp [baseNoFlush, flushing] at hn
  case iPreSleepNotification22 => simp [baseNoFlush, flushing] at hn
  case set14 => exact rel_runLeaf0 hR hp env .set14 _ rfl rfl
  case req14 => exact rel_runLeaf0 hR hp env .req14 _ rfl rfl
  case iVersion14 => exact rel_runLeaf0 hR hp env .iVersion14 _ rfl rfl
  case iIdRequest14 => exact rel_runLeaf0 hR hp env .iIdRequest14 _ rfl rfl
  case iConfig14 => exact rel_runLeaf0 hR hp env .iConfig14 _ rfl rfl
  case iTime14 => exact rel_runLeaf0 hR hp env .iTime14 _ rfl rfl
  case iBatteryLevel14 => exact rel_runLeaf0 hR hp env .iBatteryLevel14 _ rfl rfl
  case iSketchName14 => exact rel_runLeaf0 hR hp env .iSketchName14 _ rfl rfl
  case iSketchVersion14 => exact rel_runLeaf0 hR hp env .iSketchVersion14 _ rfl rfl
  case iGatewayReady20 => exact rel_runLeaf0 hR hp env .iGatewayReady20 _ rfl rfl
  case iDiscoverResponse20 => exact rel_runLeaf0 hR hp env .iDiscoverResponse20 _ rfl rfl
  case iHeartbeatResponse22 => exact rel_runLeaf0 hR hp env .iHeartbeatResponse22 _ rfl rfl

theorem rel_dispatch (hR : StepRel R m) (hp : ParkOK R) (env : Env) (v : Ver) : Rel R (dispatch env v m) := by
  unfold dispatch
  split
  · exact Rel.raise hR.pre _
  · exact rel_applyLayers hR.toStepRel0 hp _ _ (rel_runBase hR hp env v _)

/-- `m` reaches no releasing handler under protocol `v`. -/
def NoFlush (v : Ver) (m : Msg) : Prop :=
  ∀ ch, (Gen.commandChains v).lookup m.cmd = some ch → baseNoFlush v m ch.base = true

theorem rel_dispatch0 (hR : StepRel0 R m) (hp : ParkOK R) (env : Env) (v : Ver) (hn : NoFlush v m) :
    Rel R (dispatch env v m) := by
  unfold dispatch
  split
  · exact Rel.raise hR.pre _
  · next ch hch => exact rel_applyLayers hR hp _ _ (rel_runBase0 hR hp env v _ (hn ch hch))

/-- **Generic receive theorem.** One iteration of `listen` only makes `R`-steps. -/
theorem rel_recv (hpre : PreO R) (hR : ∀ v m, decode v line = some m → StepRel R m) (hp : ParkOK R) (env : Env) :
    Rel R (recv env line) := by
  unfold recv
  refine Rel.bind hpre (Rel.getSt hpre) fun st => ?_
  split
  · exact Rel.raise hpre _
  · next m hm => exact rel_dispatch (hR _ m hm) hp env _

/-- **Generic send theorem**: the user's message is parked or written; nothing else happens. -/
theorem rel_apiSend (hpre : PreO R) (hwrite : ∀ sm, Rel R (transportWrite (encode sm)))
    (hpark : ∀ sm, ParksCmd sm.cmd → Rel R (parkMod sm)) (obj : Option Msg) (b : Bool) :
    Rel R (apiSend obj b) := by
  unfold apiSend
  cases obj with
  | none => exact Rel.raise hpre _
  | some sm =>
    unfold gwSend
    refine Rel.bind hpre (Rel.getSt hpre) fun st => ?_
    split
    · exact Rel.raise hpre _
    · exact Rel.raise hpre _
    · exact hwrite _
    · next hl =>
      split
      · split
        · next hb =>
          simp only [Bool.and_eq_true] at hb
          exact hpark sm ⟨_, hl⟩
        · exact hwrite _
      · exact hwrite _

/-- Parking is an `R`-step wherever it may happen: the simple way to satisfy `ParkOK`. -/
theorem ParkOK.of_all (h : ∀ m, Rel R (parkMod m)) : ParkOK R := fun _ _ _ m _ => h m

/-- No reaction is sent with buffering enabled (generated flags): parking cannot happen in `recv`. -/
theorem ParkOK.of_flags (h : reactionFlags.all (fun b => !b) = true) : ParkOK R := by
  intro b hb hbt
  have := List.all_eq_true.mp h b hb
  simp [hbt] at this

end AioMySensors
