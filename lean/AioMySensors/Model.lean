-- Every executable model file (what `Driver.lean` imports).
import AioMySensors.Model.Vocab
import AioMySensors.Generated.Tables
import AioMySensors.Model.Text
import AioMySensors.Model.PyNum
import AioMySensors.Model.Codec
import AioMySensors.Model.Version
import AioMySensors.Model.PDict
import AioMySensors.Model.PyFloat
import AioMySensors.Model.State
import AioMySensors.Model.Effects
import AioMySensors.Model.Handlers
import AioMySensors.Model.Gateway
import AioMySensors.Model.Mqtt
import AioMySensors.Model.Stream
import AioMySensors.Model.Flush
import AioMySensors.Model.FileOps
import AioMySensors.Model.Lifecycle
