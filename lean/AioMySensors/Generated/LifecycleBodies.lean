import AioMySensors.Model.LitLifecycle

namespace AioMySensors.GenLifecycle
open AioMySensors AioMySensors.LL

def saveOnSchedule : Stmt :=
  .loopForever (.seq Stmt.save (.tryExceptBreak (.call .sleep) (.classes [.CancelledError])))

def cancelSave : Stmt :=
  .seq (.call .cancelTask) (.suppress (.classes [.CancelledError]) (.call .awaitTask))

def start : Stmt :=
  .seq (.call .createTask) (.silent .setCancel)

def stop : Stmt :=
  .seq (.ifCancelSave (.seq cancelSave (.silent .clearCancel)) .skip) Stmt.save

def aenter : Stmt :=
  .seq (.ifPersistence (.seq (.call .load) start) .skip) (.tryExceptReraise (.call .connect) .all (.ifPersistence stop .skip))

def aexit : Stmt :=
  .tryFinally (.call .disconnect) (.ifPersistence stop .skip)

end AioMySensors.GenLifecycle
