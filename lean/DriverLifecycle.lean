/-
Line-protocol driver for the lifecycle model (C16).  `lake env lean --run DriverLifecycle.lean`.

  lnew <l><c><b><d><s>[<x>] <t> <v>
                                 fault flags (load, connect, body raises, disconnect, final save: 0/1, and an
                                 optional sixth flag: the body ends by cancellation of the task running the
                                 context; five flags = not cancelled), start time, registry version held by the file
  lstep main | saver0 | saver1 | tick <d> | mutate
  lrun <choice>,<choice>,…       several choices at once (tick as `tick:<d>`)

Every line answers with the state:
  main=… saver=… cancel=… now=… t0=… reg=… file=… starts=… loaded=… started=… entered=… disc=… final=… outcome=…

`outcome=cancelled` is the body's cancellation propagating out of the context statement (`Exc.bodyCancel`,
only possible with the sixth flag); a `CancelledError` leaked from awaiting the cancelled saver
(`Exc.cancelled`) is shown as `saverCancelLeaked`, which no observation of the harness is ever equal to.
-/
import AioMySensors.Model.Lifecycle

open AioMySensors.Lifecycle

def showPhase : Phase → String
  | .opening => "opening" | .writing => "writing" | .closing => "closing" | .unwinding => "unwinding"

def showSaver : SaverPc → String
  | .absent => "absent" | .notStarted => "notStarted" | .inSave ph => "inSave:" ++ showPhase ph
  | .sleeping w => s!"sleeping:{w}" | .done => "done" | .cancelled => "cancelled" | .failed => "failed"

def showMain : MainPc → String
  | .load => "load" | .start => "start" | .connect => "connect" | .body => "body" | .disconnect => "disconnect"
  | .stopCancel => "stopCancel" | .stopAwait => "stopAwait" | .finalSave ph => "finalSave:" ++ showPhase ph
  | .finished => "finished"

def showExc : Option Exc → String
  | none => "none" | some .loadErr => "loadErr" | some .connectErr => "connectErr" | some .bodyErr => "bodyErr"
  | some .disconnectErr => "disconnectErr" | some .saveErr => "saveErr" | some .cancelled => "saverCancelLeaked"
  | some .bodyCancel => "cancelled"

def showFile : FileSt → String
  | .holds v => s!"holds:{v}" | .truncated => "truncated"

def b01 (b : Bool) : String := if b then "1" else "0"

def showSys (s : Sys) : String :=
  s!"main={showMain s.main} saver={showSaver s.saver} cancel={b01 s.cancelReq} now={s.now} t0={s.t0} reg={s.reg} " ++
  s!"file={showFile s.file} starts={",".intercalate (s.saveStarts.map toString)} loaded={b01 s.loaded} " ++
  s!"started={b01 s.started} entered={b01 s.entered} disc={b01 s.disconnectTried} final={b01 s.finalSaveDone} " ++
  s!"alive={b01 s.saver.alive} outcome={showExc s.outcome}"

def parseFaults5 (cs : List Char) (cancel : Bool) : Option Faults :=
  match cs with
  | [a, b, c, d, e] =>
    if [a, b, c, d, e].all (fun x => x = '0' ∨ x = '1') then
      some { loadFails := a = '1', connectFails := b = '1', bodyRaises := c = '1', disconnectFails := d = '1',
             finalSaveFails := e = '1', bodyCancelled := cancel }
    else none
  | _ => none

def parseFaults (s : String) : Option Faults :=
  match s.toList with
  | [a, b, c, d, e] => parseFaults5 [a, b, c, d, e] false
  | [a, b, c, d, e, x] => if x = '0' ∨ x = '1' then parseFaults5 [a, b, c, d, e] (x = '1') else none
  | _ => none

def parseChoice (toks : List String) : Option Choice :=
  match toks with
  | ["main"] => some .main
  | ["saver0"] => some (.saver false)
  | ["saver1"] => some (.saver true)
  | ["mutate"] => some .mutate
  | ["tick", d] => d.toNat?.map .tick
  | _ => none

def stepLine (st : Sys) (line : String) : Sys × String :=
  match (line.trimAscii.toString.splitOn " ").filter (· ≠ "") with
  | ["lnew", f, t, v] =>
    match parseFaults f, t.toNat?, v.toNat? with
    | some f, some t, some v => let s := init f t v; (s, showSys s)
    | _, _, _ => (st, "bad-op")
  | "lstep" :: rest =>
    match parseChoice rest with
    | some c => let s := step st c; (s, showSys s)
    | none => (st, "bad-op")
  | ["lrun", cs] =>
    match (cs.splitOn ",").mapM (fun c => parseChoice (c.splitOn ":")) with
    | some cs => let s := run st cs; (s, showSys s)
    | none => (st, "bad-op")
  | _ => (st, "bad-op")

partial def loop (h : IO.FS.Stream) (out : IO.FS.Stream) (st : Sys) : IO Unit := do
  let line ← h.getLine
  if line.isEmpty then return ()
  let (st', o) := stepLine st line
  out.putStrLn o
  loop h out st'

def main : IO Unit := do
  let out ← IO.getStdout
  loop (← IO.getStdin) out (init {})
  out.flush
